"""C06 hypothesis strategies: adversarial values of every inlinable type, SQL AST specs, query cases, identifier sets."""
import datetime, decimal
from hypothesis import strategies as st
from vlib import c06_lib as C
from vlib.c06_lex import PH_OPEN, PH_CLOSE

enc = C.enc

# ---------------------------------------------------------------------------------------------------------------------
# values
# ---------------------------------------------------------------------------------------------------------------------
CHARS = list(u"abcXYZ019 '\"\\%_!`;?:$#-/*[](),.=<>|&^~{}@\n\t\r\x01\x1a\x1f\x7f\u00e9\u0416\u4e2d\U0001F600\u00a0\u2028")
FRAGS = [u"%s", u"%(p1)s", u"%%", u"\\'", u"''", u"\\", u"' OR '1'='1", u"'; --", u"/*", u"*/", u"!%", u"!_", u"\\%", u"\\_",
         u"%d", u"--", u"\\\\", u"'", u'"', u"`", u"?", u":1", u":p1", u"$1", u"%", u"_", u"!", u"!!", u"\\n", u"\\0", u"%)s",
         u"\\b", u"x'", u"E'", u"$$", u"%%s", u"%(", u" ", u"a", u"b", u"ab", u"AB", u"\u00e9"]
any_char = st.characters(blacklist_characters=u'\x00' + PH_OPEN + PH_CLOSE, blacklist_categories=('Cs',))
text_st = st.one_of(
    st.text(st.sampled_from(CHARS), max_size=10),
    st.lists(st.sampled_from(FRAGS), max_size=5).map(u''.join),
    st.lists(st.sampled_from(FRAGS), max_size=3).map(u''.join),
    st.text(any_char, max_size=8),
    st.sampled_from([u'', u'a', u'abc', u'%', u'_', u'!', u'\\', u"'", u'%s', u'a\\b', u"a'b", u'100%', u'a_b', u'!%_\\']))

INTS = [0, 1, -1, 7, -7, 10, 2 ** 31 - 1, 2 ** 31, -2 ** 31 - 1, 2 ** 63 - 1, -2 ** 63]
int_st = st.one_of(st.sampled_from(INTS), st.integers(-2 ** 63, 2 ** 63 - 1), st.integers(-50, 50))
small_int_st = st.one_of(st.integers(-50, 50), st.sampled_from(INTS))
float_any_st = st.floats(allow_nan=False, allow_infinity=False)
float_short_st = st.one_of(st.sampled_from([0.0, 0.5, -0.5, 1.5, -2.25, 1e10, 1.5e-7, -3.25e20, 100.125]),
                           st.tuples(st.integers(-10 ** 9, 10 ** 9), st.integers(-12, 12)).map(
                               lambda t: float('%.12g' % (t[0] * 10.0 ** t[1]))))
decimal_any_st = st.decimals(allow_nan=False, allow_infinity=False)
decimal_short_st = st.tuples(st.integers(-10 ** 11, 10 ** 11), st.integers(0, 6)).map(
    lambda t: decimal.Decimal(t[0]).scaleb(-t[1]))
date_st = st.one_of(st.dates(), st.sampled_from([datetime.date(1, 1, 1), datetime.date(999, 12, 31), datetime.date(9999, 12, 31),
                                                 datetime.date(2020, 2, 29)]))
time_st = st.one_of(st.times(), st.sampled_from([datetime.time(0, 0), datetime.time(1, 2, 3), datetime.time(23, 59, 59, 999999)]))
datetime_st = st.one_of(st.datetimes(), st.sampled_from([datetime.datetime(1, 1, 1), datetime.datetime(999, 1, 2, 3, 4, 5, 6),
                                                         datetime.datetime(9999, 12, 31, 23, 59, 59, 999999)]))
TD_SPECIAL = [datetime.timedelta(0), datetime.timedelta(days=1, seconds=77678), datetime.timedelta(days=-1, seconds=77678, microseconds=5),
              datetime.timedelta(microseconds=1), datetime.timedelta(microseconds=-1), datetime.timedelta(days=1),
              datetime.timedelta(hours=100), datetime.timedelta(seconds=-90), datetime.timedelta(days=3, microseconds=500000)]
timedelta_st = st.one_of(st.sampled_from(TD_SPECIAL),
                         st.timedeltas(min_value=datetime.timedelta(days=-10000), max_value=datetime.timedelta(days=10000)),
                         st.tuples(st.integers(-400, 400), st.integers(0, 86399)).map(
                             lambda t: datetime.timedelta(days=t[0], seconds=t[1])))
bytes_st = st.one_of(st.binary(max_size=8), st.sampled_from([b'', b'\x00', b"'", b'\\', b'ab', b'\xff\xfe%s']))

value_any_st = st.one_of(text_st, text_st, text_st, int_st, float_any_st, decimal_any_st, date_st, time_st, datetime_st,
                         timedelta_st, bytes_st, st.booleans(), st.none())

# inside a query a negative timedelta can only be written with a unary minus, which Pony refuses (NotImplementedError) or
# turns into a parameter; query cases therefore use non-negative intervals (negative ones are covered by the value cases)
timedelta_nonneg_st = timedelta_st.map(abs)

TYPED = {'str': text_st, 'int': int_st, 'float': float_short_st, 'Decimal': decimal_short_st, 'date': date_st, 'time': time_st,
         'datetime': datetime_st, 'timedelta': timedelta_nonneg_st, 'bytes': bytes_st}

# ---------------------------------------------------------------------------------------------------------------------
# identifiers
# ---------------------------------------------------------------------------------------------------------------------
NAME_CHARS = list(u"abcXYZ019 '\"\\%_!`;?:$#-/*[](),.=@\u00e9\u0416")
NAME_FRAGS = [u'%s', u'%(p1)s', u'%%', u'"', u'""', u'`', u'``', u"'", u'.', u';', u'--', u'/*', u' ', u'a', u'b', u'T', u'x',
              u'%', u'\\', u'[', u']', u'?', u':p1', u'%d', u'1', u'_']
PLAIN_NAMES = [u'T', u'c1', u'col', u'Name', u'x_y', u'a1']
TRICKY_NAMES = [u'a b', u'q"x', u'p%s', u'%(p1)s', u'x`y', u"o'k", u'dot.ted', u'semi;--', u'100%', u'a""b', u'[br]', u'back\\slash',
                u'/*c*/', u'?', u':p1', u'%', u'"', u'`', u'sel ect', u'\u00e9t\u00e9']


def _ok_name(s):
    return 0 < len(s) <= 20 and s == s.strip() and not s.lower().startswith('sqlite_')


name_st = st.one_of(st.sampled_from(PLAIN_NAMES), st.sampled_from(TRICKY_NAMES), st.sampled_from(TRICKY_NAMES),
                    st.text(st.sampled_from(NAME_CHARS), min_size=1, max_size=8),
                    st.lists(st.sampled_from(NAME_FRAGS), min_size=1, max_size=4).map(u''.join)).filter(_ok_name)


@st.composite
def names_case(draw):
    names = {}
    used = set(['b', 'id', 'a'])
    keys = list(C.NAME_KEYS) + (['schema'] if draw(st.integers(0, 3)) == 0 else [])
    for k in keys:
        base = draw(name_st)
        n = base
        i = 0
        while n.lower() in used:
            i += 1
            n = base[:18] + str(i)
        used.add(n.lower())
        names[k] = n
    data = {'s': draw(text_st), 'n': draw(st.integers(-5, 50)), 's2': draw(text_st)}
    return {'kind': 'names', 'names': names, 'data': data}


# ---------------------------------------------------------------------------------------------------------------------
# SQL AST specs
# ---------------------------------------------------------------------------------------------------------------------
@st.composite
def ast_case(draw):
    nvals = draw(st.integers(1, 4))
    values = []
    for k in range(nvals):
        kind = draw(st.sampled_from(['int', 'str', 'str', 'tuple']))
        if kind == 'int':
            values.append(1000 + 17 * k)
        elif kind == 'str':
            values.append(u'k%d' % k + draw(st.sampled_from([u'', u'%', u'%s', u"'", u'\\', u'_!', u'%(p1)s', u'\u00e9'])))
        else:
            values.append((2000 + 10 * k, u'k%dt' % k + draw(st.sampled_from([u'', u'%s', u"'"]))))
    if draw(st.integers(0, 2)) == 0:
        idents = draw(st.lists(name_st, min_size=7, max_size=7, unique_by=lambda s: s.lower()))
    else:
        idents = [u'T', u'U', u't', u'u', u'c1', u'c2', u'j']
    names = {'table': idents[0], 'table2': idents[1], 'alias': idents[2], 'alias2': idents[3], 'cols': idents[4:]}
    col = st.sampled_from(names['cols']).map(lambda c: ['C', c])

    def param():
        k = draw(st.integers(0, nvals - 1))
        if isinstance(values[k], tuple):
            return ['PI', k, draw(st.integers(0, 1))]
        return ['P', k]

    inline = st.one_of(st.sampled_from([u'lit', u'100%', u'%s', u'%(p1)s', u"it's", u'a\\b', u'%%', u'!', u'%', u'_', u'']),
                       text_st).map(lambda s: ['V', enc(s)])
    inline_int = st.integers(-9, 99).map(lambda n: ['V', enc(n)])

    def operand(depth=0):
        r = draw(st.integers(0, 9))
        if r <= 4:
            return param()
        if r <= 6:
            return draw(inline)
        if r == 7:
            return draw(inline_int)
        if depth >= 2:
            return param()
        head = draw(st.sampled_from(['ADD', 'CONCAT', 'REPLACE', 'COALESCE', 'UPPER', 'NEG', 'POW', 'MAX', 'SUBSTR', 'CASE']))
        if head in ('ADD', 'POW', 'CONCAT', 'COALESCE'):
            return [head, operand(depth + 1), operand(depth + 1)]
        if head in ('REPLACE', 'SUBSTR'):
            return [head, operand(depth + 1), operand(depth + 1), operand(depth + 1)]
        if head == 'MAX':
            return ['MAX', operand(depth + 1), operand(depth + 1)]
        if head == 'CASE':
            return ['CASE', [[cond(depth + 1), operand(depth + 1)]], operand(depth + 1) if draw(st.booleans()) else None]
        return [head, operand(depth + 1)]

    def cond(depth=0):
        r = draw(st.integers(0, 13 if depth < 2 else 8))
        c = draw(col)
        if r <= 2:
            return [draw(st.sampled_from(['EQ', 'EQ', 'NE', 'LT', 'GE'])), c, operand(depth)]
        if r == 3:
            return [draw(st.sampled_from(['IN', 'NOT_IN'])), c, [operand(depth) for _ in range(draw(st.integers(1, 4)))]]
        if r == 4:
            return [draw(st.sampled_from(['BETWEEN', 'NOT_BETWEEN'])), c, operand(depth), operand(depth)]
        if r == 5:
            pat = operand(depth)
            if draw(st.booleans()):
                pat = ['CONCAT', ['V', enc(u'%')], pat, ['V', enc(u'%')]]
            return [draw(st.sampled_from(['LIKE', 'NOT_LIKE'])), c, pat, ['V', enc(u'!')] if draw(st.booleans()) else None]
        if r == 6:
            return ['EQ', ['MOD', c, operand(depth)], operand(depth)]
        if r == 7:
            return ['EQ', operand(depth), c]
        if r == 8:
            path = [draw(st.one_of(st.sampled_from([u'wa', u'xb c', u'yk"q', u'zp%s']).map(lambda s: ['V', enc(s)]),
                                   st.integers(0, 3).map(lambda n: ['V', enc(n)])))
                    for _ in range(draw(st.integers(1, 3)))]
            strs = [k for k in range(nvals) if isinstance(values[k], str)]
            for _ in range(draw(st.integers(0, 2)) if strs else 0):
                path[draw(st.integers(0, len(path) - 1))] = ['P', draw(st.sampled_from(strs))]
            return ['EQ', ['JSONQ', ['C', names['cols'][-1]], path], operand(depth)]
        if r == 9:
            return [draw(st.sampled_from(['AND', 'OR'])), cond(depth + 1), cond(depth + 1)] + \
                   ([cond(depth + 1)] if draw(st.booleans()) else [])
        if r == 10:
            return ['NOT', cond(depth + 1)]
        if r == 11:
            return ['EXISTS', cond(depth + 1)]
        if r == 12:
            return ['INSEL', c, operand(depth + 1), cond(depth + 1)]
        return ['EQ', ['CASE', [[cond(depth + 1), operand(depth + 1)]], operand(depth + 1)], operand(depth)]

    kind = draw(st.sampled_from(['SELECT', 'SELECT', 'SELECT', 'INSERT', 'UPDATE', 'DELETE']))
    if kind == 'SELECT':
        exprs = [draw(col)] + [operand() for _ in range(draw(st.integers(0, 2)))]
        conds = [cond() for _ in range(draw(st.integers(1, 4)))]
        having = [cond(1)] if draw(st.integers(0, 5)) == 0 else []
        order = [operand(1)] if draw(st.integers(0, 5)) == 0 else []
        limit = draw(st.one_of(st.none(), st.integers(1, 9)))
        offset = draw(st.integers(0, 3)) if limit is not None else None
        stmt = ['SELECT', draw(st.booleans()), exprs, conds, having, order, limit, offset]
    elif kind == 'INSERT':
        n = draw(st.integers(1, 3))
        stmt = ['INSERT', names['cols'][:n], [operand(1) for _ in range(n)]]
    elif kind == 'UPDATE':
        n = draw(st.integers(1, 2))
        stmt = ['UPDATE', [[names['cols'][i], operand(1)] for i in range(n)], [cond(1) for _ in range(draw(st.integers(1, 2)))]]
    else:
        stmt = ['DELETE', [cond(1) for _ in range(draw(st.integers(1, 3)))]]
    return {'kind': 'ast', 'stmt': stmt, 'names': names, 'values': [enc(v) for v in values]}


# ---------------------------------------------------------------------------------------------------------------------
# real queries
# ---------------------------------------------------------------------------------------------------------------------
OPS = {'str': ['eq', 'ne', 'in', 'contains', 'not_contains', 'startswith', 'endswith', 'contains', 'startswith', 'eq'],
       'int': ['eq', 'ne', 'in'], 'float': ['eq', 'ne', 'in'], 'Decimal': ['eq', 'ne', 'in'], 'date': ['eq', 'ne', 'in'],
       'time': ['eq', 'in'], 'datetime': ['eq', 'ne', 'in'], 'timedelta': ['eq', 'ne', 'in'], 'bytes': ['eq', 'ne', 'in']}
PARAM_TYPES = ('str', 'int', 'float')


def _mutations(draw, needle):
    """strings around a LIKE needle: real matches and near misses that differ exactly where a wildcard or escape would act"""
    out = [needle, u'x' + needle, needle + u'y', u'x' + needle + u'y', needle + needle]
    for a, b in ((u'%', u'ab'), (u'%', u''), (u'_', u'z'), (u'!', u''), (u'!', u'!!'), (u'\\', u''), (u'\\', u'\\\\'),
                 (u"'", u"''"), (u'%', u'!%'), (u'_', u'!_')):
        if a in needle:
            out.append(needle.replace(a, b))
            out.append(u'p' + needle.replace(a, b, 1) + u's')
    out.append(needle.upper())
    out.append(needle.lower())
    out.append(needle[1:])
    out.append(needle[:-1])
    return out


@st.composite
def query_case(draw, like_focus=False):
    vars_ = {}
    by_type = {}

    def new_param(group, value):
        name = 'p%d' % (len(vars_) + 1)
        vars_[name] = value
        by_type.setdefault(group, []).append(name)
        return name

    def operand(t, value_st, group=None):
        group = group or t
        if t in PARAM_TYPES:
            r = draw(st.integers(0, 9))
            if r <= 2 and by_type.get(group):
                return {'p': draw(st.sampled_from(by_type[group]))}               # a repeated parameter
            if r <= 5 and len(vars_) < 4:
                return {'p': new_param(group, draw(value_st))}
        return {'c': enc(draw(value_st))}

    ncols = draw(st.integers(1, 4)) if not like_focus else draw(st.integers(1, 3))
    pool = ['s1', 's2', 's3'] if like_focus else C.COLUMN_ORDER
    cols = draw(st.lists(st.sampled_from(pool), min_size=ncols, max_size=ncols, unique=True))
    atoms = []
    for col in sorted(cols, key=C.COLUMN_ORDER.index):
        t = C.COLUMNS[col]
        if col == 'n2' and draw(st.booleans()):
            atoms.append({'col': col, 'op': 'mod', 'args': [operand('int', st.integers(2, 9), 'modk'), operand('int', st.integers(0, 8), 'modr')]})
            continue
        ops = OPS[t] if not like_focus else ['contains', 'not_contains', 'startswith', 'endswith']
        op = draw(st.sampled_from(ops))
        vst = TYPED[t] if col != 'n2' else small_int_st
        if op == 'in':
            args = [operand(t, vst) for _ in range(draw(st.integers(1, 3)))]
        else:
            args = [operand(t, vst)]
        atoms.append({'col': col, 'op': op, 'args': args})
    echo = []
    if not like_focus:
        for _ in range(draw(st.sampled_from([0, 0, 1, 1, 2]))):
            t = draw(st.sampled_from(['str', 'str', 'str', 'int', 'Decimal', 'date', 'datetime', 'timedelta', 'bytes', 'time']))
            echo.append(enc(draw(TYPED[t])))
    # rows for the live SQLite evaluation: built around the operands so that matches and near misses both occur
    rows = []
    for _ in range(draw(st.integers(1, 4))):
        row = {}
        for a in atoms:
            t = C.COLUMNS[a['col']]
            operands = [C.dec(vars_enc(vars_)[o['p']]) if 'p' in o else C.dec(o['c']) for o in a['args']]
            if a['op'] == 'mod':
                row[a['col']] = enc(draw(st.integers(0, 40)))
                continue
            r = draw(st.integers(0, 9))
            if t == 'str' and a['op'] in C.LIKE_OPS:
                cands = _mutations(draw, operands[0])
                v = draw(st.sampled_from(cands)) if r <= 7 else draw(text_st)
            elif r <= 5:
                v = draw(st.sampled_from(operands))
            else:
                v = draw(TYPED[t] if a['col'] != 'n2' else st.integers(0, 40))
            if a['col'] == 'n2' and (not isinstance(v, int) or v < 0):
                v = 0
            row[a['col']] = enc(v)
        rows.append(row)
    return {'kind': 'query', 'atoms': atoms, 'echo': echo, 'vars': vars_enc(vars_), 'rows': rows}


def vars_enc(vars_):
    return {k: enc(v) for k, v in vars_.items()}


# ---------------------------------------------------------------------------------------------------------------------
# histories: several statements of one shape on one Database (statement caches), keyword arguments in varying order
# ---------------------------------------------------------------------------------------------------------------------
HIST_TEXT = st.one_of(st.sampled_from([u'a', u'b', u'first', u"O'Brien", u'100%_!', u'back\\slash', u'Zoë', u'%s', u'', u'x y',
                                       u'1', u'7', u"''", u'"q"', u'?', u':p1']),
                      text_st)
HIST_INT = st.one_of(st.integers(-9, 99), st.sampled_from([0, 1, 7, 2 ** 31 - 1, -2 ** 31]))
HIST_ATTRS = ['name', 'note', 'tag', 'n']


@st.composite
def history_case(draw):
    used = {a: [] for a in HIST_ATTRS}

    def value(attr, nullable):
        if attr == 'n':
            v = draw(st.one_of(HIST_INT, st.none())) if nullable else draw(HIST_INT)
        else:
            v = draw(st.one_of(HIST_TEXT, HIST_TEXT, HIST_TEXT, st.none())) if nullable else draw(HIST_TEXT)
        used[attr].append(v)
        return v

    def attrs_in_some_order(base, min_size=1):
        r = draw(st.integers(0, 9))
        if r <= 6 and base:
            cols = list(base)                            # the same column set again ...
        else:
            cols = draw(st.lists(st.sampled_from(HIST_ATTRS), min_size=min_size, max_size=4, unique=True))
        return draw(st.permutations(cols))               # ... written in some order

    base_raw = draw(st.lists(st.sampled_from(HIST_ATTRS), min_size=2, max_size=4, unique=True))
    base_p = draw(st.lists(st.sampled_from(HIST_ATTRS), min_size=2, max_size=4, unique=True))
    base_set = draw(st.lists(st.sampled_from(HIST_ATTRS), min_size=2, max_size=3, unique=True))
    base_get = draw(st.lists(st.sampled_from(HIST_ATTRS), min_size=2, max_size=3, unique=True))
    ops = []
    next_r, next_p = 1, 1
    focus = draw(st.sampled_from(['insert', 'insert', 'entity', 'mixed', 'optimistic', 'optimistic']))

    def reads():
        # attributes read before an update / delete: they become the optimistic check of the statement (NULL-valued ones
        # as IS NULL without a placeholder, the others as placeholders after them)
        if focus == 'optimistic' or draw(st.integers(0, 2)) == 0:
            return draw(st.lists(st.sampled_from(HIST_ATTRS), min_size=2, max_size=4, unique=True))
        return draw(st.lists(st.sampled_from(HIST_ATTRS), max_size=2, unique=True))

    for _ in range(draw(st.integers(2, 9))):
        if focus == 'insert':
            kind = draw(st.sampled_from(['insert'] * 5 + ['new', 'get']))
        elif focus == 'entity':
            kind = draw(st.sampled_from(['new', 'new', 'set', 'set', 'set', 'get', 'get', 'exists', 'delete']))
        elif focus == 'optimistic':
            # objects whose nullable attributes are mostly left NULL, then read-then-write sessions on them
            kind = 'new' if not ops else draw(st.sampled_from(['new', 'set', 'set', 'set', 'set', 'delete']))
        else:
            kind = draw(st.sampled_from(['insert', 'insert', 'new', 'new', 'set', 'set', 'get', 'exists', 'delete']))
        if kind == 'insert':
            cols = list(attrs_in_some_order(base_raw))
            cols.insert(draw(st.integers(0, len(cols))), 'id')
            pairs = [[c, enc(next_r if c == 'id' else value(c, True))] for c in cols]
            next_r += 1
            ops.append(['insert', draw(st.sampled_from([None, None, None, 'id'])), pairs])
        elif kind == 'new':
            cols = list(attrs_in_some_order(base_p, min_size=0))
            if focus == 'optimistic':
                cols = [c for c in cols if c in ('name', 'note') or draw(st.integers(0, 3)) == 0]     # tag / n mostly NULL
            cols.insert(draw(st.integers(0, len(cols))), 'id')
            pairs = [[c, enc(next_p if c == 'id' else value(c, c in ('tag', 'n')))] for c in cols]
            next_p += 1
            ops.append(['new', pairs])
        elif kind == 'set':
            cols = attrs_in_some_order(base_set)
            pairs = [[c, enc(value(c, c in ('tag', 'n')))] for c in cols]
            ops.append(['set', draw(st.integers(0, 5)), reads(), pairs, draw(st.sampled_from(['set', 'set', 'assign']))])
        elif kind == 'delete':
            ops.append(['delete', draw(st.integers(0, 5)), reads()])
        else:
            cols = attrs_in_some_order(base_get)
            pairs = []
            for c in cols:
                if used[c] and draw(st.integers(0, 9)) <= 7:
                    v = draw(st.sampled_from(used[c]))
                    if v is None and c not in ('tag', 'n'):
                        v = u''
                else:
                    v = value(c, c in ('tag', 'n'))
                pairs.append([c, enc(v)])
            ops.append([kind, pairs])
    return {'kind': 'history', 'ops': ops}
