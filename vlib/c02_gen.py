"""C02: dialect-sensitive query families on top of vlib/qgen.py.

qgen's tree vocabulary is extended (without editing qgen.py) by a handful of node kinds whose translation is dialect specific;
`install()` wraps qgen.render / qgen.ev / qgen.cond so that the new kinds render and are evaluated by the SAME reference
evaluator (plain Python semantics + SQL NULL), wherever they occur in a tree:

  ['bin', '//' | '%', a, b]            integer floor division / modulo (generated only with a non-negative left operand and a
                                       positive constant right operand, where Python's floor and SQL's truncation coincide)
  ['stripc', 'strip'|'lstrip'|'rstrip', e, chars]      e.strip(chars)
  ['tostr', e]                         str(e) of an int
  ['boolfn', e]                        bool(e)   (only inside a truth test of a condition)
  ['tcmp', op, [a1, a2], [b1, b2]]     (a1, a2) op (b1, b2)      tuple comparison of non-nullable operands
  ['tsubin', neg, [e1, e2], Ent, ivar, [i1, i2], cond]           (e1, e2) [not] in ((i1, i2) for ivar in Ent if cond)
                                       e1, e2 non-nullable; i1 / i2 may be the nullable column `on` (colliding small int domain)
and ['and', a, b] does not evaluate b when a is False (Python's short circuit; FALSE AND x is FALSE in SQL), which makes guarded
indexing  len(e) > k and e[i] ...  judgeable.  qgen's own kinds concat, slice, index, upper/lower/strip, startswith/endswith/
contains (with non-constant patterns) and len are generated more densely here than in qgen.queries().
Boolean attributes f / of (vlib/c02_lib.build_schema) are ordinary ['attr', var, 'f'] nodes.
"""
from hypothesis import strategies as st
from vlib import qgen

_installed = []


def install():
    if _installed:
        return
    _installed.append(True)
    _render, _ev, _cond = qgen.render, qgen.ev, qgen.cond

    def render(e):
        k = e[0]
        if k == 'stripc':
            return '%s.%s(%r)' % (render(e[2]), e[1], e[3])
        if k == 'tostr':
            return 'str(%s)' % render(e[1])
        if k == 'boolfn':
            return 'bool(%s)' % render(e[1])
        if k == 'tcmp':
            return '(%s) %s (%s)' % (', '.join(render(x) for x in e[2]), e[1], ', '.join(render(x) for x in e[3]))
        if k == 'tsubin':
            src = '(%s) %s ((%s) for %s in %s' % (', '.join(render(x) for x in e[2]), 'not in' if e[1] else 'in',
                                                   ', '.join(render(x) for x in e[5]), e[4], e[3])
            if e[6] is not None:
                src += ' if %s' % render(e[6])
            return src + ')'
        return _render(e)

    def ev(e, env):
        k = e[0]
        if k == 'bin' and e[1] in ('//', '%'):
            a, b = ev(e[2], env), ev(e[3], env)
            if a is None or b is None:
                return None
            if b == 0:
                raise qgen.Unspecified()
            return a // b if e[1] == '//' else a % b
        if k == 'stripc':
            a = ev(e[2], env)
            return None if a is None else getattr(a, e[1])(e[3])
        if k == 'tostr':
            a = ev(e[1], env)
            return None if a is None else str(a)
        if k == 'boolfn':
            return bool(ev(e[1], env))
        return _ev(e, env)

    def cond(e, env):
        k = e[0]
        if k == 'tcmp':
            a = tuple(ev(x, env) for x in e[2])
            b = tuple(ev(x, env) for x in e[3])
            if any(v is None for v in a + b):
                raise qgen.Unspecified()
            return qgen.compare(e[1], a, b)
        if k == 'tsubin':
            a = tuple(ev(x, env) for x in e[2])
            if any(v is None for v in a):
                raise qgen.Unspecified()
            found = False
            for o in env['__mirror__'].all(e[3]):
                env2 = dict(env)
                env2[e[4]] = o
                if e[6] is not None and cond(e[6], env2) is not True:
                    continue
                b = tuple(ev(x, env2) for x in e[5])
                # a component of a subquery row may be None (nullable column): Python's tuple equality is then simply False,
                # so the outer row stays in for `not in` -- which is what pony promises by adding IS NOT NULL checks to the
                # subquery of a NOT IN (plain SQL would answer NULL and drop the outer row)
                if a == b:
                    found = True
            return (not found) if e[1] else found
        if k == 'and':
            # Python short-circuits (x and y is x when x is falsy) and SQL's FALSE AND <anything> is FALSE: the right operand
            # is not evaluated (it may be unspecified for this row, e.g. a guarded index)
            a = cond(e[1], env)
            if a is False:
                return False
            return qgen.k_and(a, cond(e[2], env))
        return _cond(e, env)

    qgen.render, qgen.ev, qgen.cond = render, ev, cond


install()

ASCII_STRS = [s for s in qgen.STRS if all(ord(c) < 128 for c in s)]
CHARS = ['a', 'b', ' ', 'c', 'y', 'x', '%', "'", 's', '_', 'a', 'b', 'b', 'c', 'ab', 'ba', 'a b']


# ---------------------------------------------------------------------------------------------------------------------
# domain restriction: ASCII only (every backend stores ASCII text exactly; byte vs. character length, locale dependent
# case mapping and collations of non-ASCII text are outside the stated value domain)
# ---------------------------------------------------------------------------------------------------------------------
def _ascii(s):
    return ''.join(c if ord(c) < 128 else 'e' for c in s)


def restrict_data(data):
    """-> (data with every non-ASCII string replaced, number of replaced cells)"""
    n = 0
    out = {'opts': dict(data['opts'])}
    for ent in ('A', 'B', 'C'):
        rows = []
        for r in data[ent]:
            r2 = dict(r)
            for k, v in r.items():
                if isinstance(v, str) and v != _ascii(v):
                    r2[k] = _ascii(v)
                    n += 1
            rows.append(r2)
        out[ent] = rows
    return out, n


def restrict_tree(e):
    """-> (tree with non-ASCII string constants / parameter values replaced, count)"""
    n = [0]

    def walk(x):
        if isinstance(x, list):
            if x and x[0] == 'const' and isinstance(x[1], str):
                if x[1] != _ascii(x[1]):
                    n[0] += 1
                    return ['const', _ascii(x[1])]
                return x
            if x and x[0] == 'param' and isinstance(x[2], str):
                if x[2] != _ascii(x[2]):
                    n[0] += 1
                    return ['param', x[1], _ascii(x[2])]
                return x
            return [walk(y) for y in x]
        if isinstance(x, str) and x != _ascii(x) and len(x) <= 3:
            n[0] += 1           # chars of stripc etc.
            return _ascii(x)
        return x
    return walk(e), n[0]


# ---------------------------------------------------------------------------------------------------------------------
# generators
# ---------------------------------------------------------------------------------------------------------------------
def bool_exprs(var, ent, depth=1):
    leaves = [st.sampled_from(['f', 'of', 'of']).map(lambda n: ['attr', var, n]),
              st.sampled_from(['f', 'of', 'of']).map(lambda n: ['attr', var, n]),
              st.booleans().map(lambda v: ['const', v]),
              st.booleans().map(lambda v: ['param', 'pb_%d' % v, v])]
    if ent == 'B':
        leaves.append(st.sampled_from(['f', 'of']).map(lambda n: ['nav', var, 'a', n]))
    leaf = st.one_of(*leaves)
    if depth <= 0:
        return leaf
    sub = bool_exprs(var, ent, depth - 1)
    return st.one_of(leaf, leaf,
                     st.tuples(sub, sub).map(lambda t: ['coalesce', t[0], t[1]]),
                     st.tuples(qgen.conditions(var, ent, 0, inner=True), sub, sub).map(lambda t: ['ifexp', t[0], t[1], t[2]]))


def nonnull_int(var, ent):
    return st.one_of(st.sampled_from(['n', 'id']).map(lambda n: ['attr', var, n]),
                     st.sampled_from(qgen.INTS).map(lambda v: ['const', v]),
                     st.sampled_from(qgen.INTS).map(lambda v: ['param', 'pi_%s' % str(v).replace('-', 'm'), v]))


def nonnull_str(var, ent):
    return st.one_of(st.just(['attr', var, 's']),
                     st.sampled_from([s for s in ASCII_STRS]).map(lambda v: ['const', v]),
                     st.sampled_from([s for s in ASCII_STRS]).map(lambda v: ['param', 'ps_%d' % qgen.STRS.index(v), v]))


def str_leaves(var, ent):
    names = [n for n, t in qgen.ENT_ATTRS[ent].items() if t == 'str']
    return st.one_of(st.sampled_from(names).map(lambda n: ['attr', var, n]),
                     st.sampled_from(names).map(lambda n: ['attr', var, n]),
                     st.sampled_from(ASCII_STRS).map(lambda v: ['const', v]),
                     st.sampled_from(ASCII_STRS).map(lambda v: ['param', 'ps_%d' % qgen.STRS.index(v), v]))


def _slice(t):
    e, a, b = t
    if b == -1 and a in (None, 0):
        b = -2          # (start omitted/0, stop -1) is the open finding C25-stop-minus-one
    return ['slice', e, a, b]


def _guard(e, i):
    """len(e) > k  <=>  e[i] is in range"""
    return ['cmp', '>', ['len', e], ['const', i if i >= 0 else -i - 1]]


def extra_values(var, ent, typ):
    """value expressions with a dialect-specific translation"""
    ints = qgen.value_exprs(var, ent, 'int', 1, False)
    strs = qgen.value_exprs(var, ent, 'str', 1, False)
    leaf = str_leaves(var, ent)
    divisor = st.one_of(st.sampled_from([1, 2, 3, 7]).map(lambda v: ['const', v]),
                        st.sampled_from([1, 2, 3, 7]).map(lambda v: ['param', 'pi_%d' % v, v]))
    conds = qgen.conditions(var, ent, 0, inner=True)
    if typ == 'int':
        opts = [st.tuples(st.sampled_from(['//', '%']), ints, divisor).map(lambda t: ['bin', t[0], ['abs', t[1]], t[2]]),
                st.tuples(conds, ints, ints).map(lambda t: ['ifexp', t[0], t[1], t[2]]),
                st.tuples(leaf, leaf).map(lambda t: ['len', ['bin', '+', t[0], t[1]]])]
        if ent in ('A', 'B'):
            opts.append(st.tuples(ints, bool_exprs(var, ent, 0)).map(lambda t: ['bin', '+', t[0], t[1]]))
            opts.append(st.tuples(bool_exprs(var, ent, 0), ints, ints).map(lambda t: ['ifexp', ['truth', t[0]], t[1], t[2]]))
        return st.one_of(*opts)
    if typ == 'str':
        concat = st.tuples(leaf, leaf).map(lambda t: ['bin', '+', t[0], t[1]])
        base = st.one_of(leaf, leaf, concat)
        bound_a = st.one_of(st.none(), st.integers(-3, 3), st.integers(-3, -2), st.integers(-3, -2))
        bound_b = st.one_of(st.none(), st.integers(-3, 4), st.none())
        kinds = {
            'concat': st.one_of(concat, concat, st.tuples(leaf, leaf, leaf).map(lambda t: ['bin', '+', ['bin', '+', t[0], t[1]], t[2]])),
            'stripc': st.tuples(st.sampled_from(['strip', 'strip', 'lstrip', 'rstrip']), st.one_of(base, base, strs), st.sampled_from(CHARS)).map(
                lambda t: ['stripc', t[0], t[1], t[2]]),
            'tostr': ints.map(lambda e: ['tostr', e]),
            'index': st.tuples(base, st.integers(-3, 2)).map(
                lambda t: ['ifexp', _guard(t[0], t[1]), ['index', t[0], t[1]], ['const', '']]),
            'slice': st.tuples(base, bound_a, bound_b).map(_slice),
            'method': st.tuples(st.sampled_from(['upper', 'lower', 'strip', 'lstrip', 'rstrip']), base).map(lambda t: [t[0], t[1]]),
            'ifexp': st.tuples(conds, strs, strs).map(lambda t: ['ifexp', t[0], t[1], t[2]]),
        }
        return st.sampled_from(['concat'] * 3 + ['stripc'] * 3 + ['index'] * 3 + ['slice'] * 3 + ['method', 'tostr', 'ifexp']).flatmap(
            lambda k: kinds[k])
    return bool_exprs(var, ent, 1)


def extra_conditions(var, ent):
    cmpop = st.sampled_from(['==', '!=', '<', '<=', '>', '>='])
    eqop = st.sampled_from(['==', '!='])
    ints = qgen.value_exprs(var, ent, 'int', 0, False)
    strs = qgen.value_exprs(var, ent, 'str', 0, False)
    other = {'A': 'B', 'B': 'A', 'C': 'B'}[ent]
    ovar = 'o' + var
    pair = st.tuples(nonnull_int(var, ent), nonnull_str(var, ent)).map(list)
    opair = st.tuples(nonnull_int(ovar, other), nonnull_str(ovar, other)).map(list)
    leaf = str_leaves(var, ent)
    # tuple [NOT] IN subquery whose selected columns include a NULLABLE one: (x.n, x.id) not in ((ox.n, ox.on) for ox in B ...)
    ipair = st.tuples(nonnull_int(var, ent), nonnull_int(var, ent)).map(list)
    o_nonnull = st.one_of(st.sampled_from(['n', 'n', 'id']).map(lambda n: ['attr', ovar, n]), nonnull_int(ovar, other))
    o_null = st.just(['attr', ovar, 'on'])
    onpair = st.one_of(st.tuples(o_nonnull, o_null), st.tuples(o_nonnull, o_null), st.tuples(o_null, o_nonnull),
                       st.tuples(o_null, o_null)).map(list)
    null_tsubin = st.tuples(st.sampled_from([True, True, False]), ipair, onpair,
                            st.one_of(st.none(), st.none(), qgen.conditions(ovar, other, 0, inner=True))).map(
        lambda t: ['tsubin', t[0], t[1], other, ovar, t[2], t[3]])
    atoms = [
        null_tsubin, null_tsubin,
        st.tuples(cmpop, extra_values(var, ent, 'int'), ints).map(lambda t: ['cmp', t[0], t[1], t[2]]),
        st.tuples(cmpop, extra_values(var, ent, 'str'), strs).map(lambda t: ['cmp', t[0], t[1], t[2]]),
        st.tuples(cmpop, extra_values(var, ent, 'str'), leaf).map(lambda t: ['cmp', t[0], t[1], t[2]]),
        # LIKE with a non-constant pattern: REPLACE / CONCAT chains in the dialect's own spelling
        st.tuples(st.sampled_from(['startswith', 'endswith']), leaf, leaf).map(lambda t: [t[0], t[1], t[2]]),
        st.tuples(st.booleans(), leaf, leaf).map(lambda t: ['contains', t[0], t[1], t[2]]),
        # guarded indexing:  len(e) > k and e[i] op str
        st.tuples(leaf, st.integers(-3, 2), cmpop, leaf).map(
            lambda t: ['and', _guard(t[0], t[1]), ['cmp', t[2], ['index', t[0], t[1]], t[3]]]),
        st.tuples(leaf, st.integers(-3, 2), cmpop, leaf).map(
            lambda t: ['and', _guard(t[0], t[1]), ['cmp', t[2], ['index', t[0], t[1]], t[3]]]),
        st.tuples(cmpop, pair, pair).map(lambda t: ['tcmp', t[0], t[1], t[2]]),
        st.tuples(st.booleans(), pair, opair, st.one_of(st.none(), qgen.conditions(ovar, other, 0, inner=True))).map(
            lambda t: ['tsubin', t[0], t[1], other, ovar, t[2], t[3]]),
    ]
    if ent in ('A', 'B'):
        b = bool_exprs(var, ent, 1)
        atoms += [
            b.map(lambda e: ['truth', e]),
            b.map(lambda e: ['not', ['truth', e]]),
            b.map(lambda e: ['not', ['truth', e]]),
            b.map(lambda e: ['truth', ['boolfn', e]]),
            ints.map(lambda e: ['truth', ['boolfn', e]]),     # (`not bool(<nullable>)` differs from Python on every dialect alike: not generated)
            st.tuples(eqop, b, b).map(lambda t: ['cmp', t[0], t[1], t[2]]),
            st.tuples(st.booleans(), b, st.lists(st.booleans().map(lambda v: ['const', v]), min_size=1, max_size=2)).map(
                lambda t: ['in', t[0], t[1], t[2]]),
        ]
    atom = st.integers(0, len(atoms) - 1).flatmap(lambda i: atoms[i])
    plain = qgen.conditions(var, ent, 1, inner=True)     # no collection aggregates / subqueries: those are C01's families
    return st.integers(0, 9).flatmap(lambda i: atom if i < 5 else (
        st.tuples(atom, plain).map(lambda t: ['and', t[0], t[1]]) if i < 7 else
        st.tuples(atom, plain).map(lambda t: ['or', t[0], t[1]]) if i < 9 else
        st.tuples(atom, atom).map(lambda t: ['and', t[0], t[1]])))


@st.composite
def extra_queries(draw):
    """single-loop queries whose condition and/or result list use the dialect-sensitive families"""
    ent = draw(st.sampled_from(['A', 'B', 'B', 'C']))
    var = 'x'
    shape = draw(st.sampled_from(['cond', 'cond', 'result', 'both', 'strproj', 'strproj']))
    c = None
    if shape == 'strproj':
        # (pk, string expression[, string expression]): the dialect's string functions are observed directly, row by row
        items = [['attr', var, 'id']] + [draw(extra_values(var, ent, 'str')) for i in range(draw(st.integers(1, 2)))]
        if draw(st.integers(0, 3)) == 0:
            c = draw(qgen.conditions(var, ent, 0, inner=True))
        return {'loops': [[var, ['ent', ent]]], 'cond': c, 'result': ['exprs', items]}
    if shape in ('cond', 'both'):
        c = draw(extra_conditions(var, ent))
    elif draw(st.booleans()):
        c = draw(qgen.conditions(var, ent, 1, inner=True))
    if shape == 'cond':
        result = ['obj', var]
    else:
        items = []
        for i in range(draw(st.integers(1, 2))):
            typ = draw(st.sampled_from(['int', 'str', 'bool'] if ent in ('A', 'B') else ['int', 'str']))
            items.append(draw(extra_values(var, ent, typ)))
        if draw(st.booleans()):
            items.insert(0, ['attr', var, 'id'])
        result = ['exprs', items]
    return {'loops': [[var, ['ent', ent]]], 'cond': c, 'result': result}


@st.composite
def pages(draw):
    """ORDER BY primary key + LIMIT/OFFSET in one of pony's spellings"""
    form = draw(st.sampled_from(['slice', 'slice_open', 'limit', 'limit_open', 'page', 'first_n']))
    desc = draw(st.booleans())
    off = draw(st.integers(0, 4))
    lim = draw(st.integers(0, 4))
    if form in ('slice_open', 'limit_open'):
        lim = None
    if form == 'first_n':
        off = 0
    if form == 'page':
        lim = max(lim, 1)
        off = off * lim          # page number off+1
    return {'form': form, 'desc': desc, 'offset': off, 'limit': lim}


@st.composite
def cases(draw):
    data = draw(qgen.datasets())
    kind = draw(st.sampled_from(['plain', 'plain', 'extra', 'extra', 'extra', 'paged', 'paged', 'chain']))
    if kind == 'chain':
        # the same single-loop query built by a CHAIN of Query methods: each method starts from the translator the previous left
        q = draw(qgen.queries(kinds=('obj',))) if draw(st.booleans()) else draw(extra_queries())
        if len(q['loops']) == 1 and q['result'][0] == 'obj' and q.get('cond') is not None:
            chain = draw(st.sampled_from([['order', 'filter'], ['order', 'where'], ['filter', 'order'], ['order', 'order', 'filter'],
                                          ['order', 'filter', 'order'], ['filter'], ['where', 'order']]))
            return {'data': data, 'query': q, 'page': None, 'chain': chain}
        return {'data': data, 'query': q, 'page': None}
    if kind == 'plain':
        q = draw(qgen.queries())
        page = None
    elif kind == 'extra':
        q = draw(extra_queries())
        page = None
    else:
        if draw(st.booleans()):
            q = draw(qgen.queries(kinds=('obj',)))
        else:
            q = draw(extra_queries())
        page = draw(pages()) if (len(q['loops']) == 1 and q['result'][0] == 'obj') else None
    return {'data': data, 'query': q, 'page': page}
