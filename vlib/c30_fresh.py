"""C30 helper: adapt ONE raw SQL text in a brand-new interpreter (nothing adapted before).
stdin: {"scope": ..., "step": {"parts": ..., "style": ...}}   stdout: the observation as JSON."""
import os, sys, json

HOME = os.path.dirname(os.path.dirname(os.path.abspath(__file__)))
if HOME not in sys.path:
    sys.path.insert(0, HOME)

from vlib import c30_ref as R


def main():
    data = json.loads(sys.stdin.buffer.read().decode('utf8'))
    g, l = R.build_scope(data['scope'])
    step = data['step']
    obs = R.observe_adapt(step['parts'], step['style'], g, l)
    sys.stdout.write(json.dumps(R.jsonable_obs(obs)))


if __name__ == '__main__':
    main()
