"""C30 reference model: raw-SQL `$`-substitution written from the documented behaviour, independent of Pony.

A raw SQL text is kept as the list of the pieces it was ASSEMBLED from (never re-scanned by the oracle):

    ['lit', text]          literal SQL text; contains no '$'
    ['dd']                 the two characters '$$'  (documented: becomes a single '$')
    ['expr', src, semi]    '$' + src (+ ';' when semi)  -- a Python expression of an accepted form

Documented behaviour (Pony docs "Using raw SQL", DB-API 2.0 paramstyles):
  * the $-expressions, in order of appearance, become placeholders of the provider's paramstyle
    (qmark '?', numeric ':1', named ':p1', format '%s', pyformat '%(p1)s') and their values, evaluated in the
    caller's globals/locals, are passed positionally (tuple) or by key (dict p1..pn);
  * '$$' becomes '$'; a ';' directly after an expression only terminates it and is dropped;
  * all other text reaches the database unchanged.  format/pyformat drivers run `sql % params` when (and only when)
    parameters are given, so for these two styles a literal '%' has to be doubled whenever parameters are passed.

A caller scope is described by a JSON spec and materialised by build_scope().
"""

STYLES = ['qmark', 'numeric', 'named', 'format', 'pyformat']
PERCENT_STYLES = ('format', 'pyformat')

PLACEHOLDER = {
    'qmark': lambda n: '?',
    'numeric': lambda n: ':%d' % n,
    'named': lambda n: ':p%d' % n,
    'format': lambda n: '%s',
    'pyformat': lambda n: '%%(p%d)s' % n,
}


# ---------------------------------------------------------------------------------------------------
# texts
# ---------------------------------------------------------------------------------------------------
def assemble(parts):
    out = []
    for p in parts:
        if p[0] == 'lit':
            assert '$' not in p[1], p
            out.append(p[1])
        elif p[0] == 'dd':
            out.append('$$')
        elif p[0] == 'expr':
            out.append('$' + p[1] + (';' if p[2] else ''))
        else:
            raise ValueError(p)
    return ''.join(out)


def lit_parts(text):
    """pieces for a literal text that may contain '$' (each '$' is written as '$$')"""
    out = []
    chunks = text.split('$')
    for i, c in enumerate(chunks):
        if i:
            out.append(['dd'])
        if c:
            out.append(['lit', c])
    return out


def expr_sources(parts):
    return [p[1] for p in parts if p[0] == 'expr']


def ref_adapt(parts, style):
    """-> (sql text handed to the driver, [expression sources in order])"""
    exprs = expr_sources(parts)
    double = bool(exprs) and style in PERCENT_STYLES
    ph = PLACEHOLDER[style]
    out = []
    n = 0
    for p in parts:
        if p[0] == 'lit':
            out.append(p[1].replace('%', '%%') if double else p[1])
        elif p[0] == 'dd':
            out.append('$')
        else:
            n += 1
            out.append(ph(n))
    return ''.join(out), exprs


def ref_plain(parts, marker):
    """the text the DATABASE must finally see, with the k-th expression shown as marker(k)"""
    out = []
    n = 0
    for p in parts:
        if p[0] == 'lit':
            out.append(p[1])
        elif p[0] == 'dd':
            out.append('$')
        else:
            n += 1
            out.append(marker(n))
    return ''.join(out)


def ref_params(values, style):
    if not values:
        return None
    if style in ('named', 'pyformat'):
        return dict(('p%d' % (i + 1), v) for i, v in enumerate(values))
    return tuple(values)


def same_value(a, b):
    return type(a) is type(b) and (a is b or a == b)


def compare_params(got, values, style):
    """None when `got` (what Pony's argument code evaluated to) carries exactly `values` in order"""
    if not values:
        if got is None or (isinstance(got, (tuple, list, dict)) and len(got) == 0):
            return None
        return 'no $-expressions, but arguments %r are passed' % (got,)
    exp = ref_params(values, style)
    if style in ('named', 'pyformat'):
        if not isinstance(got, dict):
            return 'expected a mapping %r, got %r' % (exp, got)
        if sorted(got) != sorted(exp):
            return 'expected keys %r, got %r' % (sorted(exp), sorted(got))
        for k in exp:
            if not same_value(got[k], exp[k]):
                return 'parameter %s: expected %r, got %r' % (k, exp[k], got[k])
        return None
    if not isinstance(got, (tuple, list)):
        return 'expected a sequence %r, got %r' % (exp, got)
    if len(got) != len(exp):
        return 'expected %d parameters %r, got %d: %r' % (len(exp), exp, len(got), got)
    for i, (g, e) in enumerate(zip(got, exp)):
        if not same_value(g, e):
            return 'parameter %d: expected %r, got %r (all expected %r, all got %r)' % (i + 1, e, g, exp, tuple(got))
    return None


def driver_text(sql, params, style):
    """what a DB-API driver of this paramstyle makes of the text: format/pyformat drivers apply `%` only when
    parameters are given"""
    if style in PERCENT_STYLES and params is not None:
        return sql % params
    return sql


# ---------------------------------------------------------------------------------------------------
# scopes
# ---------------------------------------------------------------------------------------------------
class Obj(object):
    def __init__(self, attrs):
        self.__dict__.update(attrs)

    def __repr__(self):
        return 'Obj(%s)' % ', '.join('%s=%r' % kv for kv in sorted(self.__dict__.items()))


def _mk_join():
    def join(*args, **kw):
        return '|'.join([repr(a) for a in args] + ['%s=%r' % kv for kv in sorted(kw.items())])
    return join


def _mk_first():
    def first(*args, **kw):
        return args[0]
    return first


def _mk_ret(value):
    def ret(*args, **kw):
        return value
    return ret


def build_value(spec):
    k = spec['k']
    if k in ('int', 'str'):
        return spec['v']
    if k == 'obj':
        return Obj(dict((n, build_value(v)) for n, v in spec['attrs'].items()))
    if k == 'dict':
        return dict((key, build_value(v)) for key, v in spec['items'])
    if k == 'list':
        return [build_value(v) for v in spec['items']]
    if k == 'func':
        mode = spec['mode']
        if mode == 'join':
            return _mk_join()
        if mode == 'first':
            return _mk_first()
        if mode == 'ret':
            return _mk_ret(build_value(spec['ret']))
    raise ValueError(spec)


def build_scope(scope):
    """-> (globals dict, locals dict); a name present in both is shadowed by the local, as in Python"""
    g = dict((n, build_value(v)) for n, v in scope['globals'].items())
    l = dict((n, build_value(v)) for n, v in scope['locals'].items())
    return g, l


def ref_values(parts, g, l):
    """eval(expression) in the caller's scope, in order -- the definition the property gives"""
    return [eval(src, g, l) for src in expr_sources(parts)]


# ---------------------------------------------------------------------------------------------------
# features (for the non-trivial rule and generator-health classes)
# ---------------------------------------------------------------------------------------------------
def features(parts):
    f = set()
    for p in parts:
        if p[0] == 'lit':
            t = p[1]
            if '%' in t: f.add('pct')
            if "'" in t or '"' in t: f.add('quote')
            if '\n' in t: f.add('newline')
            if any(ord(c) > 127 for c in t): f.add('nonascii')
        elif p[0] == 'dd':
            f.add('dd')
        else:
            f.add('expr')
            src = p[1]
            if p[2]: f.add('semi')
            if src.startswith('('): f.add('paren')
            if '.' in src: f.add('attr')
            if '[' in src: f.add('subscript')
            if '(' in src[1:]: f.add('call')
            if "'" in src or '"' in src: f.add('strarg')
            if '%' in src: f.add('pct_in_expr')
            if not (f & set(['paren', 'attr', 'subscript', 'call'])) and src.isidentifier(): f.add('name')
    return f


def nontrivial(parts):
    f = features(parts)
    return 'expr' in f and bool(f & set(['pct', 'dd', 'semi', 'paren', 'attr', 'subscript', 'call', 'pct_in_expr']))


# ---------------------------------------------------------------------------------------------------
# adapt-level check of one (text, style) against the reference
# ---------------------------------------------------------------------------------------------------
def clear_caches():
    from pony.orm import core, ormtypes
    core.adapted_sql_cache.clear()
    ormtypes.raw_sql_cache.clear()


def observe_adapt(parts, style, g, l):
    """what Pony does for this text: {'sql':..., 'params':...} or {'error': 'Type: text'}"""
    sql = assemble(parts)
    try:
        if style == 'raw':
            from pony.orm.ormtypes import RawSQL
            raw = RawSQL(sql, g, l)
            text = ''.join(item if isinstance(item, str) else '\x00' for item in raw.items)
            return {'sql': text, 'params': tuple(raw.values)}
        from pony.orm.core import adapt_sql
        adapted, code = adapt_sql(sql, style)
        return {'sql': adapted, 'params': eval(code, g, l)}
    except Exception as e:
        return {'error': '%s: %s' % (type(e).__name__, e)}


def judge_adapt(parts, style, g, l, obs):
    """-> None or (what, message); what in 'error' | 'text' | 'params'"""
    sql = assemble(parts)
    values = ref_values(parts, g, l)
    if style == 'raw':
        # raw_sql() fragment: literal items joined with a NUL mark per expression; values in order
        exp_text = ref_plain(parts, lambda n: '\x00')
        if 'error' in obs:
            return 'error', 'raw_sql(%r) raised %s' % (sql, obs['error'])
        if obs['sql'] != exp_text:
            return 'text', 'raw_sql(%r) keeps fragment text %r, expected %r' % (sql, obs['sql'], exp_text)
        msg = compare_params(obs['params'], values, 'qmark') if values else (
            None if len(obs['params']) == 0 else 'no $-expressions but values %r' % (obs['params'],))
        if msg:
            return 'params', 'raw_sql(%r): %s' % (sql, msg)
        return None
    if 'error' in obs:
        return 'error', 'adapt_sql(%r, %r) raised %s' % (sql, style, obs['error'])
    exp_text, _ = ref_adapt(parts, style)
    got_text, got_params = obs['sql'], obs['params']
    if values:
        if got_text != exp_text:
            return 'text', 'adapt_sql(%r, %r) gives %r, expected %r' % (sql, style, got_text, exp_text)
    else:
        # nothing to bind: what matters is the text the database finally sees
        try:
            final = driver_text(got_text, got_params, style)
        except Exception as e:
            return 'text', 'adapt_sql(%r, %r) gives %r with arguments %r which the driver cannot format: %s' % (
                sql, style, got_text, got_params, e)
        if final != exp_text:
            return 'text', 'adapt_sql(%r, %r) gives %r (arguments %r), the database would see %r, expected %r' % (
                sql, style, got_text, got_params, final, exp_text)
    msg = compare_params(got_params, values, style)
    if msg:
        return 'params', 'adapt_sql(%r, %r) -> %r: %s' % (sql, style, got_text, msg)
    return None


def jsonable_obs(obs):
    if 'error' in obs:
        return obs
    p = obs['params']
    if isinstance(p, tuple):
        p = list(p)
    return {'sql': obs['sql'], 'params': p}
