"""C03 generators: (1) bounded-exhaustive enumeration of a jump-bearing expression grammar placed in
every lambda / generator position, (2) a complete grid of value-construct templates whose operand slots
are filled with small jump-bearing expressions, (3) hypothesis strategies for larger mixed expressions.

Everything produced is *source text* of a lambda or a generator expression plus a binding mode; names
follow vlib.c03_lib (a..h varied values, x..w loop variables, f/k/o/T1.. fixed helpers).
"""
import itertools

LEAF_NAMES = ('a', 'b', 'c', 'd', 'e', 'g', 'h', 'i', 'j')
CONSTS = ('2', '0', 'None')          # truthy constant, falsy constant, None

# ---------------------------------------------------------------------------------------------------
# (1) core grammar, enumerated by size = number of leaves + number of unary operators
# ---------------------------------------------------------------------------------------------------
UNARY = ('not', 'isnone', 'notnone', 'neg', 'call')
BINARY = ('eq', 'lt', 'sub', 'in')
_cache = {}


def core_trees(n):
    """all trees of size exactly n (tuples); and/or are n-ary with no child of the same operator
    (the parser flattens those; explicit nesting is left to the random part)"""
    if n in _cache:
        return _cache[n]
    out = []
    if n == 1:
        out.append(('N',))
    else:
        for op in UNARY:
            for t in core_trees(n - 1):
                out.append((op, t))
        for i in range(1, n):
            for l in core_trees(i):
                for r in core_trees(n - i):
                    for op in BINARY:
                        out.append((op, l, r))
        for op in ('and', 'or'):
            for parts in _compositions(n, 2):
                for kids in itertools.product(*[[t for t in core_trees(k) if t[0] != op] for k in parts]):
                    out.append((op,) + kids)
        for parts in _compositions(n, 3, exact=True):
            for kids in itertools.product(*[core_trees(k) for k in parts]):
                out.append(('if',) + kids)          # (test, body, orelse)
                out.append(('chain',) + kids)       # X < Y <= Z
    _cache[n] = out
    return out


_bcache = {}


def bool_trees(n):
    """pure boolean core {name, not, n-ary and/or, conditional expression}: all trees of size exactly n
    (size = leaves + number of not operators; `not not X` is omitted)"""
    if n in _bcache:
        return _bcache[n]
    out = []
    if n == 1:
        out.append(('N',))
    else:
        for t in bool_trees(n - 1):
            if t[0] != 'not':
                out.append(('not', t))
        for op in ('and', 'or'):
            for parts in _compositions(n, 2):
                for kids in itertools.product(*[[t for t in bool_trees(k) if t[0] != op] for k in parts]):
                    out.append((op,) + kids)
        for parts in _compositions(n, 3, exact=True):
            for kids in itertools.product(*[bool_trees(k) for k in parts]):
                out.append(('if',) + kids)
    _bcache[n] = out
    return out


def _compositions(n, minparts, exact=False):
    """ordered compositions of n into >= minparts (or exactly minparts) positive parts"""
    res = []

    def rec(rem, parts):
        if rem == 0:
            if (len(parts) == minparts) if exact else (len(parts) >= minparts):
                res.append(tuple(parts))
            return
        if exact and len(parts) >= minparts:
            return
        for k in range(1, rem + 1):
            rec(rem - k, parts + [k])
    rec(n, [])
    return res


def count_leaves(t):
    if t[0] == 'N':
        return 1
    return sum(count_leaves(c) for c in t[1:])


def render(t, leaves):
    """leaves: iterator of leaf texts consumed left to right"""
    op = t[0]
    if op == 'N':
        return next(leaves)
    if op == 'not':
        return '(not %s)' % render(t[1], leaves)
    if op == 'isnone':
        return '(%s is None)' % render(t[1], leaves)
    if op == 'notnone':
        return '(%s is not None)' % render(t[1], leaves)
    if op == 'neg':
        return '(-%s)' % render(t[1], leaves)
    if op == 'call':
        return 'k(%s)' % render(t[1], leaves)
    if op == 'eq':
        return '(%s == %s)' % (render(t[1], leaves), render(t[2], leaves))
    if op == 'lt':
        return '(%s < %s)' % (render(t[1], leaves), render(t[2], leaves))
    if op == 'sub':
        return '(%s - %s)' % (render(t[1], leaves), render(t[2], leaves))
    if op == 'in':
        return '(%s in (%s, 1))' % (render(t[1], leaves), render(t[2], leaves))
    if op == 'and' or op == 'or':
        return '(' + (' %s ' % op).join(render(c, leaves) for c in t[1:]) + ')'
    if op == 'if':
        test = render(t[1], leaves)
        body = render(t[2], leaves)
        orelse = render(t[3], leaves)
        return '(%s if %s else %s)' % (body, test, orelse)
    if op == 'chain':
        return '(%s < %s <= %s)' % (render(t[1], leaves), render(t[2], leaves), render(t[3], leaves))
    raise ValueError(op)


CONTEXTS = (
    ('lam', 'lambda: %s', False),
    ('lam_args', None, False),                                    # lambda a, b: E  (LOAD_FAST names)
    ('gen_elt', '(%s for x in T1)', True),
    ('gen_cond', '(x for x in T1 if %s)', True),
    ('gen_cond_1of2', '((x, y) for x in T1 if %s for y in T2)', True),
    ('gen_cond_2of2', '((x, y) for x in T2 for y in T1 if %s)', True),
    ('gen_elt_cond', '(%s for x in T1 if x != 2)', True),
)
CONTEXT_NAMES = tuple(c[0] for c in CONTEXTS)


def place(ctxname, tree, const_pos=None, const=None):
    """source text of `tree` in the given context; leaf i is named LEAF_NAMES[i] except that in generator
    contexts the first non-constant leaf is the (innermost) loop variable; const_pos/const put one constant"""
    nleaves = count_leaves(tree)
    for name, template, is_gen in CONTEXTS:
        if name == ctxname:
            break
    else:
        raise ValueError(ctxname)
    texts = []
    names = iter(LEAF_NAMES)
    loopvar = ('y' if ctxname == 'gen_cond_2of2' else 'x') if is_gen else None
    used = []
    for i in range(nleaves):
        if i == const_pos:
            texts.append(const)
        elif loopvar is not None:
            texts.append(loopvar)
            loopvar = None
        else:
            nm = next(names)
            used.append(nm)
            texts.append(nm)
    body = render(tree, iter(texts))
    if ctxname == 'lam_args':
        return 'lambda %s: %s' % (', '.join(used), body)
    return template % body


def core_cases(max_size, const_max_size, contexts=CONTEXT_NAMES):
    """yields (ctxname, tree, const_pos, const) for every tree of size <= max_size in every context,
    and every single-constant variant of trees of size <= const_max_size"""
    for n in range(1, max_size + 1):
        for tree in core_trees(n):
            nl = count_leaves(tree)
            for ctxname in contexts:
                yield (ctxname, tree, None, None)
                if n <= const_max_size:
                    for pos in range(nl):
                        for c in CONSTS:
                            yield (ctxname, tree, pos, c)


# ---------------------------------------------------------------------------------------------------
# (1b) `is None` / `is not None` tests as operands of and/or groups (POP_JUMP_IF_NONE / POP_JUMP_IF_NOT_NONE paths)
# ---------------------------------------------------------------------------------------------------
NONE_OPERANDS = ('N', 'isnone', 'notnone')
NONE_FRAMES = ('alone', 'group_op_d', 'd_op_group', 'd_op_group_op_e', 'not_group', 'not_group_op_d')
NONE_CONTEXTS = ('gen_cond', 'lam', 'gen_cond_2of2', 'gen_elt')


def none_group_trees():
    """every and/or group of 2..4 operands, each operand a name / `name is None` / `name is not None` (at least one
    None-test, at every position), alone, negated, and as first / last / middle operand of the other operator"""
    out = []
    for op in ('and', 'or'):
        other = 'or' if op == 'and' else 'and'
        for n in (2, 3, 4):
            for kinds in itertools.product(NONE_OPERANDS, repeat=n):
                if all(k == 'N' for k in kinds):
                    continue
                group = (op,) + tuple(('N',) if k == 'N' else (k, ('N',)) for k in kinds)
                leaf = ('N',)
                out.append(group)
                out.append((other, group, leaf))
                out.append((other, leaf, group))
                out.append((other, leaf, group, leaf))
                out.append(('not', group))
                out.append((other, ('not', group), leaf))
    return out


def none_group_cases():
    for tree in none_group_trees():
        for ctxname in NONE_CONTEXTS:
            yield (ctxname, tree)


# ---------------------------------------------------------------------------------------------------
# (1c) a test applied to a jump-bearing value (conditional expression, and/or) as operand of an and/or group: the merge
#      point of the value's branches is then itself a conditional jump (POP_JUMP_IF_NONE / POP_JUMP_IF_NOT_NONE / ...)
# ---------------------------------------------------------------------------------------------------
JUMP_VALUE_CONTEXTS = ('gen_cond', 'gen_cond_2of2', 'lam', 'gen_elt')


def jump_value_test_trees():
    """X = test(J), J in {conditional expression with a name / and / or / not / 3-and / not-and test, `N and N`, `N or N`},
    test in {is None, is not None, == N, not}; X is put at every position of an and/or group of 2-3 operands (the others are
    names); the group is taken alone, negated, and as first / last operand of the other operator"""
    N = ('N',)
    tests = [N, ('and', N, N), ('or', N, N), ('not', N), ('and', N, N, N), ('and', ('not', N), N)]
    values = [('if', t, N, N) for t in tests] + [('and', N, N), ('or', N, N)]
    out = []
    for j in values:
        for x in (('isnone', j), ('notnone', j), ('eq', j, N), ('not', j)):
            for op in ('and', 'or'):
                other = 'or' if op == 'and' else 'and'
                for arr in ((x, N), (N, x), (x, N, N), (N, x, N), (N, N, x)):
                    group = (op,) + arr
                    out.append(group)
                    out.append(('not', group))
                    out.append((other, group, N))
                    out.append((other, N, group))
    return out


def jump_value_test_cases():
    for tree in jump_value_test_trees():
        for ctxname in JUMP_VALUE_CONTEXTS:
            yield (ctxname, tree)


# ---------------------------------------------------------------------------------------------------
# (2) value-construct templates x operand fillers (complete grid)
# ---------------------------------------------------------------------------------------------------
TEMPLATES = (
    # calls
    'f({0})', 'f({0}, {1})', 'f({0}, kw={1})', 'f(kw={0}, n={1})', 'f({0}, {1}, kw={2})', 'o.m({0})', 'o.m({0}, kw={1})',
    'o.r.m(kw={0})', 'k(k({0}))', 'f()', 'k(o).m({0})', 'f(*T2)', 'f(**{{"kw": {0}}})', 'f({0}, *T2)', 'f({0}, **D)',
    'len(({0}, {1}))', 'max({0}, {1}, key=str)',
    # calls evaluated while other operands are already on the stack
    '({0}, k({1}))', '({0}, f({1}, kw={2}))', '[{0}, o.m({1})]', '{{"q": {0}, "p": k({1})}}', 'f({0}, k({1}))',
    '({0}, o.r.m(kw={1}), k({2}))', 'f({0}, kw=k({1}))', '({0}, len(S), {1})',
    # attribute access / subscripts / slices
    'k({0}).p', '({0} and o).r.q', 'o.t[{0}]', 'L[{0}]', 'D[{0}]', 'T3[{0}][{1}]', '({0}, {1})[{2}]',
    'S[{0}:{1}]', 'S[{0}:]', 'S[:{0}]', 'S[:]', 'S[{0}:{1}:{2}]', 'S[::{0}]', 'S[{0}::{1}]', 'S[:{0}:{1}]', 'L[1:{0}]',
    'D[{0}, {1}]', 'o.t[{0}:{1}]', 'S[-1:{0}]', 'S[None:{0}]', 'S[{0}:None]', 'L[{0}:{1}, {2}]', 'L[..., {0}]',
    # containers
    '({0}, {1})', '({0},)', '[{0}, {1}]', '[{0}]', '[]', '()', '{{}}', '{{{0}: {1}}}', '{{"q": {0}, "p": {1}}}',
    '{{{0}, {1}}}', '({0}, 1, 2)', '[{0}, 1, "s"]', '(1, 2, 3)', '[1, 2, 3, 4]', '{{1, 2, {0}}}', '({0}, ({1}, {2}))',
    '[*T2, {0}]', '{{**D, "n": {0}}}',
    # f-strings
    "f'{{{0}}}'", "f'-{{{0}}}:{{{1}}}'", "f'{{{0}!r}}'", "f'{{{0}!s}}'", "f'{{{0}!a}}'", "f'{{{0}:>3}}'", "f'{{{0}!r:>5}}'",
    "f'{{{0}:{{{1}}}}}'", "f'{{{0}}}{{{1}}}{{{2}}}'", "f'{{{{{{{0}}}}}}}'", "f'{{{0}:3}}={{{1}!r:^7}}'", "f'plain'", "f'{{{0}:>{{{1}}}.{{{2}}}}}'",
    # arithmetic
    '{0} + {1}', '{0} - {1}', '{0} * {1}', '{0} / {1}', '{0} // {1}', '{0} % {1}', '{0} ** {1}', '{0} << {1}', '{0} >> {1}',
    '{0} & {1}', '{0} | {1}', '{0} ^ {1}', '{0} @ {1}', '-{0}', '+{0}', '~{0}', 'not {0}', '{0} - {1} - {2}', '{0} - ({1} - {2})',
    '{0} * 2 + {1}', '2 ** -{0}', '-{0} ** 2', '(-1) ** {0}', '1 - {0}', '"s" * {0}', '"%s-%s" % ({0}, {1})',
    # comparisons
    '{0} == {1}', '{0} != {1}', '{0} < {1}', '{0} <= {1}', '{0} > {1}', '{0} >= {1}', '{0} is {1}', '{0} is not {1}',
    '{0} in ({1}, 2)', '{0} not in ({1}, 2)', '{0} in L', '{0} in [{1}, {2}]', '{0} in S', '{0} is None', '{0} is not None',
    '{0} == None', 'None is {0}', '{0} < {1} < {2}', '{0} == {1} != {2}', '{0} < {1} <= 2', '{0} is {1} is {2}',
    '{0} in ({1},) in (({2},), 1)', '0 < {0} < 2',
    # conditional / boolean combinations around value positions
    '{0} if {1} else {2}', '({0} if {1} else {2}, {1})', 'k({0} if {1} else {2})', 'f({0} and {1}, kw={2} or 1)',
    '({0} and {1}, {2})', '[{0} or {1}, not {2}]', '({0} or {1}) + ({2} and 1)', '({0} if {1} else {2}) == 1',
    '-({0} if {1} else {2})', 'not ({0} if {1} else {2})', 'k({0}) and k({1}) or k({2})',
    # nested generators / lambdas
    'tuple(u for u in T2 if {0})', 'tuple((u, {0}) for u in T2)', '{0} in (u for u in T2 if u == {1})',
    'tuple((u, v) for u in T2 for v in T1 if {0})', 'tuple(u for u in T2 if u == {0} or {1})',
    'sum(1 for u in T1 if u is not None and {0})', 'tuple(u for u in (v for v in T1 if {0}) if {1})',
    'tuple((u, v) for u, v in T3 if {0})', 'tuple(u for u in T2 if {0} for v in T2 if {1})', 'list(u for u in T2)',
    '(lambda: {0})()', '(lambda u: (u, {0}))({1})', 'k(lambda u=1: u)()', 'tuple(u for u in ({0}, {1}, {2}))',
    'tuple(u.p for u in O if u.q or {0})', 'tuple(u for u in T1 if {0} if {1})',
)

FILLERS = (
    ('name', 1, '{0}'),
    ('and', 2, '({0} and {1})'),
    ('or', 2, '({0} or {1})'),
    ('not', 1, '(not {0})'),
    ('ifexp', 3, '({1} if {0} else {2})'),
    ('eq', 2, '({0} == {1})'),
    ('const', 0, '2'),
    ('none', 0, 'None'),
    ('notand', 2, '(not {0} and {1})'),
    ('isnone', 1, '({0} is None)'),
)

TEMPLATE_CONTEXTS = ('lam', 'gen_elt', 'gen_cond', 'lam_args_closure')


def nslots(template):
    n = 0
    while '{%d}' % n in template:
        n += 1
    return n


def template_cases(nfillers1, nfillers2, nfillers3):
    """(template index, filler indexes) for every template with every combination of the first
    nfillersK fillers when the template has K slots"""
    lim = {0: 1, 1: nfillers1, 2: nfillers2, 3: nfillers3}
    for ti, tmpl in enumerate(TEMPLATES):
        k = nslots(tmpl)
        for combo in itertools.product(range(lim[k]), repeat=k):
            for ctxname in TEMPLATE_CONTEXTS:
                yield (ti, combo, ctxname)


def place_template(ti, combo, ctxname):
    """returns (src, mode)"""
    tmpl = TEMPLATES[ti]
    names = iter(LEAF_NAMES)
    is_gen = ctxname in ('gen_elt', 'gen_cond')
    loopvar = 'x' if is_gen else None
    used = []
    slots = []
    for fi in combo:
        fname, arity, ftxt = FILLERS[fi]
        args = []
        for _ in range(arity):
            if loopvar is not None:
                args.append(loopvar)
                loopvar = None
            else:
                try:
                    nm = next(names)
                except StopIteration:
                    nm = LEAF_NAMES[-1]
                if nm not in used:
                    used.append(nm)
                args.append(nm)
        slots.append(ftxt.format(*args))
    body = tmpl.format(*slots)
    if ctxname == 'lam':
        return 'lambda: %s' % body, 'global'
    if ctxname == 'lam_args_closure':
        # first half of the names are parameters, the rest are cells of the enclosing function
        half = used[:(len(used) + 1) // 2]
        return 'lambda %s: %s' % (', '.join(half), body), 'closure'
    if ctxname == 'gen_elt':
        return '((%s) for x in T1)' % body, 'global'
    if ctxname == 'gen_cond':
        return '(x for x in T1 if (%s))' % body, 'closure'
    raise ValueError(ctxname)


# ---------------------------------------------------------------------------------------------------
# (3) hypothesis strategies: larger mixed expressions
# ---------------------------------------------------------------------------------------------------
LOOPS = ('x', 'y', 'z', 'u', 'v', 'w')
LOOPSET = frozenset(LOOPS)
KINDS = ('leaf', 'bool', 'not', 'ifexp', 'cmp', 'bool', 'call', 'isnone', 'chain', 'binop', 'unary', 'bool', 'not', 'ifexp',
         'cmp', 'call', 'attr', 'subscript', 'slice', 'container', 'fstring', 'gen', 'in_gen', 'lambda')
R_CONSTS = ('0', '1', '2', "''", "'s'", 'None', 'True', 'False', '1.5', '-1', '(1, 2)', "b'q'", '...')
R_CMPOPS = ('==', '!=', '<', '<=', '>', '>=', 'is', 'is not', 'in', 'not in')
R_BINOPS = ('+', '-', '*', '/', '//', '%', '<<', '>>', '&', '|', '^', '+', '-', '*')
R_ITERABLES = ('T1', 'T2', 'L', 'O', 'S')
R_FSPECS = ('', '!r', '!s', '!a', ':>3', '!r:>5', ':^4', ':')
R_SLICES = ('{0}:{1}', '{0}:', ':{0}', ':', '{0}:{1}:{2}', '::{0}', '{0}::{1}', ':{0}:{1}', '{0}:{1}, {2}')


class _Builder(object):
    """plain recursive text builder; every choice is one draw of a cached st.integers strategy, so that
    hypothesis spends its time on cases, not on building strategy objects (and shrinks towards index 0 =
    the simplest alternative of every list)"""

    def __init__(self, draw, ints):
        self.draw = draw
        self.ints = ints

    def integer(self, lo, hi):
        if hi <= lo:
            return lo
        key = hi - lo
        stg = self.ints.get(key)
        if stg is None:
            from hypothesis import strategies as st
            stg = self.ints[key] = st.integers(0, key)
        return lo + self.draw(stg)

    def pick(self, seq):
        return seq[self.integer(0, len(seq) - 1)]

    def flag(self):
        return self.integer(0, 1) == 1

    def split(self, budget, n):
        """n positive parts summing to max(budget, n)"""
        budget = max(budget, n)
        parts = [1] * n
        for _ in range(budget - n):
            parts[self.integer(0, n - 1)] += 1
        return parts

    def leaf(self, scope):
        if self.integer(0, 3) == 3:
            return self.pick(R_CONSTS)
        return self.pick(scope)

    def expr(self, scope, budget, loops_left):
        """scope: usable leaf names; budget: leaves still allowed; loops_left: unused loop variable names"""
        if budget <= 1:
            return self.leaf(scope)
        kind = self.pick(KINDS)
        sub = lambda b: self.expr(scope, max(1, b), loops_left)
        if kind == 'leaf':
            return self.leaf(scope)
        if kind == 'bool':
            op = self.pick(('and', 'or'))
            n = self.integer(2, min(4, budget))
            parts = []
            for b in self.split(budget, n):
                operand = sub(b)
                how = self.integer(0, 5)
                if how == 4:
                    operand = '(%s is None)' % operand
                elif how == 5:
                    operand = '(%s is not None)' % operand
                parts.append(operand)
            return '(' + (' %s ' % op).join(parts) + ')'
        if kind == 'not':
            return '(not %s)' % sub(budget - 1)
        if kind == 'ifexp':
            b1, b2, b3 = self.split(budget, 3)
            return '(%s if %s else %s)' % (sub(b1), sub(b2), sub(b3))
        if kind == 'cmp':
            b1, b2 = self.split(budget, 2)
            op = self.pick(R_CMPOPS)
            right = sub(b2)
            if op in ('in', 'not in') and self.flag():
                right = '(%s, 1, None)' % right
            return '(%s %s %s)' % (sub(b1), op, right)
        if kind == 'isnone':
            return '(%s %s None)' % (sub(budget - 1), self.pick(('is', 'is not', '==', '!=')))
        if kind == 'chain':
            b1, b2, b3 = self.split(budget, 3)
            return '(%s %s %s %s %s)' % (sub(b1), self.pick(R_CMPOPS), sub(b2), self.pick(R_CMPOPS), sub(b3))
        if kind == 'binop':
            b1, b2 = self.split(budget, 2)
            return '(%s %s %s)' % (sub(b1), self.pick(R_BINOPS), sub(b2))
        if kind == 'unary':
            return '(%s%s)' % (self.pick(('-', '+', '~')), sub(budget - 1))
        if kind == 'call':
            n = self.integer(0, min(3, budget))
            parts = self.split(budget, n) if n else []
            nkw = self.integer(0, len(parts))
            names = self.pick((('kw', 'n', 'key'), ('n', 'key', 'kw'), ('key', 'kw', 'n')))
            args = [sub(b) for b in parts]
            for i in range(nkw):
                j = len(args) - nkw + i
                args[j] = '%s=%s' % (names[i], args[j])
            fn = self.pick(('f', 'k', 'o.m', 'o.r.m', 'max', 'len', 'str'))
            if fn in ('max', 'len', 'str') and nkw:
                fn = 'f'
            return '%s(%s)' % (fn, ', '.join(args))
        if kind == 'attr':
            base = self.pick(('o', 'o.r', 'k(o)', None))
            if base is None:
                base = '(%s and o)' % sub(budget - 1)
            return '%s.%s' % (base, self.pick(('p', 'q', 'r', 't')))
        if kind == 'subscript':
            return '%s[%s]' % (self.pick(('L', 'S', 'D', 'o.t', 'T3')), sub(budget - 1))
        if kind == 'slice':
            base = self.pick(('L', 'S', 'o.t'))
            shape = self.pick(R_SLICES)
            k = nslots(shape)
            parts = self.split(budget, k) if k else []
            return '%s[%s]' % (base, shape.format(*[sub(b) for b in parts]))
        if kind == 'container':
            n = self.integer(0, min(3, budget))
            parts = self.split(budget, n) if n else []
            items = [sub(b) for b in parts]
            shape = self.pick(('tuple', 'list', 'dict', 'set'))
            if shape == 'tuple':
                return '(%s%s)' % (', '.join(items), ',' if len(items) == 1 else '')
            if shape == 'list':
                return '[%s]' % ', '.join(items)
            if shape == 'set' and items:
                return '{%s}' % ', '.join(items)
            keys = ("'q'", "'p'", '1', 'None')
            dynamic = self.flag()
            return '{%s}' % ', '.join('%s: %s' % ((it if dynamic else keys[i]), it) for i, it in enumerate(items))
        if kind == 'fstring':
            n = self.integer(1, min(3, budget))
            pieces = []
            for b in self.split(budget, n):
                pieces.append(self.pick(('', '-', ': ', '{{', '}}', '%')))
                pieces.append('{(%s)%s}' % (sub(b).replace("'", '"'), self.pick(R_FSPECS)))
            text = ''.join(pieces)
            if "'" in text or '\\' in text:
                return "'-'"
            return "f'%s'" % text
        if kind == 'gen':
            if not loops_left:
                return self.leaf(scope)
            return '%s(%s)' % (self.pick(('tuple', 'list', 'sum', 'k', 'max')), self.genexp_body(scope, budget, loops_left))
        if kind == 'in_gen':
            if not loops_left:
                return self.leaf(scope)
            b1, b2 = self.split(budget, 2)
            return '(%s in (%s))' % (sub(b1), self.genexp_body(scope, b2, loops_left))
        if kind == 'lambda':
            return '(lambda: %s)()' % sub(budget - 1)
        raise ValueError(kind)

    def genexp_body(self, scope, budget, loops_left):
        """'ELT for v in IT [if C]* [for w in IT2 [if C]*]*' (without the outer parentheses)"""
        nfor = self.pick((1, 2, 1, 3, 1, 2))
        loops_left = list(loops_left)
        clauses = []
        inner_scope = tuple(scope)
        remaining = max(budget, 2)
        for i in range(nfor):
            if not loops_left:
                break
            if len(loops_left) >= 2 and self.integer(0, 5) == 5:
                v1, v2 = loops_left.pop(0), loops_left.pop(0)
                target, it = '%s, %s' % (v1, v2), 'T3'
                bound = (v1, v2)
            else:
                v1 = loops_left.pop(0)
                target = v1
                bound = (v1,)
                outer = [n for n in inner_scope if n in LOOPSET]
                how = self.integer(0, 7)
                if i > 0 and how == 7 and outer:
                    it = '(%s, 1, None)' % outer[-1]        # iterable depends on an outer loop variable
                elif how == 6:
                    it = '(%s, 0, %s)' % (self.pick(inner_scope), self.pick(inner_scope))
                else:
                    it = self.pick(R_ITERABLES)
            inner_scope = bound + bound + inner_scope       # favour loop variables (index 0 = simplest)
            nif = self.pick((0, 1, 1, 0, 2, 1))
            conds = []
            for _ in range(nif):
                b = self.integer(1, max(1, remaining // 2))
                remaining = max(1, remaining - b)
                conds.append(self.expr(inner_scope, b, tuple(loops_left)))
            clauses.append('for %s in %s' % (target, it) + ''.join(' if %s' % c for c in conds))
        elt = self.expr(inner_scope, max(1, remaining), tuple(loops_left))
        return '%s %s' % (elt, ' '.join(clauses))


def strategies():
    """returns case(max_budget): a strategy of {'src': ..., 'mode': ...}"""
    from hypothesis import strategies as st
    ints = {}

    @st.composite
    def case(draw, max_budget):
        b = _Builder(draw, ints)
        budget = b.integer(2, max_budget)
        form = b.pick(('gen', 'lambda', 'gen', 'lambda_args', 'gen'))
        mode = b.pick(('global', 'closure', 'global'))
        nnames = b.integer(1, 4)
        scope = LEAF_NAMES[:nnames]
        if form == 'lambda':
            src = 'lambda: ' + b.expr(scope, budget, LOOPS)
        elif form == 'lambda_args':
            nparams = b.integer(1, nnames)
            src = 'lambda %s: %s' % (', '.join(scope[:nparams]), b.expr(scope, budget, LOOPS))
        else:
            src = '(' + b.genexp_body(scope, budget, LOOPS) + ')'
        return {'src': src, 'mode': mode}

    return case
