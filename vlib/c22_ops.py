"""C22 helper: the entity model, the actor operations, one deterministic concurrent run, the solo oracle.

A *case* is plain JSON:

    {"mode": "access" | "line",          # yield at cache-access lines only / at every line of the traced functions
     "setup":   [op, ...],               # run alone first (own session) -- pins translators, warms caches
     "actors":  [[[op, ...], ...], ...], # per actor: a list of db_sessions, each a list of operations
     "preempts": [[position, k], ...]}   # the schedule: at yield point `position` hand over to the k-th other ready
                                         # actor (see vlib/c22_sched.py)

Every run (concurrent or solo) uses a brand-new Database object bound to a fresh copy of the same SQLite file and
starts with Pony's process-level caches cleared from outside (utils.codeobjects is deliberately kept).
"""
import os, sys, re, json, shutil, inspect, itertools, linecache, sqlite3

from vlib import c22_sched as S

# ------------------------------------------------------------------------------------------------
# data

DATA_P = [(1, 'alpha', 1, 'red'), (2, 'bravo', 2, 'green'), (3, 'charlie', 3, 'blue'), (4, 'delta', 2, 'cyan')]
DATA_C = [(1, 1, 't'), (2, 1, 'u'), (3, 2, 't'), (4, None, 'v'), (5, 3, 'u')]
DATA_LOG = [(1, 9, 'seed'), (2, 9, 'x')]


def define_entities(db):
    from pony.orm import PrimaryKey, Required, Optional, Set

    class P(db.Entity):
        id = PrimaryKey(int)
        s = Required(str)
        a = Required(int)
        b = Required(str)
        children = Set('C')

    class C(db.Entity):
        id = PrimaryKey(int)
        parent = Optional(P)
        tag = Required(str)

    class Log(db.Entity):
        id = PrimaryKey(int)
        actor = Required(int)
        tag = Required(str)
    return P, C, Log


class QuietConnection(sqlite3.Connection):
    """scratch databases need no durability: no fsync (the machine is shared and heavily loaded)"""
    def __init__(self, *args, **kwargs):
        sqlite3.Connection.__init__(self, *args, **kwargs)
        self.execute('PRAGMA synchronous = OFF')


class Env(object):
    pass


_template = {}
_run_counter = itertools.count(1)


def _template_path(workdir):
    path = _template.get(workdir)
    if path is None or not os.path.exists(path):
        from pony.orm import Database, db_session
        os.makedirs(workdir, exist_ok=True)
        path = os.path.join(workdir, 'c22_template.sqlite')
        if os.path.exists(path):
            os.remove(path)
        db = Database()
        P, C, Log = define_entities(db)
        db.bind('sqlite', path, create_db=True, factory=QuietConnection)
        db.generate_mapping(create_tables=True)
        with db_session:
            ps = {}
            for (i, s, a, b) in DATA_P:
                ps[i] = P(id=i, s=s, a=a, b=b)
            for (i, p, tag) in DATA_C:
                C(id=i, parent=ps.get(p), tag=tag)
            for (i, actor, tag) in DATA_LOG:
                Log(id=i, actor=actor, tag=tag)
        db.disconnect()
        _template[workdir] = path
    return path


def clear_process_caches():
    """B10: every process-level cache Pony keeps, cleared from outside (NOT utils.codeobjects: it only pins code
    objects so that id(code) keys cannot be recycled)."""
    from pony.orm import core, asttranslation, decompiling, ormtypes
    from pony.utils import utils
    core.adapted_sql_cache.clear()
    core.string2ast_cache.clear()
    asttranslation.extractors_cache.clear()
    decompiling.ast_cache.clear()
    utils.lambda_args_cache.clear()
    ormtypes.raw_sql_cache.clear()


def new_env(workdir):
    from pony.orm import Database
    clear_process_caches()
    env = Env()
    env.path = os.path.join(workdir, 'c22_run%d.sqlite' % next(_run_counter))
    shutil.copyfile(_template_path(workdir), env.path)
    env.db = db = Database()
    env.P, env.C, env.Log = define_entities(db)
    db.bind('sqlite', env.path, create_db=False, timeout=0, factory=QuietConnection)
    db.generate_mapping(check_tables=False)
    provider = db.provider
    # the two locks are replaced on the provider INSTANCE (nothing in /repo is touched)
    provider.pre_transaction_lock = S.SchedLock('pre_transaction_lock')
    provider.transaction_lock = S.SchedLock('transaction_lock')
    env.shared = {}        # actor index -> (kind, object, session token) published by that actor
    env.alive = {}         # actor index -> token of its currently open db_session (absent/None: none open)
    env.must_rollback = {}
    env.foreign_src_alive = {}
    env.sched = None
    return env


def close_env(env):
    try:
        env.db.disconnect()
    except Exception:
        pass
    env.shared.clear()
    for suffix in ('', '-journal', '-wal', '-shm'):
        try:
            os.remove(env.path + suffix)
        except OSError:
            pass


# ------------------------------------------------------------------------------------------------
# the queries.  They live in module-level functions so that every thread and every run executes the SAME code
# objects (the normal situation in an application: one function, many threads).

def _q_slice_gen(env, n):
    from pony.orm import select
    P = env.P
    return select((x.id, x.s[:n]) for x in P)


def _q_slice2_gen(env, m, n):
    from pony.orm import select
    P = env.P
    return select((x.id, x.s[m:n]) for x in P)


def _q_slice_ent(env, n, v):
    from pony.orm import select
    P = env.P
    return select(x for x in P if x.s[:n] != v)


def _q_getattr_gen(env, name):
    from pony.orm import select
    P = env.P
    return select((x.id, getattr(x, name)) for x in P)


def _q_lambda(env, which, k):
    P = env.P
    if which == 0:
        return P.select(lambda x: x.a > k)
    if which == 1:
        return P.select(lambda x: x.a <= k)
    return P.select(lambda x: x.a != k and x.id > 0)


def _q_chain(env, k, n):
    from pony.orm import select
    P = env.P
    return select(x for x in P).filter(lambda x: x.a >= k).filter(lambda x: x.s[:n] != 'zz').order_by(lambda x: x.id)


def _q_where_getattr(env, name, k):
    from pony.orm import select
    P = env.P
    return select(x for x in P).where(lambda x: getattr(x, name) != k)


def _q_rawfrag(env, k):
    from pony.orm import select, raw_sql
    P = env.P
    return select(x.id for x in P if raw_sql('x.a > $k'))


def _q_log_read(env, me, tag):
    from pony.orm import select
    Log = env.Log
    return select(l.id for l in Log if l.actor == me and l.tag == tag)


def _q_children_of(env, p):
    from pony.orm import select
    C = env.C
    return select(c.id for c in C if c.parent == p)


def _q_children_of_lambda(env, p):
    C = env.C
    return C.select(lambda c: c.parent == p)


def _q_children_in(env, p, q):
    from pony.orm import select
    C = env.C
    return select(c.id for c in C if c.parent in (p, q))


def _q_children_count(env, p):
    from pony.orm import select
    C = env.C
    return select(c for c in C if c.parent == p).count()


def _entity_param_query(env, form, p, q=None):
    """the four query forms that take an entity instance as a parameter (scalar, lambda, inside a list, aggregate);
    used both with an object of the actor's own session (legitimate; warms the shared SQL cache for exactly the
    query text / parameter types a later foreign use has) and with a foreign object"""
    if form == 'scalar':
        return _rows(_q_children_of(env, p)[:])
    if form == 'lambda':
        return sorted(c.id for c in _q_children_of_lambda(env, p))
    if form == 'list':
        return _rows(_q_children_in(env, p, q if q is not None else p)[:])
    if form == 'count':
        return _q_children_count(env, p)
    raise ValueError(form)


PARAM_FORMS = ['scalar', 'lambda', 'list', 'count']


RAW_TEXTS = ['id, s from P where a > $k order by id',
             'id from P where a <= $k and id < $(k + 10) order by id',
             "id, '$$' || b from P where a = $k order by id"]
STR_SLICE = '(x.id, x.s[:n]) for x in P'
STR_GETATTR = '(x.id, getattr(x, name)) for x in P'
STR_LAMBDA = 'lambda x: x.a > k'


def _ent_rows(env, objs):
    """value rows of an entity result plus the identity-map test: an object handed out in this session IS the
    session's object for that primary key (an object of another thread's session is not)."""
    P = env.P
    rows = sorted((o.id, o.s, o.a) for o in objs)
    own = all(P[o.id] is o for o in objs)
    return {'rows': [list(r) for r in rows], 'own': own}


def _rows(result):
    return [list(r) if isinstance(r, tuple) else r for r in sorted(result)]


def _dbcount(env):
    return sum(stat.db_count for stat in env.db.local_stats.values())


def _finish_query(env, run):
    """a query operation: run it, one more yield point, then the thread's own last_sql -- reported only when this
    operation really sent a statement (a result served from the session's query cache leaves last_sql alone)"""
    before = _dbcount(env)
    res = run()
    env.sched.point('harness:last_sql')
    res['last_sql'] = env.db.last_sql if _dbcount(env) > before else None
    return res


def op_slice_gen(env, me, op):
    return _finish_query(env, lambda: {'rows': _rows(_q_slice_gen(env, op['n'])[:])})


def op_slice_str(env, me, op):
    from pony.orm import select
    q = select(STR_SLICE, {'P': env.P}, {'n': op['n']})
    return _finish_query(env, lambda: {'rows': _rows(q[:])})


def op_slice2_gen(env, me, op):
    return _finish_query(env, lambda: {'rows': _rows(_q_slice2_gen(env, op['m'], op['n'])[:])})


def op_slice_ent(env, me, op):
    return _finish_query(env, lambda: _ent_rows(env, _q_slice_ent(env, op['n'], op['v'])[:]))


def op_getattr_gen(env, me, op):
    return _finish_query(env, lambda: {'rows': _rows(_q_getattr_gen(env, op['name'])[:])})


def op_getattr_str(env, me, op):
    from pony.orm import select
    q = select(STR_GETATTR, {'P': env.P}, {'name': op['name']})
    return _finish_query(env, lambda: {'rows': _rows(q[:])})


def op_lambda(env, me, op):
    return _finish_query(env, lambda: _ent_rows(env, _q_lambda(env, op['which'], op['k'])[:]))


def op_lambda_str(env, me, op):
    q = env.P.select(STR_LAMBDA, {}, {'k': op['k']})
    return _finish_query(env, lambda: _ent_rows(env, q[:]))


def op_chain(env, me, op):
    return _finish_query(env, lambda: _ent_rows(env, _q_chain(env, op['k'], op['n'])[:]))


def op_where_getattr(env, me, op):
    k = {'s': 'bravo', 'a': 2, 'b': 'blue'}[op['name']]
    return _finish_query(env, lambda: _ent_rows(env, _q_where_getattr(env, op['name'], k)[:]))


def op_kw(env, me, op):
    return _finish_query(env, lambda: _ent_rows(env, env.P.select().filter(a=op['a'])[:]))


def op_raw(env, me, op):
    def run():
        rows = env.db.select(RAW_TEXTS[op['which']], {}, {'k': op['k']})
        return {'rows': [list(r) if isinstance(r, tuple) else r for r in rows]}
    return _finish_query(env, run)


def op_rawfrag(env, me, op):
    return _finish_query(env, lambda: {'rows': _rows(_q_rawfrag(env, op['k'])[:])})


def op_get(env, me, op):
    o = env.P[op['id']]
    return {'row': [o.id, o.s, o.a, o.b], 'own': env.P[op['id']] is o}


def op_children(env, me, op):
    p = env.P[op['id']]
    return {'rows': sorted(c.id for c in p.children)}


def op_count(env, me, op):
    from pony.orm import count
    return _finish_query(env, lambda: {'n': _q_lambda(env, op['which'], op['k']).count()})


def op_log_insert(env, me, op):
    from pony.orm import flush
    env.Log(id=(me + 1) * 100 + op['k'], actor=me, tag=op['tag'])
    flush()
    return {'done': True}


def op_db_insert(env, me, op):
    env.db.insert('Log', id=(me + 1) * 100 + 50 + op['k'], actor=me, tag=op['tag'])
    return {'done': True}


def op_log_read(env, me, op):
    return _finish_query(env, lambda: {'rows': _rows(_q_log_read(env, me, op['tag'])[:])})


def op_publish(env, me, op):
    """load (or create, unsaved) an object in this actor's session and leave it where other actors can pick it up.
    A session that created an object is rolled back at its end (see _actor_body): the new row must never become
    visible to the other actors, whose expected results are those of their solo runs."""
    what = op['what']
    if what == 'P':
        obj = env.P[op['id']]
    elif what == 'newP':
        obj = env.P(id=90 + me, s='fresh', a=9, b='none')      # not flushed: no primary key in the database yet
        env.must_rollback[me] = True
        what = 'P'
    else:
        obj = env.C[op['id']]
    env.shared[me] = (what, obj, env.alive.get(me))
    return {'published': op['what']}


def op_own_param(env, me, op):
    """an entity instance of the actor's OWN session as a query parameter: legitimate, equal to the solo run"""
    p = env.P[op['id']]
    # no last_sql observation here: a foreign object that was (wrongly, open finding) accepted earlier in this session
    # leaves the same SQL + key in the session's query cache, and the solo run has no such earlier query
    return {'r': _entity_param_query(env, op['form'], p, env.P[1])}


QUERY_PARAM_MODES = {'query_param': 'scalar', 'lambda_param': 'lambda', 'list_param': 'list', 'count_param': 'count'}
FOREIGN_MODES_P = ['query_param', 'lambda_param', 'list_param', 'count_param', 'kw_filter', 'get_kw', 'exists_kw', 'assign', 'set', 'create', 'load']
FOREIGN_MODES_C = ['coll_add', 'coll_remove', 'coll_contains', 'load']


def op_foreign(env, me, op):
    """use the object another actor published (it belongs to THAT actor's session) inside this actor's session.
    The property demands an error; 'skipped' when nothing (or nothing suitable) has been published yet."""
    item = env.shared.get(op['src'])
    if item is None or op['src'] == me:
        return {'skipped': True}
    what, obj, pub_session = item
    mode = op['mode']
    P, C = env.P, env.C
    if (what == 'P' and mode in FOREIGN_MODES_P) or (what == 'C' and mode in FOREIGN_MODES_C):
        # is the db_session in which the object was published still open in its thread right now?
        env.foreign_src_alive[me] = pub_session if (pub_session is not None and env.alive.get(op['src']) == pub_session) else None
    if what == 'P' and mode in FOREIGN_MODES_P:
        if mode in QUERY_PARAM_MODES:
            r = _entity_param_query(env, QUERY_PARAM_MODES[mode], obj, P[1] if mode == 'list_param' else None)
        elif mode == 'kw_filter':
            r = sorted(c.id for c in C.select().filter(parent=obj))
        elif mode == 'get_kw':
            r = C.get(parent=obj, tag='v') is None
        elif mode == 'exists_kw':
            r = C.exists(parent=obj)
        elif mode == 'assign':
            C[4].parent = obj
            r = 'assigned'
        elif mode == 'set':
            C[4].set(parent=obj)
            r = 'set'
        elif mode == 'create':
            C(id=900 + me, parent=obj, tag='n')
            r = 'created'
        else:
            obj.load()
            r = 'loaded'
    elif what == 'C' and mode in FOREIGN_MODES_C:
        if mode == 'coll_add':
            P[4].children.add(obj)
            r = 'added'
        elif mode == 'coll_remove':
            P[1].children.remove(obj)
            r = 'removed'
        elif mode == 'coll_contains':
            r = obj in P[4].children
        else:
            obj.load()
            r = 'loaded'
    else:
        return {'skipped': True}
    return {'accepted': r, 'mode': mode}


OPS = {
    'slice_gen': op_slice_gen, 'slice_str': op_slice_str, 'slice2_gen': op_slice2_gen, 'slice_ent': op_slice_ent,
    'getattr_gen': op_getattr_gen, 'getattr_str': op_getattr_str, 'lambda': op_lambda, 'lambda_str': op_lambda_str,
    'chain': op_chain, 'where_getattr': op_where_getattr, 'kw': op_kw, 'raw': op_raw, 'rawfrag': op_rawfrag,
    'get': op_get, 'children': op_children, 'count': op_count, 'log_insert': op_log_insert,
    'db_insert': op_db_insert, 'log_read': op_log_read, 'publish': op_publish, 'foreign': op_foreign,
    'own_param': op_own_param,
}
PINNED_OPS = ('slice_gen', 'slice_str', 'slice2_gen', 'slice_ent', 'getattr_gen', 'getattr_str', 'chain', 'where_getattr')
WRITE_OPS = ('log_insert', 'db_insert')


# ------------------------------------------------------------------------------------------------
# traced code objects

ACCESS_RE = re.compile(
    r'_translator_cache|_constructed_sql_cache|_insert_cache|adapted_sql_cache|string2ast_cache|extractors_cache'
    r'|ast_cache|lambda_args_cache|raw_sql_cache|query_results|_sql_cache_|cached_load_sql'
    r'|cached_[a-z0-9_]+_sql|_cached_max_id_sql_|fixed_param_values|func_extractors_map'
    r'|\blocal\.translators?\b')

_codes_memo = {}


def traced_functions():
    """the functions of the property's anchor (DESIGN C22) plus the other get-then-set caches the workload reaches.
    utils.get_codeobject_id is deliberately NOT traced: utils.codeobjects is never cleared (B10), so whether its
    store line runs depends on the history of the process, and yield-point numbers must not (replay happens in a
    fresh process)."""
    from pony.orm import core, asttranslation, decompiling, ormtypes
    from pony.utils import utils
    E = core.Entity
    return [
        core.Query.__init__, core.Query._get_translator, core.Query._construct_sql_and_arguments,
        core.adapt_sql, decompiling.decompile, asttranslation.create_extractors, core.string2ast,
        # extension: the remaining shared dictionaries read and then written in separate steps
        core.Query._process_lambda, core.Query._apply_kwargs, core.Query._order_by, core.Query._actual_fetch,
        utils.get_lambda_args, ormtypes.parse_raw_sql,
        core.Database.insert, E._save_created_, core.EntityMeta._construct_sql_, core.EntityMeta._construct_batchload_sql_,
    ] + translation_stack_functions()


def translation_stack_functions():
    """per-thread state of a translation IN PROGRESS (sqltranslation.local.translators, the stack every new monad binds
    itself to): two threads that both missed the translator cache translate at the same time, so hand-overs must also
    be possible while a translator is being built, not only at the cache get/set points around it"""
    from pony.orm import sqltranslation as T
    return [T.SQLTranslator.__init__, T.SQLTranslator.init, T.SQLTranslator.__enter__, T.SQLTranslator.__exit__,
            T.Monad.__init__]


def _unwrap(f):
    f = getattr(f, '__func__', f)
    while hasattr(f, '__wrapped__'):
        f = f.__wrapped__
    return f


def traced_codes(mode):
    """code object -> None (every line is a yield point) or frozenset of the lines that touch a shared cache"""
    memo = _codes_memo.get(mode)
    if memo is not None:
        return memo
    from pony.orm import core
    # Query._actual_fetch executes the SELECT and then fetches from the open cursor: an actor suspended in between
    # would keep SQLite's shared file lock for as long as the scheduler keeps it suspended, and another actor's COMMIT
    # would then fail with "database is locked" (timeout=0) where a real thread would simply wait for the reader.
    # SQLite's own lock waits are not modelled, so this function yields only at its query_results lines (before the
    # statement is sent / after everything is fetched) in both modes.
    access_only = {_unwrap(core.Query._actual_fetch).__code__}
    # the translator classes run long loops: they yield only where the translation stack is touched, in both modes
    access_only.update(_unwrap(f).__code__ for f in translation_stack_functions())
    codes = {}
    for f in traced_functions():
        code = _unwrap(f).__code__
        if mode == 'line' and code not in access_only:
            codes[code] = None
            continue
        lines, first = inspect.getsourcelines(code)
        hit = set()
        for i, text in enumerate(lines):
            if i == 0:
                continue          # the def line
            if ACCESS_RE.search(text.split('#', 1)[0]):
                hit.add(first + i)
        if hit:
            codes[code] = frozenset(hit)
    _codes_memo[mode] = codes
    return codes


def describe_traced(mode):
    out = {}
    for code, lines in traced_codes(mode).items():
        out['%s' % code.co_qualname] = 'all lines' if lines is None else sorted(lines)
    return out


# ------------------------------------------------------------------------------------------------
# running

def _where(e):
    """innermost Pony frame of the traceback: 'function: source line'"""
    tb = e.__traceback__
    best = None
    while tb is not None:
        fn = tb.tb_frame.f_code.co_filename
        if (os.sep + 'pony' + os.sep) in fn and (os.sep + 'vlib' + os.sep) not in fn:
            best = (tb.tb_frame.f_code.co_name, fn, tb.tb_lineno)
        tb = tb.tb_next
    if best is None:
        return ''
    name, fn, lineno = best
    if name == 'throw' and e.__traceback__ is not None:
        # report the caller of utils.throw
        tb = e.__traceback__
        prev = None
        while tb is not None:
            f = tb.tb_frame.f_code
            if f.co_name == 'throw' and prev is not None:
                name, fn, lineno = prev
                break
            if (os.sep + 'pony' + os.sep) in f.co_filename:
                prev = (f.co_name, f.co_filename, tb.tb_lineno)
            tb = tb.tb_next
    return '%s: %s' % (name, (linecache.getline(fn, lineno) or '').strip())


_HEX = re.compile(r'0x[0-9a-fA-F]+')


def _outcome_of_error(e):
    from pony.orm.core import TransactionError
    return {'err': type(e).__name__, 'msg': _HEX.sub('0x..', str(e))[:400], 'at': _where(e),
            'txn_family': isinstance(e, TransactionError)}


def _run_op(env, me, op):
    env.foreign_src_alive.pop(me, None)
    try:
        out = {'ok': OPS[op['op']](env, me, op)}
    except Exception as e:
        out = _outcome_of_error(e)
    if me in env.foreign_src_alive:
        # "still open" = open when the operation started AND still the same open session when it ended: a session that
        # ended while this operation was pre-empted may have been over already when Pony looked at the object
        token = env.foreign_src_alive.pop(me)
        out['src_alive'] = token is not None and env.alive.get(op['src']) == token
    return out


def _actor_body(env, sessions, out):
    from pony.orm import db_session

    def body(me):
        sched = env.sched
        for si, ops in enumerate(sessions):
            sched.point('session-begin')
            try:
                try:
                    with db_session:
                        env.alive[me] = (me, si)
                        for oi, op in enumerate(ops):
                            sched.point('op')
                            out.append([si, oi, _run_op(env, me, op)])
                        sched.point('session-end')
                        if env.must_rollback.pop(me, False):
                            from pony.orm import rollback
                            rollback()
                finally:
                    env.alive[me] = None
                out.append([si, 'end', {'ok': 'committed'}])
            except Exception as e:
                out.append([si, 'end', _outcome_of_error(e)])
        sched.point('actor-end')
    return body


def _run_setup(env, setup):
    """the setup operations run alone, in one session, as actor 0 of a one-actor scheduler (no tracing)"""
    if not setup:
        return []
    out = []
    env.sched = sched = S.Scheduler(1)
    sched.run([_actor_body(env, [setup], out)])
    if sched.deadlocked:
        raise RuntimeError('deadlock in the setup phase: %r' % sched.deadlocked)
    env.shared.clear()
    env.alive.clear()
    return out


def run_concurrent(workdir, case):
    """one deterministic interleaved run; returns (per-actor outcome lists, info)"""
    env = new_env(workdir)
    try:
        setup_out = _run_setup(env, case.get('setup') or [])
        actors = case['actors']
        outs = [[] for _ in actors]
        env.sched = sched = S.Scheduler(len(actors), case.get('preempts') or (), traced_codes(case.get('mode', 'access')))
        sched.run([_actor_body(env, sessions, outs[i]) for i, sessions in enumerate(actors)])
        provider = env.db.provider
        info = {'yield_points': sched.count, 'traced_points': sched.traced_points,
                'switches': sched.switches, 'traced_switches': sched.traced_switches,
                'forced': sched.forced, 'deadlocked': sched.deadlocked,
                'locks_left': [l.name for l in (provider.pre_transaction_lock, provider.transaction_lock) if l.locked()],
                'setup': setup_out}
        return outs, info
    finally:
        close_env(env)


_solo_memo = {}


def run_solo(workdir, setup, sessions, index, nactors):
    """the same actor script alone: same data, same setup, fresh caches, nobody else; memoised (deterministic)"""
    key = json.dumps([setup, sessions, index], sort_keys=True)
    hit = _solo_memo.get(key)
    if hit is not None:
        return hit
    env = new_env(workdir)
    try:
        _run_setup(env, setup or [])
        out = []
        # the actor keeps its index (it determines the primary keys it inserts): idle actors before it do nothing
        env.sched = sched = S.Scheduler(index + 1)
        bodies = [(lambda me: None) for _ in range(index)] + [_actor_body(env, sessions, out)]
        sched.run(bodies)
        if sched.deadlocked:
            raise RuntimeError('deadlock in a solo run: %r' % sched.deadlocked)
    finally:
        close_env(env)
    if len(_solo_memo) > 20000:
        _solo_memo.clear()
    _solo_memo[key] = out
    return out


def _strip(outcome):
    """what is compared with the solo run: value or (error type, message); not the traceback position"""
    if 'ok' in outcome:
        return ['ok', outcome['ok']]
    return ['err', outcome['err'], outcome['msg']]


def judge(workdir, case):
    """returns (mismatches, info).  mismatches: list of dicts, empty when the property held for this case."""
    outs, info = run_concurrent(workdir, case)
    actors = case['actors']
    setup = case.get('setup') or []
    mismatches = []
    for a, text in info['deadlocked']:
        mismatches.append({'kind': 'deadlock', 'actor': a, 'error': 'Deadlock', 'at': '', 'detail': text})
    for name in info['locks_left']:
        mismatches.append({'kind': 'lock_left_locked', 'actor': -1, 'error': '', 'at': '', 'detail': name})
    foreign_checked = 0
    foreign_live_qp = 0
    for i, sessions in enumerate(actors):
        solo = run_solo(workdir, setup, sessions, i, len(actors))
        got = outs[i]
        if [e[:2] for e in got] != [e[:2] for e in solo] and not info['deadlocked']:
            mismatches.append({'kind': 'trace_shape', 'actor': i, 'error': '', 'at': '',
                               'detail': 'steps %r, solo steps %r' % ([e[:2] for e in got], [e[:2] for e in solo])})
            continue
        for (si, oi, oc), (_, _, so) in zip(got, solo):
            op = sessions[si][oi] if oi != 'end' else {'op': 'session_end'}
            if op['op'] == 'foreign':
                ok = oc.get('ok')
                if isinstance(ok, dict) and ok.get('skipped'):
                    continue                   # nothing published yet: nothing to assert
                foreign_checked += 1
                if oc.get('src_alive') and op['mode'] in QUERY_PARAM_MODES:
                    foreign_live_qp += 1
                if 'err' in oc and oc.get('txn_family'):
                    continue                   # rejected with a TransactionError: what the property demands
                if 'err' in oc:
                    mismatches.append({'kind': 'foreign_wrong_error', 'actor': i, 'session': si, 'op_index': oi,
                                       'op': op, 'error': oc['err'], 'at': oc.get('at', ''), 'detail': oc['msg']})
                else:
                    mismatches.append({'kind': 'foreign_accepted', 'actor': i, 'session': si, 'op_index': oi,
                                       'op': op, 'mode': op['mode'], 'src_alive': bool(oc.get('src_alive')),
                                       'error': '', 'at': '',
                                       'detail': 'object of actor %d\'s %s session was accepted: %r'
                                                 % (op['src'], 'still open' if oc.get('src_alive') else 'finished', ok)})
                continue
            if _strip(oc) != _strip(so):
                kind = 'spurious_error' if ('err' in oc and 'ok' in so) else \
                       'missing_error' if ('ok' in oc and 'err' in so) else \
                       'different_error' if 'err' in oc else 'different_result'
                mismatches.append({'kind': kind, 'actor': i, 'session': si, 'op_index': oi, 'op': op,
                                   'error': oc.get('err', ''), 'at': oc.get('at', ''),
                                   'detail': 'interleaved: %s; alone: %s' % (json.dumps(_strip(oc), default=repr)[:600],
                                                                             json.dumps(_strip(so), default=repr)[:600])})
    info['foreign_checked'] = foreign_checked
    info['foreign_live_query_param'] = foreign_live_qp
    return mismatches, info


def message_for(case, mismatches, info):
    m = mismatches[0]
    head = {
        'spurious_error': 'actor %(actor)s op %(op)s raised %(error)s at [%(at)s] under this schedule but not when run alone',
        'missing_error': 'actor %(actor)s op %(op)s raised when run alone but not under this schedule',
        'different_error': 'actor %(actor)s op %(op)s raised a different error (%(error)s at [%(at)s]) than alone',
        'different_result': 'actor %(actor)s op %(op)s returned a different result than when run alone',
        'foreign_accepted': 'actor %(actor)s used an object of another actor\'s session (%(op)s) and no error was raised',
        'foreign_wrong_error': 'actor %(actor)s used an object of another actor\'s session (%(op)s): %(error)s at [%(at)s] is not a TransactionError',
        'deadlock': 'deadlock: actor %(actor)s',
        'lock_left_locked': 'provider lock left locked after all sessions ended',
        'trace_shape': 'actor %(actor)s executed different steps than alone',
        'setup_error': 'setup operation failed: %(error)s at [%(at)s]',
    }[m['kind']] % {'actor': m.get('actor'), 'op': json.dumps(m.get('op')), 'error': m.get('error'), 'at': m.get('at')}
    return '%s -- %s | switches (position, from, to, where): %s | %d mismatch(es)' % (
        head, m.get('detail', ''), json.dumps(info['switches']), len(mismatches))
