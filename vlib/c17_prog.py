"""C17: write programs (pure data), their interpreter on real Pony over a FILE database, the fault-free dry run that
records the committed prefix states, and the fault runs (error variants in-process, crash variant in a child process).

program = {'sessions': [{'mode': 'optimistic'|'immediate'|'serializable'|'pessimistic',
                         'ops': [[name, int, ...], ...], 'end': 'commit'|'raise'}, ...],
           'warm': bool}    # warm: the whole program already ran once on this Database object (statement caches filled),
                            # then the file was put back to the template and the pooled connection closed
Every int choice is resolved modulo the number of candidates at run time, so any list of ints is a valid program.
"""
import os, sys, json, shutil, subprocess
from vlib import faultdb

MODES = {'optimistic': {}, 'immediate': {'immediate': True}, 'serializable': {'serializable': True},
         'pessimistic': {'optimistic': False}}
OPS = ('new_person', 'new_item', 'new_tag', 'set_age', 'set_name', 'set_qty', 'move_item', 'del_person', 'del_item',
       'tag_add', 'tag_remove', 'tags_set', 'raw_insert', 'raw_update', 'db_insert', 'bulk_delete', 'query_delete',
       'flush', 'obj_flush', 'commit', 'rollback', 'read', 'new_item_f', 'set_qty_f', 'del_item_f', 'nested')
# operations that send a write statement to the database at once (candidates for "first write of the session")
DIRECT_WRITES = ('raw_insert', 'raw_update', 'db_insert', 'bulk_delete', 'new_item_f', 'set_qty_f', 'del_item_f')
# ways of running one operation inside a nested db_session of the enclosing session
NESTED_FORMS = ('with', 'with_debug_off', 'deco', 'deco_debug_off', 'deco_debug_on', 'deco_immediate', 'sql_debugging')
NESTED_INNER = ('new_item', 'raw_insert', 'set_qty', 'db_insert', 'new_person', 'read', 'flush')
NAMES = ['ann', 'bob', 'cy', 'dee']
FOLLOWUP_ID = 999999


class BodyError(Exception):
    """the exception a session body of a program raises on purpose ('end': 'raise')"""


# ---------------------------------------------------------------------------------------------- model + database
def define_entities(db):
    from pony.orm import Required, Optional, Set, PrimaryKey

    class Person(db.Entity):
        name = Required(str)
        age = Optional(int)
        tags = Set('Tag')
        items = Set('Item')

    class Tag(db.Entity):
        id = PrimaryKey(int)
        label = Required(str)
        people = Set('Person')

    class Item(db.Entity):
        owner = Optional('Person')
        qty = Required(int, default=0)

    class Note(db.Entity):
        id = PrimaryKey(int)
        text = Optional(str)
        n = Optional(int)
    return {'Person': Person, 'Tag': Tag, 'Item': Item, 'Note': Note}


def make_template(path):
    """schema from Pony's DDL text, initial rows inserted with plain sqlite3: no Pony session is involved in the setup"""
    import sqlite3
    from pony.orm import Database
    for p in (path, path + '-journal'):
        if os.path.exists(p):
            os.remove(p)
    db = Database()
    define_entities(db)
    db.bind('sqlite', ':memory:')
    db.generate_mapping(check_tables=False, create_tables=False)
    script = db.schema.generate_create_script()
    con = sqlite3.connect(path)
    con.executescript(script)
    for sql in ("""insert into "Tag" ("id", "label") values (1, 'red')""",
                """insert into "Tag" ("id", "label") values (2, 'blue')""",
                """insert into "Person" ("id", "name", "age") values (1, 'ann', 30)""",
                """insert into "Person" ("id", "name") values (2, 'bob')""",
                """insert into "Person_Tag" ("person", "tag") values (1, 1)""",
                """insert into "Person_Tag" ("person", "tag") values (2, 1)""",
                """insert into "Person_Tag" ("person", "tag") values (2, 2)""",
                """insert into "Item" ("id", "owner", "qty") values (1, 1, 1)""",
                """insert into "Item" ("id", "owner", "qty") values (2, 2, 2)""",
                """insert into "Item" ("id", "qty") values (3, 3)""",
                """insert into "Note" ("id", "text", "n") values (1, 'one', 1)""",
                """insert into "Note" ("id", "text") values (2, 'two')"""):
        con.execute(sql)
    con.commit()
    con.close()
    return path


class Env(object):
    """one Pony Database bound to a fresh copy of the template through the fault layer"""

    def __init__(self, template, path, plan=None):
        from pony.orm import Database
        for p in (path, path + '-journal'):
            if os.path.exists(p):
                os.remove(p)
        shutil.copyfile(template, path)
        self.path = path
        self.rec = faultdb.Recorder(plan)
        self.db = Database()
        self.E = define_entities(self.db)
        self.db.bind('sqlite', path, create_db=False, factory=faultdb.make_factory(self.rec), timeout=0)
        self.db.generate_mapping(check_tables=False, create_tables=False)
        self.template = template
        self.rec.start()

    def warm_up(self, program):
        """run the program once without faults (not logged), then restore the database file: models a long-lived process in
        which every statement of the program has been executed before"""
        self.rec.base = None
        try:
            try:
                Interp(self, dict(program, warm=False)).run()
            except Exception:
                pass
            self.close()
            for p in (self.path, self.path + '-journal'):
                if os.path.exists(p):
                    os.remove(p)
            shutil.copyfile(self.template, self.path)
        finally:
            self.rec.start()

    def locks_free(self):
        prov = self.db.provider
        for name in ('pre_transaction_lock', 'transaction_lock'):
            lock = getattr(prov, name, None)
            if lock is None:
                continue
            if not lock.acquire(False):
                return False
            lock.release()
        return True

    def close(self):
        from pony.orm import core
        try:
            if core.local.db_session is not None or core.local.db2cache or core.local.db_context_counter:
                # cleanup only (never judged): do not leak session state into the next run
                for cache in list(core.local.db2cache.values()):
                    try:
                        cache.rollback()
                    except Exception:
                        pass
                core.local.db2cache.clear()
                core.local.db_session = None
                core.local.db_context_counter = 0
        finally:
            try:
                self.db.disconnect()
            except Exception:
                pass


# ---------------------------------------------------------------------------------------------- interpreter
class Interp(object):
    def __init__(self, env, program, on_commit_point=None):
        self.env = env
        self.db = env.db
        self.E = env.E
        self.program = program
        self.on_commit_point = on_commit_point or (lambda label, lo, hi: None)
        self.serial = 0               # counts ops over the whole program: source of fresh explicit ids
        self.session_starts = []      # call index at which each session began
        self.passed = 0               # commit points the program has passed (the commit returned normally)
        self.pending = None           # call index at which a commit point in progress began

    def run(self):
        from pony.orm import db_session
        if self.program.get('warm'):
            self.env.warm_up(self.program)
        for si, sess in enumerate(self.program['sessions']):
            kw = MODES[sess.get('mode', 'optimistic')]
            mark = [None]
            self.session_starts.append(self.env.rec.count())
            try:
                with db_session(**kw):
                    self.load()
                    for oi, op in enumerate(sess['ops']):
                        self.serial += 1
                        self.step(si, oi, op)
                    if sess.get('end', 'commit') == 'raise':
                        raise BodyError()
                    mark[0] = self.pending = self.env.rec.count()
            except BodyError:
                continue
            self.passed += 1
            self.pending = None
            self.on_commit_point('end of session %d' % si, mark[0], self.env.rec.count())

    def load(self):
        E = self.E
        self.people = list(E['Person'].select().order_by(E['Person'].id))
        self.tags = list(E['Tag'].select().order_by(E['Tag'].id))
        self.items = list(E['Item'].select().order_by(E['Item'].id))
        self.touched = []             # objects created or assigned to since the session (re)started

    @staticmethod
    def pick(seq, c):
        return seq[c % len(seq)] if seq else None

    def step(self, si, oi, op):
        from pony.orm import commit, flush, rollback, select, delete, count
        E, db = self.E, self.db
        name = op[0]
        a, b, c = (list(op[1:]) + [0, 0, 0])[:3]
        if name == 'new_person':
            tags = [t for i, t in enumerate(self.tags[:4]) if c >> i & 1]
            kw = {'name': NAMES[a % len(NAMES)], 'tags': tags}
            if b % 3:
                kw['age'] = b
            self.people.append(E['Person'](**kw))
            self.touched.append(self.people[-1])
        elif name == 'new_item':
            owner = self.pick(self.people, a) if b % 4 else None
            self.items.append(E['Item'](owner=owner, qty=c % 7) if owner is not None else E['Item'](qty=c % 7))
            self.touched.append(self.items[-1])
        elif name == 'new_item_f':            # create and save this object at once (Entity.flush)
            it = E['Item'](qty=c % 7)
            self.items.append(it)
            it.flush()
        elif name == 'set_qty_f':
            it = self.pick(self.items, a)
            if it is not None:
                it.qty = 40 + b % 20
                it.flush()
        elif name == 'del_item_f':
            it = self.pick(self.items, a)
            if it is not None:
                self.items.remove(it)
                self.touched = [x for x in self.touched if x is not it]
                it.delete()
                it.flush()
        elif name == 'new_tag':
            self.tags.append(E['Tag'](id=100 + self.serial, label=NAMES[a % len(NAMES)]))
            self.touched.append(self.tags[-1])
        elif name == 'set_age':
            p = self.pick(self.people, a)
            if p is not None:
                p.age = None if b % 5 == 4 else 20 + b % 50
                self.touched.append(p)
        elif name == 'set_name':
            p = self.pick(self.people, a)
            if p is not None:
                p.name = NAMES[b % len(NAMES)] + str(self.serial)
                self.touched.append(p)
        elif name == 'set_qty':
            it = self.pick(self.items, a)
            if it is not None:
                it.qty = 10 + b % 20
                self.touched.append(it)
        elif name == 'move_item':
            it = self.pick(self.items, a)
            if it is not None:
                it.owner = self.pick(self.people, b) if c % 4 else None
        elif name == 'del_person':
            p = self.pick(self.people, a)
            if p is not None:
                self.people.remove(p)
                self.touched = [x for x in self.touched if x is not p]
                p.delete()
        elif name == 'del_item':
            it = self.pick(self.items, a)
            if it is not None:
                self.items.remove(it)
                self.touched = [x for x in self.touched if x is not it]
                it.delete()
        elif name == 'tag_add':
            p, t = self.pick(self.people, a), self.pick(self.tags, b)
            if p is not None and t is not None:
                p.tags.add(t)
        elif name == 'tag_remove':
            p, t = self.pick(self.people, a), self.pick(self.tags, b)
            if p is not None and t is not None:
                p.tags.remove(t)
        elif name == 'tags_set':
            p = self.pick(self.people, a)
            if p is not None:
                p.tags = [t for i, t in enumerate(self.tags[:4]) if b >> i & 1]
        elif name == 'raw_insert':
            nid, txt = 1000 + self.serial, 'raw%d' % (a % 5)
            db.execute('insert into "Note" ("id", "text") values ($nid, $txt)', {}, {'nid': nid, 'txt': txt})
        elif name == 'raw_update':
            lim = [2, 1000, 100000][a % 3]
            db.execute('update "Note" set "n" = coalesce("n", 0) + 1 where "id" <= $lim', {}, {'lim': lim})
        elif name == 'db_insert':
            db.insert('Note', id=2000 + self.serial, text='ins%d' % (a % 5), n=b % 9)
        elif name == 'bulk_delete':
            lim = [2, 1000, 2000][a % 3]
            E['Note'].select(lambda x: x.id >= lim).delete(bulk=True)
        elif name == 'query_delete':
            lim = [2, 1000, 2000][a % 3]
            delete(x for x in E['Note'] if x.id >= lim)
        elif name == 'flush':
            (flush if a % 2 else db.flush)()
        elif name == 'obj_flush':
            seq = self.touched if self.touched and a % 4 else [self.people, self.items, self.tags][a % 3]
            o = self.pick(seq, b)
            if o is not None:
                o.flush()
        elif name == 'commit':
            lo = self.pending = self.env.rec.count()
            (commit if a % 2 else db.commit)()
            self.passed += 1
            self.pending = None
            self.on_commit_point('commit() in session %d after op %d' % (si, oi), lo, self.env.rec.count())
        elif name == 'rollback':
            (rollback if a % 2 else db.rollback)()
            self.load()
        elif name == 'nested':
            self.nested(si, oi, NESTED_FORMS[a % len(NESTED_FORMS)], [NESTED_INNER[b % len(NESTED_INNER)], c, c + 1, c + 2])
        elif name == 'read':
            if a % 2:
                count(x for x in E['Person'])
            else:
                select(x for x in E['Note'] if x.id > b)[:]
        else:
            raise ValueError('unknown op %r' % (op,))


    def nested(self, si, oi, form, inner):
        """one operation of the session executed inside a nested db_session (never a commit point of the program)"""
        from pony.orm import db_session, sql_debugging

        def work():
            self.step(si, oi, inner)
        if form == 'with':
            with db_session:
                work()
        elif form == 'with_debug_off':
            with db_session(sql_debug=False):
                work()
        elif form == 'sql_debugging':
            with sql_debugging(False):
                work()
        else:
            kw = {'deco': None, 'deco_debug_off': {'sql_debug': False}, 'deco_debug_on': {'sql_debug': True, 'show_values': False},
                  'deco_immediate': {'immediate': True}}[form]
            helper = db_session(work) if kw is None else db_session(**kw)(work)
            helper()


# ---------------------------------------------------------------------------------------------- runs
class DryRun(object):
    """fault-free run: call log + committed prefix states"""

    def __init__(self, template, path, program):
        self.states = [faultdb.read_database(template)]       # S0
        self.points = []      # per commit point: {'label', 'lo', 'hi', 'commit_call': index or None}
        env = Env(template, path)
        self.error = None
        self.harness_error = None
        try:
            def on_commit_point(label, lo, hi):
                commits = [e['i'] for e in env.rec.indexed()[lo:hi] if e['kind'] == 'commit' and e['result'] == 'ok']
                self.points.append({'label': label, 'lo': lo, 'hi': hi, 'commit_calls': commits})
                self.states.append(faultdb.read_database(path))
            interp = Interp(env, program, on_commit_point)
            try:
                interp.run()
            except Exception as e:            # a program may end in a database error of its own: still a program
                from pony.orm.core import OrmError
                from pony.orm.dbapiprovider import DBException
                self.error = '%s: %s' % (type(e).__name__, str(e)[:200])
                if not isinstance(e, (OrmError, DBException)):
                    self.harness_error = e
            self.session_starts = interp.session_starts
            self.calls = [dict(e) for e in env.rec.indexed()]
            self.n = len(self.calls)
            self.final = faultdb.read_database(path)
        finally:
            env.close()
        # per call index: did the open transaction already write a row?  (non-trivial rule)
        self.dirty = []
        wrote = 0
        for e in self.calls:
            if not e['in_tx']:
                wrote = 0
            self.dirty.append(wrote > 0)
            if e['kind'] in ('execute', 'executemany') and e['in_tx'] and (e.get('rowcount') or 0) > 0 \
                    and (e['sql'] or '').lstrip().split(None, 1)[0].upper() in ('INSERT', 'UPDATE', 'DELETE', 'REPLACE'):
                wrote += 1

    def allowed(self, k, when):
        """indices of the prefix states the database may be in after a fault at call k (normally exactly one).
        A commit point counts as completed once its COMMIT call was performed; if it made no COMMIT call at all
        (nothing to commit) it counts once the program has passed it."""
        j = 0
        lo_alt = None
        for p, pt in enumerate(self.points, 1):
            cc = pt['commit_calls']
            if not cc:
                done = pt['hi'] <= k
            else:
                last = cc[-1]
                done = last < k or (last == k and when == 'after')
                first = cc[0]
                if not done and (first < k or (first == k and when == 'after')):
                    lo_alt = p      # several COMMIT calls in one commit point and the fault fell between them
            if done:
                j = p
            else:
                break
        out = [j]
        if lo_alt is not None and lo_alt not in out:
            out.append(lo_alt)
        return out


def strip_followup(state):
    out = {}
    found = False
    for t, rows in state.items():
        if t == 'Note':
            keep = [r for r in rows if r[0] != FOLLOWUP_ID]
            found = len(keep) != len(rows)
            out[t] = keep
        else:
            out[t] = rows
    return out, found


def diff_states(got, exp):
    out = []
    for t in sorted(set(got) | set(exp)):
        g, e = got.get(t), exp.get(t)
        if g != e:
            extra = [r for r in (g or []) if r not in (e or [])]
            missing = [r for r in (e or []) if r not in (g or [])]
            out.append('%s: unexpected rows %s, missing rows %s' % (t, extra[:4], missing[:4]))
    return '; '.join(out)


def error_run(template, path, program, dry, k, when, exc, stats=None):
    """inject one error at call k; returns a violation message or None"""
    plan = [{'at': k, 'when': when, 'exc': exc}]
    env = Env(template, path, plan)
    try:
        raised = None
        interp = Interp(env, program)
        try:
            interp.run()
        except Exception as e:
            raised = e
        if not env.rec.fired:
            if k < dry.n:
                return 'harness: the fault at call %d was never reached (fault-free run made %d calls)' % (k, dry.n)
        # commit points completed in THIS run: those the program passed, plus the one in progress when the error
        # surfaced if its COMMIT call had been performed (the error then came from the COMMIT itself, failing after it
        # was performed, or from a later call of the same commit point)
        j = interp.passed
        if raised is not None and interp.pending is not None:
            if any(e['kind'] == 'commit' and (e['result'] == 'ok' or e['fault'] == 'after')
                   for e in env.rec.indexed()[interp.pending:]):
                j += 1
        if j >= len(dry.states):
            return 'harness: the failed run passed %d commit points, the fault-free run only %d' % (j, len(dry.states) - 1)
        allowed = [j]
        got = faultdb.read_database(path)
        if not any(got == dry.states[j] for j in allowed):
            return _message(dry, env, k, when, exc, raised, got, allowed, 'after the failed program')
        if stats is not None:
            stats['raised' if raised is not None else 'swallowed'] = stats.get('raised' if raised is not None else 'swallowed', 0) + 1
        # a later session of the same thread must not make the failed session's writes durable
        if raised is not None and env.locks_free():
            from pony.orm import db_session
            try:
                with db_session:
                    env.db.insert('Note', id=FOLLOWUP_ID, text='followup')
                ok = True
            except Exception:
                ok = False          # C19's business (connection / lock hygiene), not judged here
            if stats is not None:
                stats['followup_ok' if ok else 'followup_failed'] = stats.get('followup_ok' if ok else 'followup_failed', 0) + 1
            if ok:
                got2, found = strip_followup(faultdb.read_database(path))
                if not found or not any(got2 == dry.states[j] for j in allowed):
                    return _message(dry, env, k, when, exc, raised, got2, allowed,
                                    'after a following session in the same thread committed one unrelated row')
        return None
    finally:
        env.close()


def _message(dry, env, k, when, exc, raised, got, allowed, where):
    call = dry.calls[k] if k < dry.n else {'kind': 'none', 'sql': None}
    exp = dry.states[allowed[0]]
    same_as = [i for i, s in enumerate(dry.states) if s == got]
    return ('%s error injected %s call %d (%s %s) of %d; program ended with %s. Database %s %s; expected committed '
            'prefix state S%s. Difference to S%d: %s. Calls around the fault: %s'
            % (exc, when, k, call['kind'], (call['sql'] or '')[:60], dry.n,
               'no error' if raised is None else '%s: %s' % (type(raised).__name__, str(raised)[:120]),
               where, ('equals prefix state S%d' % same_as[0]) if same_as else 'equals none of the %d prefix states' % len(dry.states),
               '/S'.join(map(str, allowed)), allowed[0], diff_states(got, exp) or 'none',
               ' '.join(env.rec.brief(max(0, k - 6), k + 8))))


# ---------------------------------------------------------------------------------------------- crash variant
class CrashServer(object):
    """client of vlib/c17_crash.py: one child python process per request; two more are kept starting (importing Pony)
    while the current one works.  The child runs every (program, k) of the request up to call k, abandons it there (no
    later DB-API call reaches SQLite, the connection stays as it was) and finally dies with os._exit(137)."""
    AHEAD = 2

    def __init__(self):
        self.ready = []

    def spawn(self):
        script = os.path.join(os.path.dirname(os.path.abspath(__file__)), 'c17_crash.py')
        return subprocess.Popen([sys.executable, script], stdin=subprocess.PIPE, stdout=subprocess.PIPE,
                                universal_newlines=True, bufsize=1)

    def request(self, req):
        proc = self.ready.pop(0) if self.ready else self.spawn()
        while len(self.ready) < self.AHEAD:
            self.ready.append(self.spawn())
        line = proc.stdout.readline()
        if line.strip() != 'ready':
            raise RuntimeError('crash runner did not start: %r (exit %s)' % (line, proc.poll()))
        proc.stdin.write(json.dumps(req) + '\n')
        proc.stdin.flush()
        code = proc.wait()
        proc.stdin.close()
        proc.stdout.close()
        return {'exit': code if code >= 0 else 128 - code}

    def close(self):
        procs, self.ready = self.ready, []
        for proc in procs:
            try:
                proc.stdin.write('\n')
                proc.stdin.flush()
                proc.wait()
                proc.stdin.close()
                proc.stdout.close()
            except Exception:
                proc.kill()
                proc.wait()


def crash_runs(server, template, workdir, program, dry, ks):
    for _, k, msg in crash_batch(server, template, workdir, [(program, dry, list(ks))]):
        yield k, msg


def crash_batch(server, template, workdir, jobs):
    """jobs = [(program, dry, ks)].  One child process in which one run per (job, k) was abandoned right before its call
    k is killed.  Yields (job index, k, violation message | 'inconclusive: ...' | None)."""
    d = os.path.join(workdir, 'crash')
    shutil.rmtree(d, ignore_errors=True)
    os.makedirs(d)
    try:
        res = server.request({'jobs': [{'program': p, 'ks': list(ks)} for p, _, ks in jobs], 'template': template, 'dir': d})
        status = {}
        sp = os.path.join(d, 'status.json')
        if os.path.exists(sp):
            with open(sp) as f:
                status = json.load(f)
        for j, (program, dry, ks) in enumerate(jobs):
            for k in ks:
                st = status.get('%d:%d' % (j, k))
                if res.get('exit') != 137 or st != 'frozen':
                    yield j, k, 'inconclusive: child exit %r, run %d: %r' % (res.get('exit'), k, st)
                    continue
                allowed = dry.allowed(k, 'before')
                got = faultdb.read_database(os.path.join(d, 'crash_%d_%d.sqlite' % (j, k)))
                if any(got == dry.states[i] for i in allowed):
                    yield j, k, None
                    continue
                call = dry.calls[k]
                same_as = [i for i, s in enumerate(dry.states) if s == got]
                yield j, k, ('process killed (os._exit) right before call %d (%s %s) of %d. Database read by a new connection %s; '
                             'expected committed prefix state S%s. Difference to S%d: %s. Calls before the crash: %s'
                             % (k, call['kind'], (call['sql'] or '')[:60], dry.n,
                                ('equals prefix state S%d' % same_as[0]) if same_as else 'equals none of the %d prefix states' % len(dry.states),
                                '/S'.join(map(str, allowed)), allowed[0], diff_states(got, dry.states[allowed[0]]) or 'none',
                                ' '.join('%s:%s%s' % (e['i'], e['kind'], '(%s)' % e['sql'][:40] if e['sql'] else '')
                                         for e in dry.calls[max(0, k - 8):k + 1])))
    finally:
        shutil.rmtree(d, ignore_errors=True)


# ---------------------------------------------------------------------------------------------- strategies
def programs():
    from hypothesis import strategies as st
    c = st.integers(0, 30)
    weights = dict(new_person=4, new_item=3, new_tag=2, set_age=3, set_name=2, set_qty=3, move_item=2, del_person=2,
                   del_item=2, tag_add=3, tag_remove=2, tags_set=2, raw_insert=3, raw_update=3, db_insert=3, bulk_delete=3,
                   query_delete=1, flush=2, obj_flush=2, commit=2, rollback=1, read=2,
                   new_item_f=2, set_qty_f=2, del_item_f=1, nested=4)
    names = []
    for n in OPS:
        names.extend([n] * weights[n])
    op = st.tuples(st.sampled_from(names), c, c, c).map(list)
    direct = st.tuples(st.sampled_from(DIRECT_WRITES), c, c, c).map(list)
    # a session often starts with a statement that goes to the database at once (the first write decides whether a
    # transaction is opened in time)
    ops = st.one_of(st.lists(op, min_size=1, max_size=6),
                    st.tuples(direct, st.lists(op, min_size=0, max_size=5)).map(lambda t: [t[0]] + t[1]))
    session = st.fixed_dictionaries({
        'mode': st.sampled_from(['optimistic', 'optimistic', 'optimistic', 'immediate', 'serializable', 'pessimistic']),
        'ops': ops,
        'end': st.sampled_from(['commit', 'commit', 'commit', 'raise']),
    })
    return st.fixed_dictionaries({'sessions': st.lists(session, min_size=1, max_size=3), 'warm': st.booleans()})


def grid_programs():
    """complete small grid: every kind of direct write as the FIRST write of a session, and every nested-session form in
    the middle of a session, in every session mode, with cold and with warm statement caches"""
    out = []
    for warm in (False, True):
        for mode in sorted(MODES):
            for name in DIRECT_WRITES:
                out.append({'sessions': [{'mode': mode, 'ops': [[name, 0, 1, 1], ['new_person', 1, 2, 3]], 'end': 'commit'}],
                            'warm': warm})
            for fi, form in enumerate(NESTED_FORMS):
                if mode in ('serializable', 'pessimistic'):
                    continue
                out.append({'sessions': [{'mode': mode, 'ops': [['new_item', 0, 1, 2], ['nested', fi, fi % 2, 1],
                                                               ['new_person', 1, 2, 3]], 'end': 'commit'}], 'warm': warm})
    return out
