"""C04 generators: typed grammar of *external* (query-variable free) expressions, mixed query expressions,
and caller-scope environments.  Everything is produced as Python source text (fully parenthesised while it is
built, then normalised with ast.unparse so that the text carries only the parentheses Python itself needs: the
TREE shape is what is generated).  Environments are plain JSON (tagged values), see decode_env().

Nothing in this module imports pony.
"""
import ast
import datetime
from decimal import Decimal

from hypothesis import strategies as st

# ------------------------------------------------------------------------------------------------------
# environment: names visible in the caller's scope, by type

INT_NAMES = ['a', 'b', 'c', 'n', 'm']
STR_NAMES = ['s', 't']
FLOAT_NAMES = ['u', 'v']
DEC_NAMES = ['p', 'q']
DATE_NAMES = ['d1', 'd2']
OTHER_NAMES = ['flag', 'z', 'o', 'L', 'D', 'f1', 'f2', 'call']
ALL_NAMES = INT_NAMES + STR_NAMES + FLOAT_NAMES + DEC_NAMES + DATE_NAMES + OTHER_NAMES

INT_VALUES = [0, 1, 2, 3, -1, -2, 5, 7, -7, 9, -9, 4, 10, 100, -13]
STR_VALUES = ['', 'a', 'ab', 'Ab ', "it's", 'x{y}', u'\xe9', 'a\\b', '%s', 'q"r', ' b', 'A1', '7',
              u'\u0416\u0443\u043a', u'na\xefve \u2603', u'\U0001f40d']     # ascii() != repr() != str() for the non-ASCII ones
FLOAT_VALUES = [0.0, 0.5, -1.5, 2.25, 1000.0, 0.1, -0.0, 3.0, 1e-3]
DEC_VALUES = ['1.25', '-0.5', '10', '0.001', '0', '2.50', '-7.75']
DATE_VALUES = [[2020, 1, 31], [2020, 2, 29], [2019, 12, 31], [2021, 3, 1], [2000, 1, 1], [2024, 7, 15]]


class Obj(object):
    """object with attributes and methods, reachable from the caller's scope"""
    def __init__(self, n=0, s='', f=0.0, lst=(), dct=None, sub=None):
        self.n = n
        self.s = s
        self.f = f
        self.lst = list(lst)
        self.dct = dict(dct or {})
        self.sub = sub

    def add(self, i, k=0):
        return self.n + i + 10 * k

    def name(self):
        return self.s + '!'

    def __repr__(self):
        return 'Obj(n=%r, s=%r, f=%r, lst=%r, dct=%r, sub=%r)' % (self.n, self.s, self.f, self.lst,
                                                                 sorted(self.dct.items()), self.sub)

    def __eq__(self, other):
        return isinstance(other, Obj) and repr(self) == repr(other)

    __hash__ = None


def f1(v):
    return v * 2 + 1


def f2(v, w=1, *rest, **kw):
    return v - w + 100 * len(rest) + 1000 * len(kw)


def call(fn):
    return fn()


def abs_shadow(v):
    """a caller-scope function that shadows the builtin of the same name"""
    return -1000 - v


FUNCS = {'f1': f1, 'f2': f2, 'abs_shadow': abs_shadow, 'call': call}


def decode_value(v):
    if isinstance(v, dict):
        if '$dec' in v:
            return Decimal(v['$dec'])
        if '$date' in v:
            return datetime.date(*v['$date'])
        if '$fn' in v:
            return FUNCS[v['$fn']]
        if '$obj' in v:
            d = v['$obj']
            sub = d.get('sub')
            return Obj(d.get('n', 0), d.get('s', ''), d.get('f', 0.0), d.get('lst', ()), d.get('dct'),
                       decode_value(sub) if sub is not None else None)
        return dict((k, decode_value(x)) for k, x in v.items())
    if isinstance(v, list):
        return [decode_value(x) for x in v]
    return v


def decode_env(env):
    return dict((k, decode_value(v)) for k, v in env.items())


BASE_GLOBALS = {'Decimal': Decimal, 'date': datetime.date, 'timedelta': datetime.timedelta}


class _Digits(object):
    """one big integer drawn by hypothesis, consumed as a sequence of bounded choices (mixed radix): a deterministic
    function of the draw, and ~30x cheaper than one hypothesis draw per choice"""

    def __init__(self, value):
        self.value = value

    def below(self, n):
        self.value, r = divmod(self.value, n)
        return r

    def pick(self, seq):
        return seq[self.below(len(seq))]

    def ints(self, lo, hi):
        return [self.pick(INT_VALUES) for _ in range(lo + self.below(hi - lo + 1))]


BIG = st.integers(0, 2 ** 160 - 1)


def make_environment(value):
    d = _Digits(value)
    env = {}
    for nm in INT_NAMES:
        env[nm] = d.pick(INT_VALUES)
    for nm in STR_NAMES:
        env[nm] = d.pick(STR_VALUES)
    for nm in FLOAT_NAMES:
        env[nm] = d.pick(FLOAT_VALUES)
    for nm in DEC_NAMES:
        env[nm] = {'$dec': d.pick(DEC_VALUES)}
    for nm in DATE_NAMES:
        env[nm] = {'$date': d.pick(DATE_VALUES)}
    env['flag'] = bool(d.below(2))
    env['z'] = None
    env['L'] = d.ints(3, 5)
    env['D'] = {'k': d.pick(INT_VALUES), 'j': d.pick(INT_VALUES)}
    env['o'] = {'$obj': {'n': d.pick(INT_VALUES), 's': d.pick(STR_VALUES), 'f': d.pick(FLOAT_VALUES),
                         'lst': d.ints(2, 4), 'dct': {'k': d.pick(INT_VALUES)},
                         'sub': {'$obj': {'n': d.pick(INT_VALUES), 's': 'sub'}}}}
    env['f1'] = {'$fn': 'f1'}
    env['f2'] = {'$fn': 'f2'}
    env['call'] = {'$fn': 'call'}
    if d.below(8) == 0:
        env['abs'] = {'$fn': 'abs_shadow'}     # shadows the builtin in the caller's scope
    return env


def environments():
    return BIG.map(make_environment)


def make_layout(env, value):
    """where each name of the caller's scope lives: 'g' module global, 'l' local of the calling function,
    'c' cell of an enclosing function; decoys = a DIFFERENT value of the same name in the module globals that the
    local/cell binding must shadow."""
    d = _Digits(value)
    scopes = {}
    decoys = {}
    for nm in sorted(env):
        scopes[nm] = d.pick(['g', 'l', 'c', 'l', 'c'])
    for nm in sorted(env):
        if scopes[nm] != 'g' and d.below(3) == 0:
            v = env[nm]
            if isinstance(v, bool):
                decoys[nm] = not v
            elif isinstance(v, int):
                decoys[nm] = v + 17
            elif isinstance(v, str):
                decoys[nm] = v + 'DECOY'
            elif isinstance(v, float):
                decoys[nm] = v + 64.0
            elif isinstance(v, dict) and '$dec' in v:
                decoys[nm] = {'$dec': '99.5'}
            elif isinstance(v, dict) and '$date' in v:
                decoys[nm] = {'$date': [1999, 9, 9]}
            elif isinstance(v, list):
                decoys[nm] = [55, 56, 57, 58, 59]
            elif v is None:
                decoys[nm] = 12345
    return {'scopes': scopes, 'decoys': decoys}


# ------------------------------------------------------------------------------------------------------
# expression grammar

def P(text):
    return '(' + text + ')'


STR_CONSTS = ['', 'a', 'b ', "'", '"', '{', '}', '{0}', 'x\\y', 'n\nl', '%d', u'\xe9', 'Q', "it's \"q\""]
LITERAL_PARTS = ['', 'a', ' ', '{', '}', '{{', '}x{', "'", '"', 'x\\y', 'n\nl', ':', '!r', u'\xe9', "'\""]
INT_SPECS = ['>4', '03d', 'x', '+', '<3', '^5', ',', '']
STR_SPECS = ['>4', '^7', '.2', '<3', '*^6', '']
FLOAT_SPECS = ['.2f', '8.3f', 'e', '+.1f', '>9', '']
DEC_SPECS = ['.2f', '>8', '+', '']


class Gen(object):
    """recursive typed generator; every method returns source text (compound results are NOT parenthesised:
    the caller wraps with P() where it embeds them)"""

    def __init__(self, draw, allow_lambda=True):
        self.draw = draw
        self.allow_lambda = allow_lambda     # lambdas are never external inside a query (PreTranslator.preLambda)

    # -- helpers ----------------------------------------------------------------------------------
    def pick(self, seq):
        return self.draw(st.sampled_from(seq))

    def num(self, lo, hi):
        return self.draw(st.integers(lo, hi))

    def coin(self, n=2):
        return self.draw(st.integers(0, n - 1)) == 0

    def e(self, typ, k):
        return getattr(self, 't_' + typ)(k)

    def any_type(self):
        return self.pick(['int', 'int', 'str', 'str', 'float', 'dec', 'date', 'bool', 'none'])

    def choose(self, prods, k):
        i = self.num(0, len(prods) - 1)
        return prods[i](k - 1)

    # -- int --------------------------------------------------------------------------------------
    def leaf_int(self):
        c = self.num(0, 9)
        if c <= 3:
            return self.pick(INT_NAMES)
        if c <= 5:
            return str(self.num(0, 9))
        if c == 6:
            return '-' + str(self.num(1, 9))
        if c == 7:
            return self.pick(['o.n', 'o.sub.n', "D['k']", 'L[0]', 'L[-1]', 'o.lst[1]', "o.dct['k']"])
        if c == 8:
            return self.pick(['len(s)', 'len(L)', 'abs(n)', 'f1(a)', 'o.add(b)', 'max(a, b)', 'd1.day'])
        return self.pick(INT_NAMES)

    def small_int(self):
        """shift counts / exponents / repetition counts: bounded so that no evaluation explodes"""
        c = self.num(0, 5)
        if c <= 1:
            return str(self.num(0, 3))
        if c <= 3:
            return self.pick(INT_NAMES[:3]) + ' % 4'
        if c == 4:
            return self.pick(['a', 'b', 'c'])
        return '-' + self.pick(['a', 'b', 'c'])

    def pow_base(self, k):
        """no ** or << below a ** base (keeps every mis-association of the regenerated text cheap to evaluate)"""
        c = self.num(0, 7)
        if c == 0:
            return '-' + str(self.num(1, 3))
        if c == 1:
            return '-' + self.pick(INT_NAMES)
        if c == 2:
            return '%s %s %s' % (self.leaf_int(), self.pick(['+', '-', '*']), self.leaf_int())
        if c == 3:
            return '%s if %s else %s' % (self.leaf_int(), self.leaf_bool(), self.leaf_int())
        if c == 4:
            return '-' + self.pick(['0.5', '2.0', '1.5'])
        if c == 5:
            return self.pick(FLOAT_NAMES)
        return self.leaf_int()

    def t_int(self, k):
        if k <= 0 or self.coin(6):
            return self.leaf_int()
        I = lambda d: P(self.t_int(d))
        prods = [
            lambda d: '%s %s %s' % (I(d), self.pick(['+', '-', '*']), I(d)),
            lambda d: '%s %s %s' % (I(d), self.pick(['+', '-', '*', '-']), I(d)),
            lambda d: '%s %s %s' % (I(d), self.pick(['//', '%']), I(d)),
            lambda d: '%s %s %s' % (I(d), self.pick(['&', '|', '^']), I(d)),
            lambda d: '%s %s %s' % (I(d), self.pick(['<<', '>>']), P(self.small_int())),
            lambda d: '%s ** %s' % (P(self.pow_base(d)), P(self.small_int())),
            lambda d: '%s%s' % (self.pick(['-', '-', '-', '+', '-', '+', '-', '~']), I(d)),
            lambda d: '%s if %s else %s' % (I(d), P(self.t_bool(d)), I(d)),
            lambda d: self.call_int(d),
            lambda d: '%s.%s' % (self.nonliteral(I(d)), self.pick(['real', 'numerator', 'bit_length()', 'real', '__abs__()', 'conjugate()'])),
            lambda d: self.subscript_int(d),
            lambda d: '%s %s %s' % (I(d), self.pick(['or', 'and']), I(d)),
            lambda d: self.lambda_call('int', d),
            lambda d: self.int_from_other(d),
        ]
        return self.choose(prods, k)

    def nonliteral(self, text):
        # (1).real is regenerated as the loud '1.real'; keep that rare instead of wasting a tenth of the cases on it
        if text.strip('()').isdigit() and not self.coin(8):
            return P(self.pick(INT_NAMES))
        return text

    def call_int(self, d):
        I = lambda: self.t_int(d)
        c = self.num(0, 9)
        if c == 0: return 'abs(%s)' % I()
        if c == 1: return '%s(%s, %s)' % (self.pick(['max', 'min']), I(), I())
        if c == 2: return 'f1(%s)' % I()
        if c == 3: return 'f2(%s, w=%s)' % (I(), I())
        if c == 4: return 'f2(%s, *L, **D)' % I()
        if c == 5: return 'o.add(%s, k=%s)' % (I(), I())
        if c == 6: return 'o.add(%s)' % I()
        if c == 7: return 'divmod(%s, %s)[%d]' % (I(), I(), self.num(0, 1))
        if c == 8: return 'sum([%s, %s])' % (I(), I())
        return 'int(%s)' % self.t_float(d)

    def subscript_int(self, d):
        I = lambda: self.t_int(d)
        c = self.num(0, 7)
        if c == 0: return '(L + L)[%s]' % self.small_int()
        if c == 1: return '(%s, %s)[%s]' % (I(), I(), self.pick(['0', '1', '-1', 'flag']))
        if c == 2: return '[%s, %s][%s]' % (I(), I(), P(self.t_bool(d)))
        if c == 3: return "{'k': %s, 'j': %s}[%s]" % (I(), I(), self.pick(["'k'", "'j'", "'k' if flag else 'j'"]))
        if c == 4: return 'L[%s]' % I()
        if c == 5: return '(o.lst + L)[%s:][0]' % self.small_int()
        if c == 6: return '(D or o.dct)[%s]' % self.pick(["'k'", "'j'"])
        return '(L if %s else o.lst)[%s]' % (P(self.t_bool(d)), self.pick(['0', '1', '-1']))

    def int_from_other(self, d):
        c = self.num(0, 6)
        if c == 0: return 'len(%s)' % self.t_str(d)
        if c == 1: return '%s.day' % P(self.t_date(d))
        if c == 2: return '(%s - %s).days' % (P(self.t_date(d)), P(self.t_date(d)))
        if c == 3: return '%s.find(%s)' % (P(self.t_str(d)), self.t_str(d))
        if c == 4: return '%s + %s' % (P(self.t_bool(d)), P(self.t_int(d)))
        if c == 5: return 'round(%s)' % self.t_float(d)
        return '%s.count(%s)' % (P(self.t_str(d)), self.t_str(0))

    def lambda_call(self, typ, d):
        body = self.e(typ, d)
        if not self.allow_lambda:
            return body
        c = self.num(0, 9)
        if c <= 1: return '(lambda: %s)()' % body
        if c == 2: return '(lambda y=%s: y)()' % body
        if c == 3: return '(lambda y: y)(%s)' % body
        if c == 4: return '(lambda *, k=%s: k)()' % body
        if c == 5: return '(lambda y, /, w=0: y)(%s)' % body
        # lambdas in argument position: no parentheses needed around them
        if c == 6: return 'call(lambda: %s)' % body
        if c == 7: return 'call(lambda y=%s, *r, **kw: y)' % body
        if c == 8: return 'call(lambda *, k=%s: k)' % body
        return 'call(lambda y=0, /, w=%s: w)' % body

    # -- bool -------------------------------------------------------------------------------------
    def leaf_bool(self):
        c = self.num(0, 5)
        if c == 0: return 'flag'
        if c == 1: return self.pick(['True', 'False'])
        if c == 2: return '%s %s %s' % (self.pick(INT_NAMES), self.pick(['<', '>', '==', '!=', '<=', '>=']), self.pick(INT_NAMES + ['0', '2']))
        if c == 3: return 'z is None'
        if c == 4: return 'not flag'
        return '%s > 0' % self.pick(INT_NAMES)

    def t_bool(self, k):
        if k <= 0 or self.coin(6):
            return self.leaf_bool()
        B = lambda d: P(self.t_bool(d))
        cmpop = lambda: self.pick(['<', '>', '==', '!=', '<=', '>='])
        prods = [
            lambda d: '%s %s %s' % (P(self.t_int(d)), cmpop(), P(self.t_int(d))),
            lambda d: '%s %s %s %s %s' % (P(self.t_int(d)), cmpop(), P(self.t_int(d)), cmpop(), P(self.t_int(d))),
            lambda d: 'not %s' % B(d),
            lambda d: '%s %s %s' % (B(d), self.pick(['and', 'or']), B(d)),
            lambda d: '%s %s (%s, %s)' % (P(self.t_int(d)), self.pick(['in', 'not in']), self.t_int(d), self.t_int(d)),
            lambda d: '%s %s %s' % (P(self.t_str(d)), self.pick(['==', '!=', '<', 'in', 'not in']), P(self.t_str(d))),
            lambda d: '%s %s %s' % (P(self.t_date(d)), cmpop(), P(self.t_date(d))),
            lambda d: '%s %s %s' % (P(self.t_float(d)), cmpop(), P(self.t_float(d))),
            lambda d: '%s %s None' % (P(self.e(self.pick(['none', 'int']), d)), self.pick(['is', 'is not'])),
            lambda d: '%s.is_integer()' % P(self.t_float(d)),
            lambda d: '%s.%s(%s)' % (P(self.t_str(d)), self.pick(['startswith', 'endswith']), self.t_str(d)),
            lambda d: '%s if %s else %s' % (B(d), B(d), B(d)),
            lambda d: 'isinstance(%s, %s)' % (self.e(self.any_type(), d), self.pick(['int', 'str', '(int, float)'])),
            lambda d: 'bool(%s)' % self.e(self.pick(['int', 'str']), d),
            lambda d: '(%s < %s) == %s' % (P(self.t_int(d)), P(self.t_int(d)), B(d)),
            lambda d: self.lambda_call('bool', d),
        ]
        return self.choose(prods, k)

    # -- str --------------------------------------------------------------------------------------
    def leaf_str(self):
        c = self.num(0, 5)
        if c <= 1: return self.pick(STR_NAMES)
        if c <= 3: return repr(self.pick(STR_CONSTS))
        if c == 4: return self.pick(['o.s', 'o.name()', 'o.sub.s'])
        return self.pick(STR_NAMES)

    def t_str(self, k):
        if k <= 0 or self.coin(6):
            return self.leaf_str()
        S = lambda d: P(self.t_str(d))
        prods = [
            lambda d: '%s + %s' % (S(d), S(d)),
            lambda d: '%s * %s' % (S(d), P(self.small_int())),
            lambda d: "%s %% %s" % (repr(self.pick(['%s', '<%s>', '%5s|', '%r'])), P(self.e(self.pick(['int', 'str']), d))),
            lambda d: "'%%d-%%s' %% (%s, %s)" % (self.t_int(d), self.t_str(d)),
            lambda d: '%s.%s()' % (S(d), self.pick(['upper', 'lower', 'strip', 'title', 'swapcase'])),
            lambda d: '%s.replace(%s, %s)' % (S(d), self.t_str(0), self.t_str(0)),
            lambda d: "%s.join([%s, %s])" % (S(d), self.t_str(d), self.t_str(d)),
            lambda d: "%s.format(%s)" % (repr(self.pick(['{0}', '<{0}>', '{0:>3}', '{{{0}}}'])), self.t_int(d)),
            lambda d: '%s[%s]' % (S(d), self.pick(['0', '-1', '1:', ':2', '::-1', '1:3', ':-1', '::2', '-2:'])),
            lambda d: '%s[%s:%s]' % (S(d), self.small_int(), self.small_int()),
            lambda d: '%s(%s)' % (self.pick(['str', 'repr', 'str']), self.e(self.any_type(), d)),
            lambda d: '%s if %s else %s' % (S(d), P(self.t_bool(d)), S(d)),
            lambda d: '%s %s %s' % (S(d), self.pick(['or', 'and']), S(d)),
            lambda d: self.fstring(d),
            lambda d: self.fstring(d),
            lambda d: self.fstring(d),
            lambda d: self.lambda_call('str', d),
            lambda d: '%s.isoformat()' % P(self.t_date(d)),
        ]
        return self.choose(prods, k)

    def fstring(self, d):
        """built as an ast.JoinedStr and rendered by ast.unparse (trusted), so that quoting is Python's business"""
        nparts = self.num(1, 4)
        values = []
        field_at = self.num(0, nparts - 1)      # at least one replacement field (f'' has no external part at all)
        for k in range(nparts):
            if k != field_at and self.coin(3):
                values.append(ast.Constant(self.pick(LITERAL_PARTS)))
                continue
            typ = self.pick(['int', 'int', 'str', 'str', 'float', 'dec', 'date', 'bool', 'none'])
            if self.coin(12):
                text = self.pick(["{'k': n}['k']", "{1, 2} == {n, m}", "{'j': s, **D}['j']"])   # leading brace
                typ = 'any'
            else:
                text = self.e(typ, d)
            try:
                node = ast.parse(P(text), mode='eval').body
            except SyntaxError:          # a production embedded a sub-expression without parentheses (generator bug):
                node = ast.Name('s', ast.Load())       # keep going with a plain name
            conv = self.pick([-1, -1, -1, ord('r'), ord('s'), ord('a')])
            if typ == 'str' and self.coin(3):
                conv = ord('a')                                   # ascii() differs from repr() for non-ASCII text
            if typ in ('str', 'dec', 'date') and self.coin(3):
                conv = ord('r')                                   # where repr() differs from str()
            spec = None
            if self.coin(2):
                if conv != -1 or typ == 'str':
                    s = self.pick(STR_SPECS)
                elif typ == 'int':
                    s = self.pick(INT_SPECS)
                elif typ == 'float':
                    s = self.pick(FLOAT_SPECS)
                elif typ == 'dec':
                    s = self.pick(DEC_SPECS)
                elif typ == 'date':
                    s = self.pick(['%Y/%m', '%d', ''])
                else:
                    s = self.pick(['', '>6'])
                if self.coin(4):
                    spec = ast.JoinedStr([ast.Constant('>'), ast.FormattedValue(ast.Name(self.pick(['a', 'b', 'c']), ast.Load()), -1, None)])
                else:
                    spec = ast.JoinedStr([ast.Constant(s)]) if s else ast.JoinedStr([])
            values.append(ast.FormattedValue(node, conv, spec))
        # merge adjacent literal parts as the parser would
        merged = []
        for v in values:
            if isinstance(v, ast.Constant) and merged and isinstance(merged[-1], ast.Constant):
                merged[-1] = ast.Constant(merged[-1].value + v.value)
            else:
                merged.append(v)
        return ast.unparse(ast.JoinedStr(merged))

    def fstring_plain(self):
        """conversions x caller-scope text: 1-3 replacement fields over simple str/other leaves, every conversion, no format
        spec (so that every front end, the decompiler included, accepts it), non-ASCII text likely"""
        values = []
        for k in range(self.num(1, 3)):
            if self.coin(3):
                values.append(ast.Constant(self.pick(['<', '>', ' ', 'a', u'\xe9', '-'])))
            c = self.num(0, 5)
            if c <= 2:
                text = self.pick(STR_NAMES + ['o.s'])
            elif c == 3:
                text = repr(self.pick([u'caf\xe9', u'\u0416\u0443\u043a', u'\u2603', 'plain', "it's"]))
            elif c == 4:
                text = '%s + %s' % (self.pick(STR_NAMES), repr(self.pick([u'\xe9', 'z', u'\U0001f40d'])))
            else:
                text = self.pick(DEC_NAMES + DATE_NAMES + INT_NAMES + ['z', 'flag', 'L', 'D'])
            node = ast.parse(P(text), mode='eval').body
            values.append(ast.FormattedValue(node, self.pick([-1, ord('r'), ord('s'), ord('a'), ord('a')]), None))
        merged = []
        for v in values:
            if isinstance(v, ast.Constant) and merged and isinstance(merged[-1], ast.Constant):
                merged[-1] = ast.Constant(merged[-1].value + v.value)
            else:
                merged.append(v)
        return ast.unparse(ast.JoinedStr(merged))

    # -- float ------------------------------------------------------------------------------------
    def leaf_float(self):
        c = self.num(0, 4)
        if c <= 1: return self.pick(FLOAT_NAMES)
        if c == 2: return self.pick(['0.5', '1.5', '2.0', '1e3', '0.25', '1.5e-3'])
        if c == 3: return 'o.f'
        return '-' + self.pick(['0.5', '2.0'])

    def t_float(self, k):
        if k <= 0 or self.coin(6):
            return self.leaf_float()
        F = lambda d: P(self.t_float(d))
        prods = [
            lambda d: '%s %s %s' % (F(d), self.pick(['+', '-', '*']), F(d)),
            lambda d: '%s %s %s' % (F(d), self.pick(['+', '-', '*', '/']), P(self.t_int(d))),
            lambda d: '%s / %s' % (P(self.t_int(d)), P(self.t_int(d))),
            lambda d: '-%s' % F(d),
            lambda d: '%s ** %s' % (P(self.pow_base(d)), self.pick(['2', '-1', '0.5', '(-2)', 'a % 3'])),
            lambda d: '%s(%s)' % (self.pick(['abs', 'float']), self.t_float(d)),
            lambda d: 'round(%s, %d)' % (self.t_float(d), self.num(0, 2)),
            lambda d: 'float(%s)' % self.t_int(d),
            lambda d: '%s.%s' % (F(d), self.pick(['real', 'imag', 'conjugate()'])),
            lambda d: '%s if %s else %s' % (F(d), P(self.t_bool(d)), F(d)),
            lambda d: '%s(%s, %s)' % (self.pick(['max', 'min']), self.t_float(d), self.t_float(d)),
            lambda d: self.lambda_call('float', d),
        ]
        return self.choose(prods, k)

    # -- Decimal ----------------------------------------------------------------------------------
    def leaf_dec(self):
        c = self.num(0, 3)
        if c <= 1: return self.pick(DEC_NAMES)
        if c == 2: return 'Decimal(%r)' % self.pick(['1.25', '0.5', '-2.75', '10', '0.01'])
        return 'Decimal(%s)' % self.pick(INT_NAMES)

    def t_dec(self, k):
        if k <= 0 or self.coin(5):
            return self.leaf_dec()
        Dc = lambda d: P(self.t_dec(d))
        prods = [
            lambda d: '%s %s %s' % (Dc(d), self.pick(['+', '-', '*']), Dc(d)),
            lambda d: '%s %s %s' % (Dc(d), self.pick(['+', '-', '*']), P(self.t_int(d))),
            lambda d: '%s %s %s' % (P(self.t_int(d)), self.pick(['+', '-', '*']), Dc(d)),
            lambda d: '-%s' % Dc(d),
            lambda d: 'abs(%s)' % self.t_dec(d),
            lambda d: "%s.quantize(Decimal('0.1'))" % Dc(d),
            lambda d: 'round(%s, 1)' % self.t_dec(d),
            lambda d: '%s if %s else %s' % (Dc(d), P(self.t_bool(d)), Dc(d)),
            lambda d: '%s(%s, %s)' % (self.pick(['max', 'min']), self.t_dec(d), self.t_dec(d)),
            lambda d: '%s ** 2' % P(self.leaf_dec() if self.coin() else '-' + self.leaf_dec()),
        ]
        return self.choose(prods, k)

    # -- date -------------------------------------------------------------------------------------
    def leaf_date(self):
        c = self.num(0, 3)
        if c <= 1: return self.pick(DATE_NAMES)
        if c == 2: return 'date(%d, %d, %d)' % (self.pick([2020, 2021, 1999]), self.num(1, 12), self.num(1, 28))
        return 'date(2020, 2, %s %% 28 + 1)' % self.pick(INT_NAMES)

    def t_date(self, k):
        if k <= 0 or self.coin(4):
            return self.leaf_date()
        Dt = lambda d: P(self.t_date(d))
        prods = [
            lambda d: '%s %s timedelta(days=%s)' % (Dt(d), self.pick(['+', '-']), self.t_int(d)),
            lambda d: '%s %s timedelta(%s)' % (Dt(d), self.pick(['+', '-']), self.t_int(d)),
            lambda d: 'timedelta(days=%s) + %s' % (self.t_int(d), Dt(d)),
            lambda d: '%s.replace(day=%d)' % (Dt(d), self.num(1, 28)),
            lambda d: '%s if %s else %s' % (Dt(d), P(self.t_bool(d)), Dt(d)),
            lambda d: '%s(%s, %s)' % (self.pick(['max', 'min']), self.t_date(d), self.t_date(d)),
            lambda d: '%s + timedelta(days=1) * %s' % (Dt(d), P(self.t_int(d))),
        ]
        return self.choose(prods, k)

    # -- None -------------------------------------------------------------------------------------
    def t_none(self, k):
        c = self.num(0, 5)
        if k <= 0 or c <= 1:
            return self.pick(['None', 'z'])
        if c == 2: return "D.get('zz')"
        if c == 3: return 'None if %s else z' % P(self.t_bool(k - 1))
        if c == 4: return '%s and None' % P(self.t_int(k - 1))
        return 'z or None'

    # -- mixed expressions: query variable x plus external parts -----------------------------------
    def mixed_int(self, k):
        if k <= 0:
            return self.pick(['x.i', 'x.j', 'x.i'])
        M = lambda d: P(self.mixed_int(d))
        E = lambda d: P(self.t_int(min(d, 2)))
        op = lambda: self.pick(['+', '-', '*', '+', '-'])
        prods = [
            lambda d: '%s %s %s' % (M(d), op(), E(d)),
            lambda d: '%s %s %s' % (E(d), op(), M(d)),
            lambda d: '%s %s %s' % (M(d), op(), M(d)),
            lambda d: '-%s' % M(d),
            lambda d: '%s %s %s %s %s' % (E(d), op(), M(d), op(), E(d)),
        ]
        return self.choose(prods, k)

    def mixed_cond(self, k):
        cmpop = lambda: self.pick(['==', '<', '<=', '>', '>=', '!=', '=='])
        E = lambda d: P(self.t_int(d))
        c = self.num(0, 9)
        if c <= 2:
            return '%s %s %s' % (P(self.mixed_int(k)), cmpop(), E(2))
        if c == 3:
            return '%s %s %s' % (E(2), cmpop(), P(self.mixed_int(k)))
        if c == 4:
            return '%s %s %s' % (P(self.mixed_int(k)), cmpop(), P(self.mixed_int(1)))
        if c == 5:
            return '%s %s (%s, %s)' % (P(self.mixed_int(1)), self.pick(['in', 'not in']), self.t_int(2), self.t_int(1))
        if c == 6:
            return '%s in [%s, %s, %s]' % (P(self.mixed_int(1)), self.t_int(2), self.t_int(1), self.leaf_int())
        if c == 7:
            return '%s %s %s %s %s %s %s' % (P(self.mixed_int(1)), cmpop(), E(2), self.pick(['and', 'or']),
                                             P(self.mixed_int(1)), cmpop(), E(2))
        if c == 8:
            s1 = self.t_str(2)
            s2 = self.t_str(2)
            form = self.num(0, 2)
            lhs = ['x.s + %s' % P(s1), '%s + x.s' % P(s1), '%s + x.s + %s' % (P(s1), P(self.t_str(1)))][form]
            return '%s %s %s' % (lhs, self.pick(['==', '!=', '==']), P(s2))
        return 'not %s %s %s' % (P(self.mixed_int(k)), cmpop(), E(2))

    def mixed_elt(self, k):
        """extra result columns next to x.id"""
        c = self.num(0, 3)
        if c == 0:
            return self.mixed_int(k)
        if c == 1:
            return '%s, %s' % (self.mixed_int(k), self.e(self.any_type(), 2))
        if c == 2:
            return 'x.s + %s' % P(self.t_str(2))
        return '%s, %s + x.s' % (self.mixed_int(1), P(self.t_str(2)))


def normalise(text):
    """minimal-parenthesis rendering of the generated tree; None if Python's own unparse/parse do not round-trip
    (then the case is discarded by the caller and counted)"""
    if text is None:
        return None
    try:
        tree = ast.parse(text, mode='eval')
        out = ast.unparse(tree)
        if ast.dump(ast.parse(out, mode='eval')) != ast.dump(tree):
            return None
        return out
    except (SyntaxError, ValueError, RecursionError):
        return None


@st.composite
def external_exprs(draw, typ=None, max_depth=4, allow_lambda=True):
    g = Gen(draw, allow_lambda)
    if typ is None:
        typ = g.any_type()
    depth = draw(st.integers(1, max_depth))
    if typ == 'str':
        c = draw(st.integers(0, 3))
        if c == 0:
            return typ, normalise(g.fstring_plain())         # conversions x (non-ASCII) text, a quarter of the str cases
        if c == 1:
            return typ, normalise(g.fstring(depth - 1))      # an f-string with everything at the top, another quarter
    return typ, normalise(g.e(typ, depth))


@st.composite
def mixed_queries(draw):
    """('cond'|'elt', text) with the query variable x; elt text is the tail of the result tuple after x.id"""
    g = Gen(draw, allow_lambda=False)
    if draw(st.integers(0, 2)) == 0:
        t = normalise(P(g.mixed_elt(draw(st.integers(1, 3)))))
        return 'elt', t
    t = normalise(g.mixed_cond(draw(st.integers(1, 3))))
    return 'cond', t


@st.composite
def chain_queries(draw):
    """a condition over x with external parts, to be stacked on its own result (see c04_core.judge_chain)"""
    g = Gen(draw, allow_lambda=False)
    c = draw(st.integers(0, 5))
    E = lambda: P(g.t_int(draw(st.integers(0, 2))))
    if c == 0:
        t = 'x.i != %s' % E()
    elif c == 1:
        t = 'x.i >= %s - 1 and x.i <= %s + 1' % (E(), E())
    elif c == 2:
        t = '%s %s %s' % (P(g.mixed_int(1)), g.pick(['!=', '<', '<=', '>', '>=', '!=']), E())
    elif c == 3:
        t = 'x.i not in (%s, %s)' % (g.t_int(1), g.t_int(1))
    elif c == 4:
        t = 'x.s + %s != %s' % (P(g.t_str(1)), P(g.t_str(1)))
    else:
        t = g.mixed_cond(1)
    return normalise(t)
