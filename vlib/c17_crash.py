"""C17 crash runner.  Started with sys.executable by vlib.c17_prog.CrashServer (PYTHONPATH inherited).

Reads one JSON request per line on stdin: {"program": ..., "path": database file (a fresh copy of the template), "k": n}.
For each request it forks; the forked process binds Pony to the file through the fault layer with the plan
"os._exit(137) before call k", runs the program and therefore dies in the middle of it without any cleanup.
The parent waits for it and answers {"exit": code} on stdout (137 = died at the requested call, 3 = program finished
without reaching call k, 4 = program raised before reaching call k).
"""
import os, sys, json

HOME = os.environ.get('VERIF_HOME') or os.path.dirname(os.path.dirname(os.path.abspath(__file__)))
if HOME not in sys.path:
    sys.path.insert(0, HOME)


def child(req):
    from vlib import c17_prog, faultdb
    from pony.orm import Database
    rec = faultdb.Recorder([{'at': req['k'], 'when': 'before', 'exc': 'crash'}])
    db = Database()
    E = c17_prog.define_entities(db)
    db.bind('sqlite', req['path'], create_db=False, factory=faultdb.make_factory(rec), timeout=0)
    db.generate_mapping(check_tables=False, create_tables=False)
    rec.start()

    class Env(object):
        pass
    env = Env()
    env.db, env.E, env.rec, env.path = db, E, rec, req['path']
    try:
        c17_prog.Interp(env, req['program']).run()
    except BaseException:
        os._exit(4)
    os._exit(3)


def main():
    import pony.orm                     # imported once; every forked child starts from here
    from vlib import c17_prog, faultdb  # noqa
    for line in sys.stdin:
        line = line.strip()
        if not line:
            continue
        req = json.loads(line)
        sys.stdout.flush()
        pid = os.fork()
        if pid == 0:
            try:
                child(req)
            finally:
                os._exit(5)
        _, status = os.waitpid(pid, 0)
        code = os.WEXITSTATUS(status) if os.WIFEXITED(status) else -os.WTERMSIG(status)
        sys.stdout.write(json.dumps({'exit': code}) + '\n')
        sys.stdout.flush()


if __name__ == '__main__':
    main()
