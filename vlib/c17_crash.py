"""C17 crash runner: one process per request, started with sys.executable by vlib.c17_prog.CrashServer (PYTHONPATH
inherited; the client starts the next process while the current one works, so the import time is hidden).

Prints "ready", then reads ONE JSON request on stdin:
    {"program": ..., "template": template database, "dir": scratch directory, "ks": [k, ...]}
For every k the process copies the template to <dir>/crash_<k>.sqlite, binds a fresh Pony Database to it through the
fault layer and runs the program in a thread of its own whose plan is "stop for ever right before call k" (no unwinding:
none of Pony's cleanup code runs, the connection stays exactly as it was, with its transaction open).  When every run
is frozen at its call the process writes <dir>/status.json and kills itself with os._exit(137): every one of those
connections dies with the process, mid-transaction, the way a crashed program leaves them.  The runs use separate
Database objects and separate files, so they do not influence each other.
"""
import os, sys, json, shutil, threading

HOME = os.environ.get('VERIF_HOME') or os.path.dirname(os.path.dirname(os.path.abspath(__file__)))
if HOME not in sys.path:
    sys.path.insert(0, HOME)


def crash_path(d, k):
    return os.path.join(d, 'crash_%d.sqlite' % k)


def one_run(req, k, status):
    from vlib import c17_prog
    path = crash_path(req['dir'], k)
    progress = threading.Event()

    def target():
        try:
            env = c17_prog.Env(req['template'], path, [{'at': k, 'when': 'before', 'exc': 'park'}], parked=progress)
            c17_prog.Interp(env, req['program']).run()
            status[str(k)] = 'finished'          # never reached call k
        except BaseException as e:
            status[str(k)] = 'raised %s: %s' % (type(e).__name__, str(e)[:200])
        finally:
            progress.set()
    status[str(k)] = 'parked'
    t = threading.Thread(target=target, name='crash-%d' % k)
    t.daemon = True
    t.start()
    progress.wait()       # set when the run is frozen at call k (or, unexpectedly, when it ended)


def child(req):
    import gc
    gc.disable()      # frozen runs keep all their objects alive; collecting over them again and again is wasted time
    threading.stack_size(512 * 1024)
    status = {}
    for k in req['ks']:
        one_run(req, k, status)
    tmp = os.path.join(req['dir'], 'status.json.tmp')
    with open(tmp, 'w') as f:
        json.dump(status, f)
        f.flush()
        os.fsync(f.fileno())
    os.rename(tmp, os.path.join(req['dir'], 'status.json'))
    os._exit(137)


def main():
    import pony.orm                     # imported before the request arrives (the client starts this process early)
    import pony.orm.dbproviders.sqlite  # noqa
    from vlib import c17_prog, faultdb  # noqa
    sys.stdout.write('ready\n')
    sys.stdout.flush()
    line = sys.stdin.readline()
    if not line.strip():
        os._exit(0)                     # the client did not need this process
    child(json.loads(line))


if __name__ == '__main__':
    main()
