"""C17 crash runner: one process per request, started with sys.executable by vlib.c17_prog.CrashServer (PYTHONPATH
inherited; the client starts the next processes while the current one works, so the import time is hidden).

Prints "ready", then reads ONE JSON request on stdin:
    {"jobs": [{"program": ..., "ks": [k, ...]}, ...], "template": template database, "dir": scratch directory}
For every job j and every k the process copies the template to <dir>/crash_<j>_<k>.sqlite, binds a fresh Pony Database
to it through the fault layer and runs the program with the plan "freeze right before call k": at that call the run is
abandoned, and from then on no DB-API call of that run reaches SQLite any more (the layer raises instead), so none of
Pony's cleanup code (rollback, close) touches the connection; the connection object is kept exactly as it was, with its
transaction open.  When every run has been abandoned at its call the process writes <dir>/status.json and kills itself
with os._exit(137): every one of those connections dies with the process, mid-transaction, the way a crashed program
leaves them.  The runs use separate Database objects and separate files, so they do not influence each other.
"""
import os, sys, json

HOME = os.environ.get('VERIF_HOME') or os.path.dirname(os.path.dirname(os.path.abspath(__file__)))
if HOME not in sys.path:
    sys.path.insert(0, HOME)

KEEP = []      # connection objects of abandoned runs: they must stay open and untouched until the process dies


def crash_path(d, j, k):
    return os.path.join(d, 'crash_%d_%d.sqlite' % (j, k))


def one_run(req, j, program, k, status):
    from vlib import c17_prog, faultdb
    from pony.orm import core
    key = '%d:%d' % (j, k)
    env = c17_prog.Env(req['template'], crash_path(req['dir'], j, k), [{'at': k, 'when': 'before', 'exc': 'freeze'}])
    try:
        c17_prog.Interp(env, program).run()
        # a Frozen signal can be swallowed by Pony (rollback failure while another exception propagates)
        status[key] = 'frozen' if env.rec.dead else 'finished'
    except faultdb.Frozen:
        status[key] = 'frozen' if env.rec.dead else 'finished'
    except BaseException as e:
        status[key] = ('frozen' if env.rec.dead else 'raised') + ' %s: %s' % (type(e).__name__, str(e)[:200])
        if env.rec.dead:
            status[key] = 'frozen'            # Pony wrapped the Frozen signal into one of its own exceptions
    KEEP.extend(r.obj for r in env.rec.conns)     # everything else of the run may be garbage collected
    # Pony's thread-local session state of the abandoned run (no database call can happen: the recorder is dead)
    try:
        core.local.db2cache.clear()
        core.local.db_session = None
        core.local.db_context_counter = 0
    except BaseException:
        pass


def child(req):
    status = {}
    for j, job in enumerate(req['jobs']):
        for k in job['ks']:
            one_run(req, j, job['program'], k, status)
    tmp = os.path.join(req['dir'], 'status.json.tmp')
    with open(tmp, 'w') as f:
        json.dump(status, f)
        f.flush()
        os.fsync(f.fileno())
    os.rename(tmp, os.path.join(req['dir'], 'status.json'))
    os._exit(137)


def main():
    import pony.orm                     # imported before the request arrives (the client starts this process early)
    import pony.orm.dbproviders.sqlite  # noqa
    from vlib import c17_prog, faultdb  # noqa
    sys.stdout.write('ready\n')
    sys.stdout.flush()
    line = sys.stdin.readline()
    if not line.strip():
        os._exit(0)                     # the client did not need this process
    sys.stdout = open(os.devnull, 'w')  # nobody reads the pipe any more (a session with sql_debug=True prints)
    try:
        child(json.loads(line))
    finally:
        os._exit(5)


if __name__ == '__main__':
    main()
