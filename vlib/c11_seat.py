"""C11, one-to-one-in-key part: histories over Seat(PrimaryKey(room, person)) where Seat.person is the required side of a
one-to-one relationship (Person.seat = Optional(Seat)).  A creation can fail *while its key is being linked*: the person
already has a seat that cannot be unlinked (ConstraintError), or a live object with the same key exists (CacheIndexError).
A dict model (key -> live seat, at most one seat per person) decides every call; after every call each possible key is
looked up by Seat.get(), Seat[objects] and Seat[raw ids]: a key the model does not hold must not be found (no object left
behind by a failed creation), a key it holds must give the one object the session created or loaded, and a creation the
model allows must succeed."""
from hypothesis import strategies as st


@st.composite
def cases(draw):
    nr, npers = draw(st.integers(1, 3)), draw(st.integers(1, 3))
    key = st.tuples(st.integers(1, nr), st.integers(1, npers))
    initial = draw(st.lists(key, max_size=3, unique_by=lambda k: k[1]))
    op = st.one_of(st.tuples(st.just('create'), key), st.tuples(st.just('create'), key), st.tuples(st.just('delete'), key),
                   st.tuples(st.just('flush')), st.tuples(st.just('commit')), st.tuples(st.just('create_note'), key))
    sessions = draw(st.lists(st.lists(op, min_size=1, max_size=7), min_size=1, max_size=2))
    return {'kind': 'seat', 'rooms': nr, 'persons': npers, 'initial': [list(k) for k in initial],
            'sessions': [[[o[0]] + [list(x) for x in o[1:]] for o in s] for s in sessions]}


def build(case):
    from pony.orm import Database, Required, Optional, Set, PrimaryKey, db_session
    db = Database()

    class Room(db.Entity):
        id = PrimaryKey(int)
        seats = Set('Seat')

    class Person(db.Entity):
        id = PrimaryKey(int)
        seat = Optional('Seat')

    class Seat(db.Entity):
        room = Required(Room)
        person = Required(Person)
        note = Optional(str)
        PrimaryKey(room, person)
    db.bind('sqlite', ':memory:')
    db.generate_mapping(create_tables=True)
    with db_session:
        for r in range(1, case['rooms'] + 1):
            Room(id=r)
        for p in range(1, case['persons'] + 1):
            Person(id=p)
        for r, p in case['initial']:
            Seat(room=r, person=p)
    return db, Room, Person, Seat


def judge(case):
    """returns a violation message or None; case['stats'] is not written (pure function of the case)"""
    from pony.orm import db_session, select, flush, commit, ObjectNotFound, ConstraintError, CacheIndexError
    db, Room, Person, Seat = build(case)
    model = {tuple(k) for k in case['initial']}            # committed + session-visible live keys (no rollbacks generated)
    keys = [(r, p) for r in range(1, case['rooms'] + 1) for p in range(1, case['persons'] + 1)]
    try:
        for sno, ops in enumerate(case['sessions']):
            with db_session:
                rooms = {r: Room[r] for r in range(1, case['rooms'] + 1)}
                persons = {p: Person[p] for p in range(1, case['persons'] + 1)}
                handles = {(s.room.id, s.person.id): s for s in select(s for s in Seat)[:]}
                if set(handles) != model:
                    return 'session %d starts with seats %s, the model holds %s' % (sno, sorted(handles), sorted(model))

                def audit(where):
                    for r, p in keys:
                        want = handles.get((r, p)) if (r, p) in model else None
                        got = Seat.get(room=rooms[r], person=persons[p])
                        if got is not want:
                            return '%s: Seat.get(room=%d, person=%d) returned %r (status %r), expected %r' % (
                                where, r, p, got, getattr(got, '_status_', None), want)
                        for form, args in (('objects', (rooms[r], persons[p])), ('raw ids', (r, p))):
                            try:
                                got = Seat[args]
                            except ObjectNotFound:
                                got = None
                            if got is not want:
                                return '%s: Seat[%d, %d] (%s) returned %r (status %r), expected %r' % (
                                    where, r, p, form, got, getattr(got, '_status_', None), want)
                    for p, pobj in persons.items():
                        mine = [k for k in model if k[1] == p]
                        want = handles[mine[0]] if mine else None
                        if pobj.seat is not want:
                            return '%s: Person[%d].seat is %r, expected %r' % (where, p, pobj.seat, want)
                    for r, robj in rooms.items():
                        want = {handles[k] for k in model if k[0] == r}
                        got = set(robj.seats)
                        if got != want or any(not any(g is w for w in want) for g in got):
                            return '%s: Room[%d].seats is %r, expected %r' % (where, r, sorted(map(repr, got)), sorted(map(repr, want)))
                    got = select(s for s in Seat)[:]
                    if len(got) != len(model) or any(handles.get((s.room.id, s.person.id)) is not s for s in got):
                        return '%s: select(s for s in Seat) returned %r, expected the %d known objects' % (where, got, len(model))
                    return None

                for ono, o in enumerate(ops):
                    where = 'session %d op #%d %s' % (sno, ono, o)
                    name = o[0]
                    if name in ('create', 'create_note'):
                        r, p = o[1]
                        kw = dict(room=rooms[r], person=persons[p])
                        if name == 'create_note':
                            kw['note'] = 'n'
                        if (r, p) in model:
                            expect = CacheIndexError
                        elif any(k[1] == p for k in model):
                            expect = ConstraintError      # the person's present seat cannot be unlinked: Seat.person is required
                        else:
                            expect = None
                        try:
                            s = Seat(**kw)
                        except (CacheIndexError, ConstraintError) as e:
                            if expect is None:
                                return '%s: a creation the model allows (key free, person without seat) was refused: %s: %s' % (
                                    where, type(e).__name__, e)
                        else:
                            if expect is not None:
                                return '%s: creation succeeded although the model expects %s' % (where, expect.__name__)
                            model.add((r, p))
                            handles[(r, p)] = s
                    elif name == 'delete':
                        r, p = o[1]
                        if (r, p) not in model:
                            continue
                        handles[(r, p)].delete()
                        flush()
                        model.discard((r, p))
                        del handles[(r, p)]
                    elif name == 'flush':
                        flush()
                    elif name == 'commit':
                        commit()
                    msg = audit(where)
                    if msg:
                        return msg
        return None
    finally:
        db.disconnect()


def nontrivial(case):
    """a creation after an earlier create/delete on the same person in one session"""
    for ops in case['sessions']:
        persons = [o[1][1] for o in ops if o[0] in ('create', 'create_note', 'delete')]
        if len(persons) != len(set(persons)):
            return True
    return False
