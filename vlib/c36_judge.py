"""C36 judge: decides one observed fork history against the property, independent of pony.

Reference facts used (none come from pony):
 * a connection object belongs to the process whose pid created it (recorded by the recording classes);
 * SQLite file databases: what one connection committed is read by any connection opened/queried later;
   an uncommitted transaction is invisible to other connections; a second writer gets 'database is locked'
   while another connection holds a write transaction;
 * a committed-set timeline computed from the case itself (which labelled writes reported success, in the
   order the harness serialised the processes).

Every function returns a list of (kind, message) findings in priority order (empty = property held) or
raises Unjudgeable(reason).
"""

STATEMENT_OPS = ('execute', 'executemany', 'executescript')
OPEN_WITH_CONNECTION = ('open_read', 'open_write', 'after_commit')
OPEN_STATES = OPEN_WITH_CONNECTION + ('open_dirty',)
THREAD_STATES = ('thread_open_write', 'threads_queued_write')


class Unjudgeable(Exception):
    pass


class HarnessBug(Exception):
    pass


def _is_locked(rec):
    exc = rec.get('exc') or {}
    return 'database is locked' in (exc.get('msg') or '')


def _short(e):
    sql = (e.get('sql') or '').replace('\n', ' ')
    return '%s%s' % (e['op'], (' ' + sql[:60]) if sql else '')


def _flat_ops(ops):
    out = []
    for o in ops:
        if isinstance(o, str):
            out.append(o)
        else:
            out.extend(_flat_ops(o[1]))
    return out


def _disconnect_after_gen(ops):
    resumed = False
    for o in ops:
        if isinstance(o, str):
            if o in ('gen_next', 'gen_write'):
                resumed = True
            elif o == 'disconnect' and resumed:
                return True
        elif _disconnect_after_gen(o[1]):
            return True
    return False


def flatten_sqlite(obs):
    """-> (labels: pid->label, processes: list of (label, records, events))"""
    labels = {obs['pids']['P']: 'P'}
    procs = []

    def sub(rep, who):
        if rep is None:
            raise HarnessBug('no report for %s' % who)
        if rep.get('harness_timeout'):
            raise Unjudgeable('%s: harness timeout' % who)
        if rep.get('watchdog'):
            if rep.get('deadlock'):
                return 'deadlock', rep
            raise Unjudgeable('%s: watchdog at %s' % (who, (rep.get('stack') or [])[:4]))
        if rep.get('crash'):
            raise HarnessBug('%s crashed: %s' % (who, rep['crash']))
        labels[rep['pid']] = who
        procs.append((who, rep['records'], rep['events']))
        for r in rep['records']:
            if r['op'] == 'fork':
                res = sub(r['sub'], r['sub_who'])
                if res is not None:
                    return res
        return None

    dead = sub(obs['child'], 'C')
    return labels, procs, dead


def judge_sqlite(case, obs):
    if obs.get('harness_timeout'):
        raise Unjudgeable('P: harness timeout')
    if obs.get('watchdog'):
        raise Unjudgeable('P: watchdog at %s' % ((obs.get('stack') or [])[:4],))
    if obs.get('crash'):
        raise HarnessBug('P crashed: %s' % obs['crash'])
    if obs.get('harness_error'):
        raise HarnessBug(obs['harness_error'])
    state = case['parent_state']
    if state == 'open_dirty' and (not case['child'] or case['child'][0] != 'rollback'):
        raise Unjudgeable('precondition: with unflushed objects in the inherited cache the child must discard it first')

    if state in THREAD_STATES and (case['order'] != 'child_first' or case['parent_after'] not in ([], ['read'])):
        raise Unjudgeable('precondition: thread-state histories only have child_first order and a read-only parent script')
    mem = case.get('db', 'file') != 'file'
    if mem and (state in THREAD_STATES or state in ('gen_suspended', 'open_dirty')):
        raise Unjudgeable('precondition: in-memory databases are only combined with the plain parent states')

    gen_ops = ('gen_next', 'gen_write')
    if state != 'gen_suspended':
        flat = [o for o in _flat_ops(case['child']) + list(case['parent_after'])]
        if any(o in gen_ops for o in flat):
            raise Unjudgeable('precondition: generator steps only exist in the gen_suspended state')
    else:
        if 'disconnect' in case['parent_after']:
            raise Unjudgeable('precondition: the parent must not disconnect() while its own generator session is suspended')
        if _disconnect_after_gen(case['child']):
            raise Unjudgeable('precondition: no disconnect() in a process after it resumed the generator (the suspended '
                              'session holds that process\'s own connection; closing it is not a fork matter)')

    findings = []
    labels, procs, dead = flatten_sqlite(obs)
    if dead is not None:
        kind, rep = dead
        findings.append(('deadlock', '[deadlock] a forked process (single thread) blocked forever in SQLiteProvider.acquire_lock: %s'
                         % ((rep.get('stack') or [])[:5],)))
        return findings, {'foreign_noop_calls': 0, 'child_statements': 0, 'faults': 0}

    # ---- connection the parent's open session held at the fork point -----------------------------------------
    session_conns = set()
    gen_conns = set()
    p_events = obs['events']
    in_open = False
    for rec in obs['setup']:
        if rec['op'] == 'gen_start':
            for e in p_events[rec['mark']:rec['end']]:
                gen_conns.add(e['conn'])
        if rec['op'] == 'open':
            in_open = True
        elif in_open:
            for e in p_events[rec['mark']:rec['end']]:
                session_conns.add(e['conn'])

    # ---- 1. statements on a connection created by another process --------------------------------------------
    all_events = [('P', e) for e in p_events]
    for who, recs, evs in procs:
        all_events.extend((who, e) for e in evs)
    foreign_calls = 0
    for who, e in all_events:
        if e['pid'] == e['creator']:
            continue
        issued = e['op'] in STATEMENT_OPS or (e['op'] in ('commit', 'rollback', 'close') and e['real'])
        if not issued:
            foreign_calls += 1       # commit()/rollback()/close() that send nothing: judged by their effects below
            continue
        # the connection was held by an open db_session of its creator when that process forked: either the parent's
        # session connection, or a connection of a child that itself lives inside the (never ending) inherited session
        inherited = ((e['conn'] in session_conns and state in OPEN_WITH_CONNECTION)
                     or (state in OPEN_STATES and labels.get(e['creator']) != 'P'))
        suspended = state == 'gen_suspended' and e['conn'] in gen_conns
        tag = '[inherited-session]' if inherited else '[suspended-generator]' if suspended else '[pooled]'
        what = {'commit': 'COMMIT', 'rollback': 'ROLLBACK', 'close': 'close() of an open transaction'}.get(e['op'], _short(e))
        findings.append(('foreign-statement' + ('-inherited' if inherited else '-pooled'),
                         '%s process %s issued %s on connection %s created by process %s'
                         % (tag, who, what, 'no.' + e['conn'].split('.')[1], labels.get(e['creator'], e['creator']))))
        break

    # ---- 2. timeline: expected committed set, op outcomes -----------------------------------------------------
    committed = ['p0']
    if state == 'after_commit':
        committed.append('pc')
    model = {'committed': committed, 'parent_open': state in OPEN_STATES or state in THREAD_STATES,
             'pending': ['pu'] if state in ('open_write', 'open_dirty') else []}
    child_in_inherited = state in OPEN_STATES
    stats_extra = {'faults': 0}
    lock_at_fork = state == 'open_write' or state in THREAD_STATES

    def child_ops(records, who, fresh):
        # fresh: the process is not inside a session cache inherited from the parent (pony caches query results per
        # session, so a nested db_session of the inherited session is NOT 'a later session'); rollback() discards it
        for r in records:
            op = r['op']
            if op == 'fork':
                child_ops(r['sub']['records'], r['sub_who'], fresh)
                continue
            if mem:
                # an in-memory database is private to the process (':memory:': the child's own connection is a new empty
                # database; shared cache: a copy as of the fork): nothing the child does is visible to the parent and its
                # statements may find no table or a table lock -- only WHERE they are issued is judged (above)
                msg = ((r.get('exc') or {}).get('msg') or '')
                tolerated = (r['ok'] or 'no such table' in msg or 'locked' in msg or 'injected' in msg
                             or (r.get('exc') or {}).get('type') == 'TransactionError')
                if not tolerated:
                    findings.append(('child-op-failed', '%s %s on its in-memory database failed: %r' % (who, op, r['exc'])))
                continue
            # a writer may be refused as locked while the parent's session is open, or (grandchild) while the forking
            # child lives inside the inherited, never ending session and may hold a transaction of its own
            # ... or for ever when a connection of the forking process held SQLite's write lock at the fork: SQLite keeps
            # POSIX locks per process and inode, so the inherited (never used, never closed) connection copy makes every
            # new connection of the forked process see the file as reserved (a SQLite fork hazard, not a pony statement)
            may_lock = model['parent_open'] or lock_at_fork or (child_in_inherited and who != 'C')
            if op == 'fail_connect':
                stats_extra['faults'] += 1 if r.get('fired') else 0
                if r.get('fired') and not r['ok'] and 'injected' in (r['exc'].get('msg') or ''):
                    continue          # the injected connection failure surfaced: expected
                op = 'read'           # nothing had to be opened (or pony recovered): judged as a plain read
            if op in gen_ops:
                if not r['ok']:
                    findings.append(('child-op-failed', '%s could not resume the generator session suspended at the fork: %r'
                                     % (who, r['exc'])))
                else:
                    if r['result'] != sorted(model['committed']):
                        findings.append(('visibility', '%s read %r in the resumed generator session (after its commit), '
                                         'committed so far %r' % (who, r['result'], sorted(model['committed']))))
                    if op == 'gen_write':
                        model['committed'].append(r['label'])
                continue
            if op == 'read':
                if not r['ok']:
                    # a process that lives inside the inherited (never ending) db_session carries session state across
                    # its nested db_sessions: the transaction mode 'immediate' after the parent's flush/commit, or the
                    # unsaved object of an earlier write that was refused as locked; its read may therefore ask for the
                    # write lock the parent still holds
                    if not (may_lock and child_in_inherited and _is_locked(r)):
                        findings.append(('child-op-failed', '%s read in its own session failed: %r' % (who, r['exc'])))
                elif fresh and r['result'] != sorted(model['committed']):
                    findings.append(('visibility', '%s read %r in a new session, committed so far %r'
                                     % (who, r['result'], sorted(model['committed']))))
                if child_in_inherited:
                    fresh = False        # the session cache (query results) now lives on across nested db_sessions
            elif op == 'write':
                if r['ok']:
                    model['committed'].append(r['label'])
                elif not (may_lock and _is_locked(r)):
                    findings.append(('child-op-failed', '%s write+commit %r failed: %r' % (who, r['label'], r['exc'])))
                if child_in_inherited:
                    fresh = False
            elif op == 'getconn':
                if r['ok']:
                    res = r['result']
                    if res['creator'] != res['pid']:
                        findings.append(('foreign-getconn', '%s db.get_connection() returned a connection created by process %s'
                                         % (who, labels.get(res['creator'], '?'))))
                    elif fresh and res['names'] != sorted(model['committed']):
                        findings.append(('visibility', '%s read %r through db.get_connection(), committed so far %r'
                                         % (who, res['names'], sorted(model['committed']))))
                elif not (may_lock and _is_locked(r)):
                    findings.append(('child-op-failed', '%s get_connection failed: %r' % (who, r['exc'])))
                if child_in_inherited:
                    fresh = False
            elif op == 'disconnect':
                if child_in_inherited:
                    if r['ok'] or r['exc']['type'] != 'TransactionError':
                        pass      # pony refuses disconnect() inside a db_session; either way nothing to assert
                elif not r['ok']:
                    findings.append(('child-op-failed', '%s disconnect failed: %r' % (who, r['exc'])))
            elif op == 'rollback':
                if not r['ok']:
                    findings.append(('child-op-failed', '%s rollback failed: %r' % (who, r['exc'])))
                else:
                    fresh = True
            else:
                raise HarnessBug('unknown child op %r' % (op,))

    def parent_ops(records):
        for r in records:
            op = r['op']
            if op in gen_ops:
                if not r['ok']:
                    findings.append(('parent-broken', 'parent could not resume its own suspended generator session after the '
                                     'fork: %r' % (r['exc'],)))
                else:
                    if r['result'] != sorted(model['committed']):
                        findings.append(('visibility', 'parent read %r in its resumed generator session, committed so far %r'
                                         % (r['result'], sorted(model['committed']))))
                    if op == 'gen_write':
                        model['committed'].append(r['label'])
                continue
            if op in ('read_in', 'write_flush'):
                if not r['ok']:
                    findings.append(('parent-broken', 'parent could not continue its open session after the fork: %s failed: %r'
                                     % (op, r['exc'])))
                    continue
                if op == 'write_flush':
                    model['pending'].append(r['label'])
                else:
                    need = set(model['pending']) | {'p0'}
                    if not need <= set(r['result']):
                        findings.append(('parent-broken', 'parent lost its own uncommitted data: read %r in its open session, '
                                         'expected at least %r' % (r['result'], sorted(need))))
            elif op == 'read':
                if not r['ok']:
                    findings.append(('parent-broken', 'parent read in a new session failed: %r' % (r['exc'],)))
                elif r['result'] != sorted(model['committed']):
                    findings.append(('visibility', 'parent read %r in a new session, committed so far %r'
                                     % (r['result'], sorted(model['committed']))))
            elif op == 'write':
                if r['ok']:
                    model['committed'].append(r['label'])
                else:
                    findings.append(('parent-broken', 'parent write in a new session failed: %r' % (r['exc'],)))
            elif op in ('commit', 'end_session'):
                if not r['ok']:
                    findings.append(('parent-broken', "parent's %s failed: %r (its open transaction was not intact)"
                                     % (op, r['exc'])))
                    model['pending'] = []
                else:
                    if model['parent_open']:
                        model['committed'].extend(model['pending'])
                        model['pending'] = []
                if op == 'end_session':
                    model['parent_open'] = False
            elif op == 'disconnect':
                if model['parent_open']:
                    pass          # refused inside db_session (TransactionError): nothing to assert
                elif not r['ok']:
                    findings.append(('parent-broken', 'parent disconnect failed: %r' % (r['exc'],)))
            elif op == 'abort_session':
                pass
            else:
                raise HarnessBug('unknown parent op %r' % (op,))

    child_records = procs[0][1]
    if case['order'] == 'child_first':
        child_ops(child_records, 'C', not child_in_inherited)
        parent_ops(obs['parent_after'])
    else:
        parent_ops(obs['parent_after'])
        child_ops(child_records, 'C', not child_in_inherited)
    if state in THREAD_STATES:
        model['parent_open'] = False
        for key, label in (('thread', 'tu'), ('thread_b', 'tb')):
            if key == 'thread_b' and state != 'threads_queued_write':
                continue
            trec = obs.get(key) or {}
            if trec.get('ok'):
                model['committed'].append(label)
            else:
                findings.append(('parent-broken', "the parent's other thread could not commit its transaction %r: %r"
                                 % (label, trec.get('exc'))))
    parent_ops(obs['final'])

    if obs.get('no_file'):
        pass
    elif 'file_error' in obs:
        findings.append(('parent-broken', 'database file unreadable afterwards: %s' % obs['file_error']))
    else:
        if obs.get('integrity') != 'ok':
            findings.append(('corruption', 'PRAGMA integrity_check: %r' % (obs.get('integrity'),)))
        if obs.get('file_names') != sorted(model['committed']):
            findings.append(('visibility', 'database file finally holds %r, committed according to the reports %r'
                             % (obs.get('file_names'), sorted(model['committed']))))
    return findings, {'foreign_noop_calls': foreign_calls, 'faults': stats_extra['faults'],
                      'child_statements': sum(1 for who, e in all_events if who != 'P' and e['op'] in STATEMENT_OPS)}


# ------------------------------------------------------------------------------------------------------------
def judge_pool(case, obs):
    """generic Pool / OraPool.  Reference: each process has at most one pooled object of its own; connect() must
    hand out an object created by the calling process (for OraPool: acquired from a SessionPool created by the
    calling process); no method of an object created by another process may be called, and such an object must not
    be finalised (a real driver's destructor closes the socket shared with the parent) before the process ends."""
    if obs.get('harness_timeout') or obs.get('watchdog'):
        raise Unjudgeable('P: timeout')
    if obs.get('crash'):
        raise HarnessBug('P crashed: %s' % obs['crash'])
    findings = []
    labels = {obs['pids']['P']: 'P'}
    stats = {'forks': 0, 'child_connects': 0, 'inherited_forks': 0, 'faults': 0}

    def walk(rep, who, pool_objs):
        # pool_objs: spool idents created per pid (oracle)
        for r in rep['records']:
            if r.get('skipped'):
                continue
            if not r['ok']:
                if r['op'] == 'connect' and r.get('injected'):
                    stats['faults'] += 1          # the injected driver failure surfaced from connect(): expected
                    continue
                findings.append(('pool-op-failed', '%s pool.%s() raised %r' % (who, r['op'], r.get('exc'))))
                continue
            if r['op'] == 'connect':
                res = r['result']
                if who != 'P':
                    stats['child_connects'] += 1
                if res['creator'] != r['pid']:
                    findings.append(('foreign-connect', '%s pool.connect() returned %s created by process %s'
                                     % (who, _nm(res['con']), labels.get(res['creator'], res['creator']))))
                elif res['closed']:
                    findings.append(('pool-op-failed', '%s pool.connect() returned closed connection %s' % (who, _nm(res['con']))))
                elif case['pool'] == 'oracle':
                    # the SessionPool the connection came from must have been created in this process
                    op = res['owner_pool'] or ''
                    if not op.startswith('spool%d.' % r['pid']):
                        findings.append(('foreign-connect', '%s OraPool.connect() acquired from session pool %s of another process'
                                         % (who, _nm(op))))
            elif r['op'] == 'fork':
                stats['forks'] += 1
                sub = r['sub']
                if sub.get('harness_timeout') or sub.get('watchdog'):
                    raise Unjudgeable('%s: timeout' % r['sub_who'])
                if sub.get('crash'):
                    raise HarnessBug('%s crashed: %s' % (r['sub_who'], sub['crash']))
                labels[sub['pid']] = r['sub_who']
                for e in sub['events']:
                    _pool_event(e, r['sub_who'])
                walk(sub, r['sub_who'], pool_objs)

    def _nm(ident):
        import re
        return re.sub(r'(con|spool)(\d+)\.', lambda m: m.group(1) + '@' + str(labels.get(int(m.group(2)), '?')) + '#', ident or '')

    def _pool_event(e, who):
        if e['pid'] == e['creator']:
            return
        if e['op'] == 'finalize':
            if e['kind'] == 'con' and case['pool'] == 'oracle':
                return     # OraPool keeps no reference to handed-out connections; the harness dropped its own
            findings.append(('foreign-finalize', '%s let %s (created by process %s) be garbage-collected: a real driver '
                             'closes the inherited socket there' % (who, _nm(e['obj']), labels.get(e['creator'], e['creator']))))
        else:
            findings.append(('foreign-call-' + e['op'], '%s called %s() on %s created by process %s'
                             % (who, e['op'], _nm(e['obj']), labels.get(e['creator'], e['creator']))))

    walk(obs, 'P', {})
    # order: identity problems first, then foreign calls
    prio = {'foreign-connect': 0}
    findings.sort(key=lambda f: prio.get(f[0], 1))
    return findings, stats
