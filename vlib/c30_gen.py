"""C30 generators: caller scopes, `$`-expressions of every accepted form, raw SQL texts assembled by construction.

Everything is drawn from hypothesis strategies.  Nothing here looks at Pony's scanner: an expression is built
together with the scope it navigates, so it is a valid Python expression whose value is an int or a str, and the
text that follows it is chosen so that it cannot belong to the expression:

  * after `$expr;`  anything may follow (the `;` is the documented explicit terminator);
  * after `$expr`   the next piece is the end of the text, another `$...`, or literal text that starts (after
    optional white space) with a character that cannot continue a Python primary: not `;` `.`+identifier `(` `[`,
    and not an identifier character glued to the expression.
"""
from hypothesis import strategies as st

INTS = [0, 1, 2, 3, 5, 7, -1, 2 ** 40]
STRS = ['ab', 'abt', u'\xe9', u'\xe9t', "q'", 'x%', 'x%%', 'x$', 'A b', u'中', 'a\nb', '']
NAMES = ['a', 'b', 'v', 's', 'x1', '_t', 'obj', 'd', 'f', 'g', 'Long_name2', u'v\xe9', 'lst']
ATTRS = ['b', 'c', 'name', 'x_1', 'real_', u'n\xe9']
KEYS = ['k', 'a]', "it's", 'q"', '%', '%%', '$', 'x)', '(', u'\xe9', 0, 1, -1, 'p1']

int_leaf = st.builds(lambda v: {'k': 'int', 'v': v}, st.sampled_from(INTS))
str_leaf = st.builds(lambda v: {'k': 'str', 'v': v}, st.sampled_from(STRS))
leaf = st.one_of(int_leaf, str_leaf)
func_leaf = st.sampled_from([{'k': 'func', 'mode': 'join'}, {'k': 'func', 'mode': 'first'}])


def _extend(children):
    return st.one_of(
        st.builds(lambda attrs: {'k': 'obj', 'attrs': attrs},
                  st.dictionaries(st.sampled_from(ATTRS), children, min_size=1, max_size=3)),
        st.builds(lambda items: {'k': 'dict', 'items': [[k, v] for k, v in items.items()]},
                  st.dictionaries(st.sampled_from(KEYS), children, min_size=1, max_size=3)),
        st.builds(lambda items: {'k': 'list', 'items': items}, st.lists(children, min_size=1, max_size=3)),
        st.builds(lambda r: {'k': 'func', 'mode': 'ret', 'ret': r}, children),
    )


vspec = st.one_of(leaf, func_leaf, st.recursive(leaf, _extend, max_leaves=5))


@st.composite
def scopes(draw):
    """{'globals': {name: spec}, 'locals': {name: spec}}; `v` (int) and `s` (str) always resolve"""
    l = draw(st.dictionaries(st.sampled_from(NAMES), vspec, min_size=1, max_size=5))
    g = draw(st.dictionaries(st.sampled_from(NAMES), vspec, min_size=1, max_size=5))
    for name, strat in (('v', int_leaf), ('s', str_leaf)):
        if draw(st.booleans()):
            l[name] = draw(strat)              # possibly shadowing a global of another kind
        else:
            g[name] = draw(strat)
            l.pop(name, None)                  # a local would shadow it
    return {'globals': g, 'locals': l}


# ---------------------------------------------------------------------------------------------------
# paths to int/str leaves
# ---------------------------------------------------------------------------------------------------
def _paths(spec, depth=0):
    k = spec['k']
    if k in ('int', 'str'):
        return [([], k)]
    out = []
    if depth > 5:
        return out
    if k == 'obj':
        for a in sorted(spec['attrs']):
            out.extend(([('attr', a)] + p, t) for p, t in _paths(spec['attrs'][a], depth + 1))
    elif k == 'dict':
        for key, sub in spec['items']:
            out.extend(([('key', key)] + p, t) for p, t in _paths(sub, depth + 1))
    elif k == 'list':
        n = len(spec['items'])
        for i, sub in enumerate(spec['items']):
            out.extend(([('idx', i, n)] + p, t) for p, t in _paths(sub, depth + 1))
    elif k == 'func':
        if spec['mode'] == 'join':
            out.append(([('call',)], 'str'))
        elif spec['mode'] == 'first':
            out.append(([('callfirst', 'int')], 'int'))
            out.append(([('callfirst', 'str')], 'str'))
        else:
            out.extend(([('call',)] + p, t) for p, t in _paths(spec['ret'], depth + 1))
    return out


def effective(scope):
    eff = dict(scope['globals'])
    eff.update(scope['locals'])
    return eff


def all_paths(scope):
    out = []
    eff = effective(scope)
    for name in sorted(eff):
        out.extend((name, p, t) for p, t in _paths(eff[name]))
    return out


# Python literal sources used as call arguments / subscripts: strings holding brackets, quotes, `$`, `%`, `;`
STR_ARGS = ["'x)'", '"(["', "'it\\'s'", '"q\\"("', "'''t'r)'''", "'$'", "'$x'", "'$$'", "'a;b'", "';'",
            u"'\xe9'", "')'", '"]"', "'[('", "''", "'a b'", "'--'", "'?'", "':1'"]
PCT_ARGS = ["'%'", "'%%d'", "'100%'", "'%s'"]
OTHER_ARGS = ['[1]', '[1, [2]]', "['x]']", '(1, 2)', "{'k': ')'}", '1', '-1', 'None', 'v', 's', '[]', '()',
              "[')', '(']", 'len("(")']
KW_ARGS = ['k=1', "key=')'", '*[1]', "**{'z': '('}"]


def _key_src(draw, key):
    if isinstance(key, int):
        return draw(st.sampled_from([repr(key), ' %r ' % key]))
    forms = [repr(key)]
    if '"' not in key and '\\' not in key:
        forms.append('"%s"' % key)
    if "'" not in key and '\\' not in key:
        forms.append("'%s'" % key)
    return draw(st.sampled_from(forms))


def _args(draw, first=None, pct=True):
    pool = STR_ARGS + OTHER_ARGS + (PCT_ARGS if pct else [])
    args = draw(st.lists(st.sampled_from(pool), min_size=0, max_size=3))
    if first is not None:
        args.insert(0, first)
    if draw(st.integers(0, 4)) == 0:
        args.append(draw(st.sampled_from(KW_ARGS)))
    sep = draw(st.sampled_from([', ', ',', ' , ', ',\n ']))
    return sep.join(args)


INT_TRAILERS = ['', '', '', '.real', '.numerator', '.__add__(1)', '.__mul__(2)', '.real.real']
STR_TRAILERS = ['', '', '', '.upper()', '.strip()', ".strip('x)')", '.replace("(", "[")', '[0:2]', '[::-1]',
                ".__add__('t')", '.lower().upper()', ".split(')')[0]", '.encode("utf8").decode("utf8")']
STR_TRAILERS_PCT = [".__add__('%')", ".replace('%', '%%')", ".strip('%')"]


@st.composite
def path_expr(draw, scope, want=None, pct=True, trailers=True):
    """-> (src, type): NAME (.attr | [key] | (args))* to an int/str leaf, plus an optional method/slice trailer"""
    cands = [c for c in all_paths(scope) if want is None or c[2] == want]
    name, steps, t = draw(st.sampled_from(cands))
    src = name
    for step in steps:
        if step[0] == 'attr':
            src += '.' + step[1]
        elif step[0] == 'key':
            src += '[' + _key_src(draw, step[1]) + ']'
        elif step[0] == 'idx':
            i, n = step[1], step[2]
            src += '[%d]' % draw(st.sampled_from([i, i - n]))
        elif step[0] == 'call':
            src += '(' + _args(draw, pct=pct) + ')'
        elif step[0] == 'callfirst':
            if step[1] == 'int':
                first = draw(st.sampled_from(['1', '7', '-1', 'len("))")', 'v', '[3][0]']))
            else:
                first = draw(st.sampled_from(STR_ARGS + (PCT_ARGS if pct else []) + ['s']))
            src += '(' + _args(draw, first=first, pct=pct) + ')'
    if trailers:
        if t == 'int':
            src += draw(st.sampled_from(INT_TRAILERS))
        else:
            src += draw(st.sampled_from(STR_TRAILERS + (STR_TRAILERS_PCT if pct else [])))
    return src, t


INT_TEMPLATES = ['{A} + {B}', '{A}+{B}', '{A} * 2', '{A} - 1', '-{A}', '{A} if {B} else 0', '({A} + 1) * 2',
                 '[{A}, {B}][1]', "{{'k': {A}}}['k']", 'len({S})', '{A} +\n {B}', 'max({A}, {B})',
                 "len(')') + {A}", '{A}', ' {A} ', 'int("7") + {A}', '{A} // 2', 'len([{A}, "]"])']
INT_TEMPLATES_PCT = ['{A} % 3', "len('%') + {A}", '{A} %3']
STR_TEMPLATES = ["{S} + 't'", '{S}+{T}', '{S} * 2', "{S} + ')'", '{S} + "("', "', '.join([{S}, {T}])",
                 'str({A})', '{S}[0:1]', '{S} +\n{T}', '{S}', '{S} or "x"', "{S} + '$'", "({S} + ';')",
                 "{S} + '''q'\"'''"]
STR_TEMPLATES_PCT = ["'%s' % {S}", "{S} + '%'", "'%d%%' % {A}", "{S} + '%%'"]
BUILTIN_INT = ['len({S})', 'max({A}, {B})', 'min({A}, 7)', 'abs({A})', "len(')')", 'int({A})', 'len([{A}, {B}])']
BUILTIN_STR = ['str({A})', 'repr({S})', 'str({S})', "str(')')", 'chr(40)', 'str({S} + {T})', 'max({S}, {T})']


def _fill(draw, scope, template, pct):
    vals = {}
    for hole, want in (('A', 'int'), ('B', 'int'), ('S', 'str'), ('T', 'str')):
        if '{' + hole + '}' in template:
            vals[hole] = draw(path_expr(scope, want=want, pct=pct))[0]
    return template.format(**vals)


@st.composite
def exprs(draw, scope, want=None, pct=True):
    """-> ['expr', src, semi], type.  Forms: path (name / attribute chain / call / subscript), parenthesised
    expression with optional trailer, builtin call."""
    form = draw(st.sampled_from(['path', 'path', 'name', 'paren', 'paren', 'builtin']))
    t = want or draw(st.sampled_from(['int', 'str']))
    if form == 'name':
        src = 'v' if t == 'int' else 's'
    elif form == 'path':
        src, t = draw(path_expr(scope, want=t, pct=pct))
    elif form == 'paren':
        pool = (INT_TEMPLATES + (INT_TEMPLATES_PCT if pct else [])) if t == 'int' else \
               (STR_TEMPLATES + (STR_TEMPLATES_PCT if pct else []))
        src = '(' + _fill(draw, scope, draw(st.sampled_from(pool)), pct) + ')'
        src += draw(st.sampled_from(['', '', '.real', '.__add__(1)'] if t == 'int' else
                                    ['', '', '.upper()', '[0:2]', ".__add__(')')"]))
    else:
        src = _fill(draw, scope, draw(st.sampled_from(BUILTIN_INT if t == 'int' else BUILTIN_STR)), pct)
    semi = draw(st.integers(0, 3)) == 0
    return ['expr', src, semi], t


# ---------------------------------------------------------------------------------------------------
# literal text
# ---------------------------------------------------------------------------------------------------
LIT_ALPHABET = list(u"abzAZ_019 \n\t%%'\"()[].;,?:=-*/\\+<>|&!@#{}~^`\xe9Ж中€\U0001F600")
WORDS = ['select ', ' from T where ', ' and ', ' or ', '%s', '%(p1)s', '%%s', '%%', '%', '%d', ':1', ':p1', '?',
         " like 'a%' ", " like 'a%%' ", ' % 2', ' %% 2', '-- c\n', '/* c */', "''", '"c"', '.x', '(1)', '[0]', ';',
         ' ;', 'x', '1', u'\xe9', '\n', '\r\n', '%%%', '100%', "'%'", '%)s', '%(']
lits = st.one_of(st.text(alphabet=st.sampled_from(LIT_ALPHABET), max_size=8), st.sampled_from(WORDS),
                 st.sampled_from(WORDS))

WS = ['', '', ' ', '\n', '\t', '  ', '\r\n', ' \n ']
HARD_SYM = [',', ')', ']', "'", '"', '=', '%', '%%', '+', '-', '*', '/', '|', '||', '<', '>', '!', '?', ':', '::int',
            '{', '}', '@', '#', '&', '~', '^', '`', '\\', u'€', u'→', '.5', '..', './', '.)', '.,', ".'",
            '. 5', '.\n,', '--', '/*', '% 2', '%s', '%(p1)s']
HARD_WORD = ['and', 'or', 'x', '1', '_', u'\xe9', 'AS c', 'is null']


@st.composite
def safe_follow(draw):
    """literal text that terminates a preceding `$expr` (no `;`) whatever comes after it"""
    ws = draw(st.sampled_from(WS))
    if ws and draw(st.booleans()):
        return ws + draw(st.sampled_from(HARD_WORD))
    return ws + draw(st.sampled_from(HARD_SYM))


@st.composite
def texts(draw, scope, max_parts=7, pct=True, must_expr=False):
    """a raw SQL text as a list of parts, plus nothing else; by construction see module docstring"""
    parts = []
    n = draw(st.one_of(st.integers(0, max_parts), st.integers(2, max_parts)))
    open_expr = False          # previous part is an expression without ';'
    kinds = st.sampled_from(['lit', 'lit', 'lit', 'expr', 'expr', 'expr', 'dd'])
    for _ in range(n):
        kind = draw(kinds)
        if kind == 'lit':
            t = draw(lits)
            if open_expr:
                t = draw(safe_follow()) + t
            if not t:
                continue
            parts.append(['lit', t])
            open_expr = False
        elif kind == 'dd':
            parts.append(['dd'])
            open_expr = False
        else:
            e, _ = draw(exprs(scope, pct=pct))
            parts.append(e)
            open_expr = not e[2]
    if must_expr and not any(p[0] == 'expr' for p in parts):
        e, _ = draw(exprs(scope, pct=pct))
        parts.append(e)
    return parts


# ---------------------------------------------------------------------------------------------------
# `%` variants (history property)
# ---------------------------------------------------------------------------------------------------
def double_pct(parts, everywhere):
    out = []
    for p in parts:
        if p[0] == 'lit':
            out.append(['lit', p[1].replace('%', '%%')])
        elif p[0] == 'expr' and everywhere:
            out.append(['expr', p[1].replace('%', '%%'), p[2]])
        else:
            out.append(list(p))
    return out


def has_pct(parts):
    return any(p[0] in ('lit', 'expr') and '%' in p[1] for p in parts)


# ---------------------------------------------------------------------------------------------------
# adapted-text-as-source chains (history property): statement B whose SOURCE is statement A's ADAPTED text
# ---------------------------------------------------------------------------------------------------
def adapted_as_source(parts, style):
    """parts of the statement whose source text is exactly the text the reference adapter produces for `parts`
    under `style` (`$$$$` -> `$$`, `$x` -> the placeholder written literally, `%` doubled where the adapter doubles
    it); None when that text is not a valid source (a lone `$` would remain)"""
    from vlib import c30_ref as R
    has_expr = any(p[0] == 'expr' for p in parts)
    double = has_expr and style in R.PERCENT_STYLES
    out = []
    n = 0
    i = 0
    while i < len(parts):
        p = parts[i]
        if p[0] == 'lit':
            out.append(['lit', p[1].replace('%', '%%') if double else p[1]])
            i += 1
        elif p[0] == 'expr':
            n += 1
            out.append(['lit', R.PLACEHOLDER[style](n)])
            i += 1
        else:
            j = i
            while j < len(parts) and parts[j][0] == 'dd':
                j += 1
            if (j - i) % 2:
                return None
            out.extend([['dd']] * ((j - i) // 2))
            i = j
    if R.assemble(out) != R.ref_adapt(parts, style)[0]:
        return None
    return out


@st.composite
def chain_texts(draw, scope):
    """a text that CHANGES when adapted (has `$$` groups of even length and/or `$`-expressions) and whose adapted text
    is again a valid source"""
    parts = []
    open_expr = False
    changed = False
    for _ in range(draw(st.integers(1, 5))):
        kind = draw(st.sampled_from(['lit', 'lit', 'expr', 'ddgroup', 'ddgroup']))
        if kind == 'lit':
            t = draw(lits)
            if open_expr:
                t = draw(safe_follow()) + t
            if not t:
                continue
            parts.append(['lit', t])
            open_expr = False
        elif kind == 'ddgroup':
            if parts and parts[-1][0] == 'dd':
                parts.append(['lit', draw(st.sampled_from([' ', "'", 'x', '%', ',']))])
            parts.extend([['dd']] * draw(st.sampled_from([2, 2, 4])))
            open_expr = False
            changed = True
        else:
            e, _ = draw(exprs(scope, pct=False))
            parts.append(e)
            open_expr = not e[2]
            changed = True
    if not changed:
        parts.extend([['dd'], ['dd']])
    return parts
