"""C21: a reading session against concurrently committing writer sessions (uses vlib.sched, design block B9).

case = {'layout': 'multi'|'shared',
        'data': {'kids': [parent choice per kid 1..4], 'links': [bitmask of tags per parent 1..2], 'vals': [ints]},
        'actors': [reader, writer, (writer)],  actor = {'session': {}, 'ops': [...], 'end': 'commit'},
                   reader may carry 'catch': True = it catches UnrepeatableReadError per operation and keeps using the session
        'schedule': [ints]}
Actor 0 is the reader (it may assign scalar attributes itself, flush and commit() in the middle of its db_session; what it
assigned counts as observed from then on); the others are writers (ordinary optimistic Pony sessions).
All ints are reduced modulo the number of candidates.

What the reader *observes* is recorded per operation as [key, value] pairs:
  ['a', entity, pk, attr]          -> value of a scalar / reference attribute (reference = pk or None)
  ['len', entity, pk, coll]        -> len(obj.coll)           (loads the collection completely)
  ['set', entity, pk, coll]        -> sorted pks of set(obj.coll)  (loads the collection completely)
  ['count'|'empty'|'bool', entity, pk, coll], ['in', entity, pk, coll, item_pk]
The oracle compares every later observation with the first one (see `judge`).
"""
import os, shutil
from vlib import sched

P_ATTRS = ['name', 'n', 'f', 'v']            # v is volatile (exempt)
K_ATTRS = ['p', 'n', 's']
T_ATTRS = ['name']
ENT_ATTRS = {'P': P_ATTRS, 'K': K_ATTRS, 'T': T_ATTRS}
VOLATILE = {('P', 'v')}
COLLS = [('P', 'kids', 'K'), ('P', 'tags', 'T'), ('T', 'ps', 'P')]
O2M = {('P', 'kids'), ('Q', 'kids2')}
ALL_COLLS = COLLS + [('Q', 'kids2', 'K')]       # COLLS stays as it is: stored cases index it modulo its length
REFS = {'p': ('P', 'kids'), 'q': ('Q', 'kids2')}
PKS = {'P': [1, 2, 3], 'K': [1, 2, 3, 4, 5], 'T': [1, 2, 3], 'Q': [1, 2]}
STRS = ['a', 'b', 'c', 'd']
FLOATS = [0.5, 1.5, 2.25, 3.0]


def define(db):
    from pony.orm import PrimaryKey, Required, Optional, Set

    class P(db.Entity):
        id = PrimaryKey(int)
        name = Required(str)
        n = Required(int)
        f = Required(float)
        v = Required(int, volatile=True)
        kids = Set('K')
        tags = Set('T')

    class Q(db.Entity):          # a second, independent owner of children
        id = PrimaryKey(int)
        kids2 = Set('K')

    class K(db.Entity):
        id = PrimaryKey(int)
        p = Optional(P)
        n = Required(int)
        s = Required(str)
        q = Optional(Q)          # second to-one reference, declared (and therefore applied on reload) after p

    class T(db.Entity):
        id = PrimaryKey(int)
        name = Required(str)
        ps = Set(P)
    return {'P': P, 'K': K, 'T': T, 'Q': Q}


class Env(object):
    def __init__(self, workdir):
        self.workdir = workdir
        self.worlds = {}

    def world(self, layout):
        w = self.worlds.get(layout)
        if w is None:
            fn = os.path.join(self.workdir, 'c21_%s.sqlite' % layout)
            w = self.worlds[layout] = sched.World(fn, 3, layout, define)
            w.link_table = w.classes(0)['P'].tags.table
            w.link_cols = (w.classes(0)['T'].ps.columns[0], w.classes(0)['P'].tags.columns[0])
        return w

    def close(self):
        for w in self.worlds.values():
            w.close()
        self.worlds = {}


def _val(vals, i, mod):
    return (vals[i] if i < len(vals) else 0) % mod


def reset_data(world, data):
    mon = world.monitor()
    vals = data.get('vals', [])
    kids = data.get('kids', [])
    links = data.get('links', [])
    lt = world.link_table
    pcol, tcol = world.link_cols       # column holding the P pk, column holding the T pk
    mon.execute('BEGIN IMMEDIATE')
    mon.execute('DELETE FROM "%s"' % lt)
    mon.execute('DELETE FROM "K"')
    mon.execute('DELETE FROM "Q"')
    mon.execute('DELETE FROM "T"')
    mon.execute('DELETE FROM "P"')
    for i, pk in enumerate(PKS['P']):
        mon.execute('INSERT INTO "P"("id", "name", "n", "f", "v") VALUES (?, ?, ?, ?, ?)',
                    [pk, STRS[_val(vals, i % 2, 4)], _val(vals, 2 + i % 2, 4), FLOATS[_val(vals, 4 + i % 2, 4)], _val(vals, 6 + i % 2, 4)])
    for i, pk in enumerate(PKS['T']):
        mon.execute('INSERT INTO "T"("id", "name") VALUES (?, ?)', [pk, STRS[_val(vals, 8 + i, 4)]])
    for pk in PKS['Q']:
        mon.execute('INSERT INTO "Q"("id") VALUES (?)', [pk])
    kq = data.get('kq', [])            # optional: second owner per child (absent = NULL)
    for i, pk in enumerate(PKS['K'][:4]):
        par = [1, 1, 2, None, 3, 3][(kids[i] if i < len(kids) else 0) % 6]
        par2 = [None, 1, 2][kq[i] % 3] if i < len(kq) else None
        mon.execute('INSERT INTO "K"("id", "p", "n", "s", "q") VALUES (?, ?, ?, ?, ?)',
                    [pk, par, _val(vals, 11 + i, 4), STRS[_val(vals, 15 + i, 4)], par2])
    for i, ppk in enumerate(PKS['P']):
        mask = links[i] if i < len(links) else 0
        for j, tpk in enumerate(PKS['T']):
            if mask >> j & 1:
                mon.execute('INSERT INTO "%s"("%s", "%s") VALUES (?, ?)' % (lt, pcol, tcol), [ppk, tpk])
    mon.execute('COMMIT')


def snapshot_fn(world):
    mon = world.monitor()
    lt = world.link_table
    pcol, tcol = world.link_cols

    def snapshot():
        snap = {'P': {}, 'K': {}, 'T': {}, 'links': set()}
        for row in mon.execute('SELECT "id", "name", "n", "f", "v" FROM "P"').fetchall():
            snap['P'][row[0]] = {'name': row[1], 'n': row[2], 'f': row[3], 'v': row[4]}
        for row in mon.execute('SELECT "id", "p", "n", "s", "q" FROM "K"').fetchall():
            snap['K'][row[0]] = {'p': row[1], 'n': row[2], 's': row[3], 'q': row[4]}
        for row in mon.execute('SELECT "id", "name" FROM "T"').fetchall():
            snap['T'][row[0]] = {'name': row[1]}
        for row in mon.execute('SELECT "%s", "%s" FROM "%s"' % (pcol, tcol, lt)).fetchall():
            snap['links'].add((row[0], row[1]))
        return snap
    return snapshot


def committed_value(snap, key):
    """what the committed database says about an observation key (None = not expressible / row missing)"""
    kind = key[0]
    if kind == 'a':
        _, ent, pk, attr = key
        row = snap[ent].get(pk)
        return ('row', None) if row is None else ('row', row[attr])
    ent, pk, coll = key[1], key[2], key[3]
    if (ent, coll) == ('P', 'kids'):
        items = sorted(k for k, row in snap['K'].items() if row['p'] == pk)
    elif (ent, coll) == ('Q', 'kids2'):
        items = sorted(k for k, row in snap['K'].items() if row['q'] == pk)
    elif (ent, coll) == ('P', 'tags'):
        items = sorted(t for (p, t) in snap['links'] if p == pk)
    else:
        items = sorted(p for (p, t) in snap['links'] if t == pk)
    return ('items', tuple(items))


# ---------------------------------------------------------------------------------------------------------------------
# operations
# ---------------------------------------------------------------------------------------------------------------------

READER_OPS = ['attr', 'attr', 'len', 'iter', 'count', 'in', 'empty', 'bool', 'cload', 'query', 'query', 'todict', 'reread', 'load',
              'wattr', 'commit', 'attr', 'query', 'q']
WRITABLE = {'P': ['name', 'n', 'f', 'v'], 'K': ['n', 's'], 'T': ['name']}      # scalar attributes the reading session may assign
QUERY_KINDS = ['all_K', 'all_P', 'all_T', 'kids_of', 'coll_select', 'prefetch_kids', 'prefetch_tags', 'prefetch_p', 'pairs',
               'get_K', 'index_K', 'kids_n', 'tags_of', 'prefetch_ps',
               # lookups that are (mostly) answered from the session cache, and queries filtering on another attribute
               'get_P', 'index_P', 'get_T', 'index_T', 'filter_K', 'filter_P', 'get_K_kw', 'get_P_kw']
LOOKUP_KINDS = {'K': ['get_K', 'index_K', 'filter_K', 'get_K_kw', 'kids_n'], 'P': ['get_P', 'index_P', 'filter_P', 'get_P_kw'],
                'T': ['get_T', 'index_T']}


def _jsonval(v):
    if v is None or isinstance(v, (int, float, str, bool)):
        return v
    return v.id          # an entity instance


def _get(st, ent, pk):
    o = st.objs.get((ent, pk))
    if o is None:
        o = st.objs[(ent, pk)] = st.classes[ent][pk]
    return o


def _remember(st, obj):
    if obj is not None:
        st.objs.setdefault((type(obj).__name__, obj.id), obj)


def _observe_attr(st, ent, pk, attr, out):
    o = _get(st, ent, pk)
    v = getattr(o, attr)
    if attr in ('p', 'q'):
        _remember(st, v)
    out.append([['a', ent, pk, attr], _jsonval(v)])


def _observe_coll(st, how, ent, pk, coll, out, item=None):
    o = _get(st, ent, pk)
    c = getattr(o, coll)
    if how == 'len':
        out.append([['len', ent, pk, coll], len(c)])
    elif how == 'iter':
        items = list(c)
        for it in items:
            _remember(st, it)
        out.append([['set', ent, pk, coll], sorted(it.id for it in items)])
    elif how == 'count':
        out.append([['count', ent, pk, coll], c.count()])
    elif how == 'empty':
        out.append([['empty', ent, pk, coll], c.is_empty()])
    elif how == 'bool':
        out.append([['bool', ent, pk, coll], bool(c)])
    elif how == 'in':
        target = [x for x in ALL_COLLS if (x[0], x[1]) == (ent, coll)][0][2]
        it = _get(st, target, item)
        out.append([['in', ent, pk, coll, item], it in c])
    elif how == 'cload':
        c.load()


def make_reader_exec(case):
    def exec_op(st, op):
        from pony.orm import select
        P, K, T = st.classes['P'], st.classes['K'], st.classes['T']
        name = op[0]
        out = []
        st.data['cur_out'] = out
        rec = {'op': name, 'obs': out}
        n_q = st.data.setdefault('nq', [0])
        if name == 'attr':
            ent = ['P', 'K', 'T', 'K'][op[1] % 4]
            pk = PKS[ent][op[2] % len(PKS[ent])]
            attr = ENT_ATTRS[ent][op[3] % len(ENT_ATTRS[ent])]
            _observe_attr(st, ent, pk, attr, out)
        elif name in ('len', 'iter', 'count', 'empty', 'bool', 'cload', 'in'):
            ent, coll, target = COLLS[op[1] % len(COLLS)]
            pk = PKS[ent][op[2] % len(PKS[ent])]
            item = PKS[target][op[3] % len(PKS[target])] if len(op) > 3 else PKS[target][0]
            _observe_coll(st, name, ent, pk, coll, out, item)
        elif name == 'todict':
            ent = ['P', 'K', 'T'][op[1] % 3]
            pk = PKS[ent][op[2] % len(PKS[ent])]
            d = _get(st, ent, pk).to_dict()
            for attr in ENT_ATTRS[ent]:
                out.append([['a', ent, pk, attr], d[attr]])
        elif name == 'load':
            ent = ['P', 'K', 'T'][op[1] % 3]
            pk = PKS[ent][op[2] % len(PKS[ent])]
            _get(st, ent, pk).load()
        elif name == 'q':
            # the second reference: ['q', how, index, item]  how: 0 read K.q, 1 iterate Q.kids2, 2 len, 3 in, 4 count
            how = op[1] % 5
            if how == 0:
                _observe_attr(st, 'K', PKS['K'][op[2] % 4], 'q', out)
            else:
                _observe_coll(st, ['iter', 'len', 'in', 'count'][how - 1], 'Q', PKS['Q'][op[2] % 2], 'kids2', out,
                              PKS['K'][(op[3] if len(op) > 3 else 0) % 4])
        elif name == 'wattr':
            # the session assigns a scalar attribute itself: from now on that value is what it has observed
            ent = ['P', 'K', 'T'][op[1] % 3]
            pk = PKS[ent][op[2] % len(PKS[ent])]
            attrs = WRITABLE[ent]
            attr = attrs[op[3] % len(attrs)]
            vc = op[4] if len(op) > 4 else op[3] // 4
            val = {'name': STRS[vc % 4], 's': STRS[vc % 4], 'n': vc % 7, 'v': vc % 7, 'f': FLOATS[vc % 4]}[attr]
            setattr(_get(st, ent, pk), attr, val)
            rec['wrote'] = [[['a', ent, pk, attr], val]]
            seen0 = st.data.setdefault('seen', [])
            if ['a', ent, pk, attr] not in seen0:
                seen0.append(['a', ent, pk, attr])
        elif name == 'commit':                  # commit in the middle of the db_session, the session goes on
            from pony.orm import commit
            commit()
        elif name == 'flush':
            from pony.orm import flush
            flush()
        elif name == 'reread':
            # read again everything this session has observed so far (same kind of read as the first time)
            for key in list(st.data.get('seen', [])):
                if key[0] == 'a':
                    _observe_attr(st, key[1], key[2], key[3], out)
                elif key[0] in ('len', 'count', 'empty', 'bool'):
                    _observe_coll(st, key[0], key[1], key[2], key[3], out)
                elif key[0] == 'set':
                    _observe_coll(st, 'iter', key[1], key[2], key[3], out)
                elif key[0] == 'in':
                    _observe_coll(st, 'in', key[1], key[2], key[3], out, key[4])
        elif name == 'query':
            kind = QUERY_KINDS[op[1] % len(QUERY_KINDS)]
            rec['kind'] = kind
            n_q[0] += 1
            c = -n_q[0]                      # a fresh parameter value: the session's query-result cache cannot answer
            g = {'P': P, 'K': K, 'T': T}
            if kind in ('all_K', 'all_P', 'all_T'):
                ent = kind[-1]
                res = select('x for x in %s if x.id > c' % ent, g, {'c': c})[:]
            elif kind == 'kids_of':
                par = _get(st, 'P', PKS['P'][op[2] % len(PKS['P'])])
                res = select('x for x in K if x.p == par and x.id > c', g, {'c': c, 'par': par})[:]
            elif kind == 'coll_select':
                par = _get(st, 'P', PKS['P'][op[2] % len(PKS['P'])])
                res = par.kids.select()[:]
            elif kind == 'kids_n':
                par = _get(st, 'P', PKS['P'][op[2] % len(PKS['P'])])
                res = select('x for x in K if x.p == par and x.n > c', g, {'c': c, 'par': par})[:]
            elif kind == 'tags_of':
                par = _get(st, 'P', PKS['P'][op[2] % len(PKS['P'])])
                res = select('t for t in T if par in t.ps and t.id > c', g, {'c': c, 'par': par})[:]
            elif kind == 'prefetch_kids':
                res = select('x for x in P if x.id > c', g, {'c': c}).prefetch(P.kids)[:]
            elif kind == 'prefetch_tags':
                res = select('x for x in P if x.id > c', g, {'c': c}).prefetch(P.tags)[:]
            elif kind == 'prefetch_ps':
                res = select('x for x in T if x.id > c', g, {'c': c}).prefetch(T.ps)[:]
            elif kind == 'prefetch_p':
                res = select('x for x in K if x.id > c', g, {'c': c}).prefetch(K.p)[:]
            elif kind == 'pairs':
                res = [row[0] for row in select('(x, x.p) for x in K if x.id > c', g, {'c': c})[:]]
            elif kind in ('get_K', 'get_P', 'get_T'):
                ent = kind[-1]
                o = st.classes[ent].get(id=PKS[ent][op[2] % len(PKS[ent])])
                res = [] if o is None else [o]
            elif kind in ('index_K', 'index_P', 'index_T'):
                ent = kind[-1]
                res = [st.classes[ent][PKS[ent][op[2] % len(PKS[ent])]]]
            elif kind in ('filter_K', 'filter_P'):
                ent = kind[-1]
                res = select('x for x in %s if x.n > c and x.id > c' % ent, g, {'c': c})[:]
            elif kind in ('get_K_kw', 'get_P_kw'):
                # lookup by primary key plus the value the object holds for another attribute
                ent = kind[4]
                o = _get(st, ent, PKS[ent][op[2] % len(PKS[ent])])
                o2 = st.classes[ent].get(id=o.id, n=op[3] % 7)
                res = [] if o2 is None else [o2]
            else:
                raise ValueError('unknown query kind %r' % kind)
            for o in res:
                _remember(st, o)
            rec['rows'] = sorted('%s%d' % (type(o).__name__, o.id) for o in res)
        else:
            raise ValueError('unknown reader op %r' % (op,))
        seen = st.data.setdefault('seen', [])
        for key, val in out:
            if key not in seen:
                seen.append(key)
        return rec
    return exec_op


WRITER_OPS = ['setp', 'setk', 'move', 'move', 'delk', 'delp', 'delt', 'newk', 'tag', 'untag', 'sett', 'commit', 'setk', 'untag', 'move2']


def make_writer_exec(case):
    def exec_op(st, op):
        from pony.orm import commit
        P, K, T, Q = st.classes['P'], st.classes['K'], st.classes['T'], st.classes['Q']
        name = op[0]
        rec = {'op': name, 'obs': []}
        a, b, c = (list(op[1:]) + [0, 0, 0])[:3]
        if name == 'setp':
            o = P[PKS['P'][a % len(PKS['P'])]]
            attr = P_ATTRS[b % len(P_ATTRS)]
            val = {'name': STRS[c % 4], 'n': c % 7, 'f': FLOATS[c % 4], 'v': c % 7}[attr]
            setattr(o, attr, val)
        elif name == 'setk':
            o = K[PKS['K'][a % len(PKS['K'])]]
            if b % 2:
                o.n = c % 7
            else:
                o.s = STRS[c % 4]
        elif name == 'sett':
            T[PKS['T'][a % 3]].name = STRS[c % 4]
        elif name == 'move':
            o = K[PKS['K'][a % 4]]
            o.p = [P.get(id=1), P.get(id=2), None, P.get(id=3)][b % 4]
        elif name == 'move2':            # both references of one child change in the same commit: ['move2', child, p index, q index]
            o = K[PKS['K'][a % 4]]
            o.p = [P.get(id=1), P.get(id=2), None, P.get(id=3)][b % 4]
            o.q = [Q.get(id=1), Q.get(id=2), None][c % 3]
        elif name == 'delk':
            K[PKS['K'][a % 4]].delete()
        elif name == 'delp':
            P[PKS['P'][a % len(PKS['P'])]].delete()
        elif name == 'delt':
            T[PKS['T'][a % 3]].delete()
        elif name == 'newk':
            K(id=5, p=[P.get(id=1), P.get(id=2), None, P.get(id=3)][b % 4], n=c % 7, s=STRS[c % 4])
        elif name == 'tag':
            P[PKS['P'][a % len(PKS['P'])]].tags.add(T[PKS['T'][b % 3]])
        elif name == 'untag':
            P[PKS['P'][a % len(PKS['P'])]].tags.remove(T[PKS['T'][b % 3]])
        elif name == 'commit':
            commit()
        else:
            raise ValueError('unknown writer op %r' % (op,))
        return rec
    return exec_op


def make_exec(case):
    reader = make_reader_exec(case)
    writer = make_writer_exec(case)

    def exec_op(st, op):
        if st.idx != 0:
            return writer(st, op)
        if not st.spec.get('catch'):
            return reader(st, op)
        # the application catches the loud error and keeps using its db_session
        try:
            return reader(st, op)
        except Exception as e:
            if type(e).__name__ != 'UnrepeatableReadError':
                raise
            out = st.data.get('cur_out') or []
            seen = st.data.setdefault('seen', [])
            for key, val in out:
                if key not in seen:
                    seen.append(key)
            return {'op': op[0], 'obs': out, 'caught': str(e)[:160]}
    return exec_op


# ---------------------------------------------------------------------------------------------------------------------
# oracle
# ---------------------------------------------------------------------------------------------------------------------

def fmt_trace(case, events):
    out = []
    for ev in events:
        i = ev['actor']
        ops = case['actors'][i]['ops']
        op = ops[ev['op']] if ev['op'] < len(ops) else ['end']
        who = 'reader' if i == 0 else 'writer%d' % i
        if ev['outcome'] == 'ok':
            v = ev['value']
            r = ''
            if isinstance(v, dict):
                r = ' '.join(filter(None, [v.get('kind', ''), 'CAUGHT UnrepeatableReadError: %s' % v['caught'] if v.get('caught') else '',
                                           'rows=%s' % v['rows'] if 'rows' in v else '',
                                           'observed=%s' % v['obs'] if v.get('obs') else '']))
            elif ev['before'] != ev['after']:
                r = 'COMMITTED'
        elif ev['outcome'] == 'raised':
            r = 'RAISED %s: %s' % (type(ev['error']).__name__, str(ev['error'])[:140])
        else:
            r = 'BLOCKED on ' + ev['lock']
        if ev['outcome'] == 'ok' and isinstance(ev.get('value'), dict) and ev['before'] != ev['after']:
            r += ' COMMITTED'
        out.append('#%d %s %s -> %s' % (ev['step'], who, op, r))
    return '\n    '.join(out)


class Verdict(object):
    def __init__(self):
        self.message = None
        self.tag = None
        self.classes = set()
        self.nontrivial = False


def ctag(rel, how, st=None):
    tag = '%s-collection-%s' % ('o2m' if rel == 'one-to-many' else 'm2m', how)
    if rel == 'one-to-many' and st is not None and st.get('first') == 'set':
        tag += '-after-iteration'      # iteration marks the items' reference attribute as read: a different mechanism
    return tag


INTERNAL = ('AssertionError', 'KeyError', 'AttributeError', 'IndexError', 'TypeError', 'ValueError', 'RuntimeError')


def judge(case, events, states):
    v = Verdict()
    first_attr = {}       # (ent, pk, attr) -> (step, value)
    coll = {}             # (ent, pk, coll) -> {'step', 'size', 'items'}   (exists once completely loaded AND observed)
    first_seen_step = {}  # observation key (tuple) -> step of the first observation
    reobserved = []       # (key, step)
    own_written = {}      # key -> step of the session's own last assignment
    pinned_p = {}         # reference name -> child pk -> (step, owner pk or None): the session has seen the child's reference
    kids_seen = {}        # reference name -> owner pk -> (step, set of child pks): the session has iterated the collection
    reader_fail = None

    def fail(tag, msg):
        if v.message is None:
            v.tag = tag
            v.message = '[%s] %s\n  history:\n    %s' % (tag, msg, fmt_trace(case, events))

    for ev in events:
        if ev['actor'] != 0:
            continue
        spec = case['actors'][0]
        is_end = ev['op'] >= len(spec['ops'])
        if ev['outcome'] == 'raised':
            e = ev['error']
            en = type(e).__name__
            reader_fail = (ev['step'], en)
            if en == 'UnrepeatableReadError':
                v.classes.add('unrepeatable')
            elif sched.is_lock_error(e):
                v.classes.add('lock_error')
            elif en in INTERNAL and sched.raised_inside_pony(e) and not is_end:
                op = spec['ops'][ev['op']]
                fail('internal-error', 'the reader\'s operation %r, which reads data the session may already have observed, raised '
                     '%s(%s) from inside Pony instead of returning the same values or a repeatable-read error'
                     % (op, en, str(e)[:200]))
            else:
                v.classes.add('fail:' + en)
            continue
        if ev['outcome'] != 'ok' or is_end:
            continue
        if ev['value'].get('caught'):
            v.classes.add('unrepeatable')
            v.classes.add('caught_and_continued')
            if reader_fail is None:
                reader_fail = (ev['step'], 'UnrepeatableReadError')
        for key, val in ev['value'].get('wrote', ()):
            v.classes.add('own_write')
            own_written[tuple(key)] = ev['step']
            first_seen_step.setdefault(tuple(key), ev['step'])
            if (key[1], key[3]) not in VOLATILE:
                first_attr[(key[1], key[2], key[3])] = (ev['step'], val)
        for key, val in ev['value']['obs']:
            tkey = tuple(key)
            # ---- both ends of the one-to-many relationship, as shown to this session, must agree
            if key[0] == 'a' and key[1] == 'K' and key[3] in REFS:
                ref = key[3]
                oent, ocoll = REFS[ref]
                for ppk, (cstep, items) in sorted(kids_seen.setdefault(ref, {}).items()):
                    if (key[2] in items) != (val == ppk):
                        fail('relationship-ends-disagree', 'K[%d].%s reads %r in step #%d, but iterating %s[%d].%s in step #%d gave %s'
                             % (key[2], ref, val, ev['step'], oent, ppk, ocoll, cstep, sorted(items)))
                pinned_p.setdefault(ref, {}).setdefault(key[2], (ev['step'], val))
            elif key[0] in ('set', 'in') and (key[1], key[3]) in O2M:
                ref = [r for r, oc in REFS.items() if oc == (key[1], key[3])][0]
                oent, ocoll = REFS[ref]
                ppk = key[2]
                for kpk, (pstep, par) in sorted(pinned_p.setdefault(ref, {}).items()):
                    if key[0] == 'in' and key[4] != kpk:
                        continue
                    shown = (kpk in val) if key[0] == 'set' else bool(val)
                    if shown != (par == ppk):
                        if par == ppk and kpk not in ev['after']['K']:
                            continue        # the child row was deleted meanwhile: the cached child is stale, not contradictory
                        fail('relationship-ends-disagree', 'K[%d].%s read %r in step #%d, but %s in step #%d'
                             % (kpk, ref, par, pstep, ('iterating %s[%d].%s gives %s' % (oent, ppk, ocoll, val)) if key[0] == 'set'
                                else ('(K[%d] in %s[%d].%s) is %r' % (kpk, oent, ppk, ocoll, val)), ev['step']))
                if key[0] == 'set':
                    kids_seen.setdefault(ref, {}).setdefault(ppk, (ev['step'], set(val)))
                    for kpk in val:
                        pinned_p[ref].setdefault(kpk, (ev['step'], ppk))      # iteration reads the children's reference
                elif val:
                    pinned_p[ref].setdefault(key[4], (ev['step'], ppk))
            if tkey in first_seen_step:
                reobserved.append((tkey, ev['step']))
            first_seen_step.setdefault(tkey, ev['step'])
            kind = key[0]
            if kind == 'a':
                _, ent, pk, attr = key
                if (ent, attr) in VOLATILE:
                    continue
                k = (ent, pk, attr)
                if k not in first_attr:
                    first_attr[k] = (ev['step'], val)
                elif first_attr[k][1] != val:
                    how = 'was assigned' if own_written.get(tkey) == first_attr[k][0] else 'read'
                    fail('attribute-changed', '%s[%d].%s %s %r in step #%d and read %r in step #%d of the same session'
                         % (ent, pk, attr, how, first_attr[k][1], first_attr[k][0], val, ev['step']))
                continue
            ent, pk, cname = key[1], key[2], key[3]
            k = (ent, pk, cname)
            st = coll.get(k)
            rel = 'one-to-many' if (ent, cname) in O2M else 'many-to-many'
            if kind in ('len', 'set'):
                v.classes.add('coll_observed')
                size = val if kind == 'len' else len(val)
                items = None if kind == 'len' else list(val)
                if st is None:
                    coll[k] = {'step': ev['step'], 'size': size, 'items': items, 'first': kind}
                    continue
                bad = st['size'] != size or (items is not None and st['items'] is not None and st['items'] != items)
                if bad:
                    if st['items'] is not None and items is not None:
                        lost, won = set(st['items']) - set(items), set(items) - set(st['items'])
                        how = 'shrank' if lost and not won else 'grew' if won and not lost else 'changed'
                    else:
                        how = 'shrank' if size < st['size'] else 'grew' if size > st['size'] else 'changed'
                    tag = ctag(rel, how, st)
                    fail(tag, 'the completely loaded %s collection %s[%d].%s was observed as %s in step #%d and as %s in step #%d '
                              'of the same session' % (rel, ent, pk, cname,
                                                       st['items'] if st['items'] is not None else 'len %d' % st['size'], st['step'],
                                                       items if items is not None else 'len %d' % size, ev['step']))
                elif st['items'] is None and items is not None:
                    st['items'] = items
            elif st is not None:
                # reads of an already completely loaded and observed collection
                if kind == 'count' and val != st['size']:
                    fail(ctag(rel, 'count-shrank' if val < st['size'] else 'count-grew'),
                         'the completely loaded %s collection %s[%d].%s had %d items in step #%d, count() returns %d in step #%d'
                         % (rel, ent, pk, cname, st['size'], st['step'], val, ev['step']))
                elif kind in ('empty', 'bool') and (val if kind == 'empty' else not val) != (st['size'] == 0):
                    fail(ctag(rel, 'shrank' if st['size'] > 0 else 'grew', st),
                         'the completely loaded %s collection %s[%d].%s had %d items in step #%d, %s returns %r in step #%d'
                         % (rel, ent, pk, cname, st['size'], st['step'], 'is_empty()' if kind == 'empty' else 'bool()', val, ev['step']))
                elif kind == 'in' and st['items'] is not None and val != (key[4] in st['items']):
                    fail(ctag(rel, 'shrank' if not val else 'grew', st),
                         'the completely loaded %s collection %s[%d].%s was %s in step #%d, (%d in it) is %r in step #%d'
                         % (rel, ent, pk, cname, st['items'], st['step'], key[4], val, ev['step']))
    # ---- non-triviality: the committed value behind an observed key changed after its first observation, and the reader
    #      came back to it (or was stopped by a repeatable-read error) afterwards
    changed_keys = {}
    for tkey, s0 in first_seen_step.items():
        if tkey[0] == 'a' and (tkey[1], tkey[3]) in VOLATILE:
            continue
        s0 = max(s0, own_written.get(tkey, s0))
        for ev in events:
            if ev['step'] > s0 and ev['actor'] != 0 and ev['before'] != ev['after'] and \
                    committed_value(ev['before'], tkey) != committed_value(ev['after'], tkey):
                changed_keys[tkey] = ev['step']
                break
    if changed_keys:
        v.classes.add('changed_after_observation')
    for tkey, s in reobserved:
        if tkey in changed_keys and s > changed_keys[tkey]:
            v.nontrivial = True
            v.classes.add('reread_after_change')
    if reader_fail is not None and reader_fail[1] == 'UnrepeatableReadError' and changed_keys and \
            reader_fail[0] > min(changed_keys.values()):
        v.nontrivial = True
    return v


def run_case(env, case):
    world = env.world(case['layout'])
    reset_data(world, case.get('data', {}))
    world.open_case(len(case['actors']))
    try:
        try:
            events, states = sched.run_sessions(world, case['actors'], make_exec(case), case['schedule'], snapshot_fn(world))
        except sched.Deadlock as d:
            return None, 'deadlock: %s' % d
    finally:
        world.close_case()
    return judge(case, events, states), events


def replay_case(case):
    d = sched.new_workdir('c21replay')
    env = Env(d)
    try:
        verdict, info = run_case(env, case)
        if verdict is None:
            return None
        return verdict.message
    finally:
        env.close()
        shutil.rmtree(d, ignore_errors=True)
