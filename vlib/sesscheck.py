"""Shared driver for the checks that run the session interpreter (C09-C16): each check enables its own invariants."""
from vlib import sessmachine, modelspec
from vlib.runner import chash


def nontrivial_default(program, stats):
    return stats.get('commits', 0) > 0 and (stats.get('op:del', 0) + stats.get('op:crem', 0) + stats.get('op:set', 0)) > 0


def make_run(prop, props, quick, thorough, weights=None, nontrivial=None, max_sessions=3, max_ops=10, spec_kw=None,
             classes_fn=None, hub_share=(1, 3), hub_weights=None):
    nontrivial = nontrivial or nontrivial_default

    def run(ctx):
        generic = sessmachine.programs(modelspec.specs(**(spec_kw or {})), max_sessions=max_sessions, max_ops=max_ops,
                                       weights=weights)
        strat = generic
        if hub_share:
            # a second program family aimed at refused deletes and cascades that fail half-way (modelspec.hub_specs)
            from hypothesis import strategies as st
            hub = sessmachine.hub_programs(weights=hub_weights, keys=(spec_kw or {}).get('keys', True))
            strat = st.one_of(*([generic] * (hub_share[1] - hub_share[0]) + [hub] * hub_share[0]))

        def t(program):
            stats = {}
            res = sessmachine.run_program(program, props, stats)
            nops = sum(len(s['ops']) for s in program['sessions'])
            classes = ['has_commit'] if stats.get('commits') else []
            for k in stats:
                if k.startswith('call_failed') or k.startswith('tx_failed'):
                    classes.append('has_failed_call')
                    break
            if stats.get('aborted'):
                ctx.inconclusive += 1
                classes.append('aborted')
            if stats.get('unexpected_refusal'):
                classes.append('unexpected_refusal')
            for k in stats:
                if k.startswith('unexpected_write_failure:'):
                    classes.append('unexpected_write_failure')
                    break
            if stats.get('delete_refused_by_model'):
                classes.append('refused_delete')
            if stats.get('delete_refused_after_partial_work'):
                classes.append('refused_delete_after_partial_cascade')
            if classes_fn:
                classes.extend(classes_fn(program, stats))
            nt = nontrivial(program, stats)
            sample = None
            if nt:
                sample = {'entities': [(e['name'], e['pk'], [s['name'] for s in e['scalars']]) for e in program['spec']['entities']],
                          'rels': [(r['kind'], r['a'], r['b']) for r in program['spec']['rels']],
                          'sessions': [[op[0] for op in s['ops']] + ['end:' + s['end']] for s in program['sessions']]}
            ctx.case(key=program, nontrivial=nt, classes=classes, sample=sample)
            for k, v in stats.items():
                if k.startswith('op:') or k.startswith('read:'):
                    ctx.count(k, v)
            if res is not None:
                p, msg = res
                if p == prop or p == 'STRICT':
                    ctx.fail(program, msg)
                else:
                    ctx.count('other_property_signal:' + p)
        ctx.run_test(t, dict(program=strat), max_examples=ctx.scale(quick, thorough), name=prop)
    return run


def make_replay(prop, props):
    def replay(case):
        res = sessmachine.run_program(case, props, {})
        if res is not None and res[0] in (prop, 'STRICT'):
            return res[1]
        return None
    return replay
