"""C06 machinery: value codec, provider worlds (live SQLite + real PG / MySQL / Oracle providers over stub drivers with a
recording mock connection), and the four judges

  judge_value  -- a Value object of a dialect rendered under a parameter style denotes the value (lexer of that dialect)
  judge_ast    -- a generated SQL AST built under the five parameter styles: placeholder alignment
  judge_query  -- a real query (constants inline, parameters bound) on a dialect: every operand reaches its column
                  comparison unchanged, the statement structure does not depend on the values; on SQLite the rows returned
                  equal Python's evaluation over the stored rows
  judge_names  -- adversarial table / column / link-table names through DDL + INSERT / UPDATE / SELECT / DELETE

Each judge returns a list of (tag, message); tags only serve the evidence classes.  The lexers, literal decoders and
driver models live in vlib/c06_lex.py and never import Pony.
"""
import os, re, sys, copy, datetime, decimal, sqlite3
from vlib import c06_lex as L

STUBS = os.path.join(os.path.dirname(os.path.abspath(__file__)), 'stubs')
QUERY_DIALECTS = ('sqlite', 'postgres', 'mysql', 'oracle')


# =====================================================================================================================
# values: JSON codec, Python source, classification
# =====================================================================================================================

def enc(v):
    if v is None:
        return {'t': 'none'}
    if isinstance(v, bool):
        return {'t': 'bool', 'v': v}
    if isinstance(v, int):
        return {'t': 'int', 'v': str(v)}
    if isinstance(v, float):
        return {'t': 'float', 'v': repr(v)}
    if isinstance(v, decimal.Decimal):
        return {'t': 'Decimal', 'v': str(v)}
    if isinstance(v, str):
        return {'t': 'str', 'v': v}
    if isinstance(v, (bytes, bytearray)):
        return {'t': 'bytes', 'v': bytes(v).hex()}
    if isinstance(v, datetime.datetime):
        return {'t': 'datetime', 'v': [v.year, v.month, v.day, v.hour, v.minute, v.second, v.microsecond]}
    if isinstance(v, datetime.date):
        return {'t': 'date', 'v': [v.year, v.month, v.day]}
    if isinstance(v, datetime.time):
        return {'t': 'time', 'v': [v.hour, v.minute, v.second, v.microsecond]}
    if isinstance(v, datetime.timedelta):
        return {'t': 'timedelta', 'v': [v.days, v.seconds, v.microseconds]}
    if isinstance(v, tuple):
        return {'t': 'tuple', 'v': [enc(x) for x in v]}
    raise TypeError(type(v))


def dec(j):
    t, v = j['t'], j.get('v')
    if t == 'none':
        return None
    if t == 'bool':
        return bool(v)
    if t == 'int':
        return int(v)
    if t == 'float':
        return float(v)
    if t == 'Decimal':
        return decimal.Decimal(v)
    if t == 'str':
        return v
    if t == 'bytes':
        return bytes(bytearray.fromhex(v))
    if t == 'datetime':
        return datetime.datetime(*v)
    if t == 'date':
        return datetime.date(*v)
    if t == 'time':
        return datetime.time(*v)
    if t == 'timedelta':
        return datetime.timedelta(days=v[0], seconds=v[1], microseconds=v[2])
    if t == 'tuple':
        return tuple(dec(x) for x in v)
    raise ValueError(t)


def src(v):
    """Python source of the constant as a program would write it inside a query"""
    if v is None or isinstance(v, (bool, int, str, bytes)):
        return repr(v)
    if isinstance(v, float):
        return repr(v)
    if isinstance(v, decimal.Decimal):
        return 'Decimal(%r)' % str(v)
    if isinstance(v, datetime.datetime):
        return 'datetime(%d, %d, %d, %d, %d, %d, %d)' % (v.year, v.month, v.day, v.hour, v.minute, v.second, v.microsecond)
    if isinstance(v, datetime.date):
        return 'date(%d, %d, %d)' % (v.year, v.month, v.day)
    if isinstance(v, datetime.time):
        return 'time(%d, %d, %d, %d)' % (v.hour, v.minute, v.second, v.microsecond)
    if isinstance(v, datetime.timedelta):
        return 'timedelta(days=%d, seconds=%d, microseconds=%d)' % (v.days, v.seconds, v.microseconds)
    raise TypeError(type(v))


QUERY_GLOBALS = {'date': datetime.date, 'time': datetime.time, 'datetime': datetime.datetime,
                 'timedelta': datetime.timedelta, 'Decimal': decimal.Decimal}

SPECIAL = set("'\"\\%_!`;?:$#-/*[]")


def is_special_text(s):
    return any(ch in SPECIAL or ord(ch) < 32 or ord(ch) > 126 for ch in s)


def is_special_value(v):
    if isinstance(v, str):
        return is_special_text(v)
    if isinstance(v, (bytes, bytearray)):
        return len(v) == 0 or any(b in (0, 39, 92, 37) or b > 127 for b in bytearray(v))
    if isinstance(v, bool) or v is None:
        return False
    if isinstance(v, int):
        return v < 0 or abs(v) >= 2 ** 31
    if isinstance(v, float):
        return v < 0 or 'e' in repr(v) or len(repr(v)) > 12
    if isinstance(v, decimal.Decimal):
        return v < 0 or 'E' in str(v) or len(str(v)) > 12
    if isinstance(v, datetime.datetime):
        return v.microsecond != 0 or v.year < 1000
    if isinstance(v, datetime.date):
        return v.year < 1000
    if isinstance(v, datetime.time):
        return True
    if isinstance(v, datetime.timedelta):
        return v.days < 0 or v.microseconds != 0 or abs(v.days) >= 1
    return False


def benign(v):
    """a harmless value of the same type (and sign / sub-second class) for the structure comparison"""
    if v is None or isinstance(v, bool):
        return v
    if isinstance(v, str):
        return 'abc'
    if isinstance(v, (bytes, bytearray)):
        return b'ab'
    if isinstance(v, int):
        return -7 if v < 0 else 7
    if isinstance(v, float):
        return -1.5 if repr(v).startswith('-') else 1.5
    if isinstance(v, decimal.Decimal):
        return decimal.Decimal('-1.5') if str(v).startswith('-') else decimal.Decimal('1.5')
    if isinstance(v, datetime.datetime):
        return datetime.datetime(2001, 2, 3, 4, 5, 6)
    if isinstance(v, datetime.date):
        return datetime.date(2001, 2, 3)
    if isinstance(v, datetime.time):
        return datetime.time(4, 5, 6)
    if isinstance(v, datetime.timedelta):
        return datetime.timedelta(seconds=5, microseconds=7 if v.microseconds else 0)
    raise TypeError(type(v))


def _short(x, n=300):
    s = x if isinstance(x, str) else repr(x)
    return s if len(s) <= n else s[:n] + '...'


# =====================================================================================================================
# providers
# =====================================================================================================================

def _stubs_on_path():
    if STUBS not in sys.path:
        sys.path.append(STUBS)          # a real driver, if one is ever installed, wins


def provider_class(dialect):
    import importlib
    if dialect == 'generic':
        from pony.orm.dbapiprovider import DBAPIProvider
        from pony.orm.sqlbuilding import SQLBuilder

        class GenericProvider(DBAPIProvider):
            dialect = 'generic'
            sqlbuilder_cls = SQLBuilder
        return GenericProvider
    if dialect != 'sqlite':
        _stubs_on_path()
    return importlib.import_module('pony.orm.dbproviders.' + dialect).provider_cls


_bare = {}


def bare_provider(dialect, style):
    """a provider object of the real class whose only difference is the DB-API parameter style (no connection)"""
    key = (dialect, style)
    p = _bare.get(key)
    if p is None:
        cls = provider_class(dialect)
        p = cls.__new__(cls)
        p.paramstyle = style
        p.json1_available = True
        p.server_version = (12, 0)
        _bare[key] = p
    return p


def value_class(dialect):
    return provider_class(dialect).sqlbuilder_cls.value_class


class _StubCursor(object):
    description = []
    rowcount = 1
    arraysize = 1
    lastrowid = 1

    def __init__(self, con):
        self.con = con
        self.row = None

    def execute(self, sql, args=None):
        self.con.log.append((sql, args))
        low = sql.lower()
        self.row = None
        if 'select version()' in low:
            self.row = ('8.0.30',)
        elif 'select database()' in low:
            self.row = ('testdb',)
        elif 'product_component_version' in low:
            self.row = ('11.2.0.2.0',)
        elif 'current_schema' in low:
            self.row = ('SCOTT',)
        elif 'returning' in low:
            self.row = (1,)

    def executemany(self, sql, args=None):
        self.con.log.append((sql, list(args)))

    def fetchone(self):
        return self.row

    def fetchall(self):
        return []

    def fetchmany(self, size=1):
        return []

    def setinputsizes(self, *args, **kwargs):
        pass

    def var(self, *args, **kwargs):
        class _Var(object):
            def getvalue(self):
                return [1]
        return _Var()

    def close(self):
        pass


class _StubConnection(object):
    autocommit = True
    server_version = 120004

    def __init__(self, log):
        self.log = log

    def cursor(self):
        return _StubCursor(self)

    def commit(self):
        pass

    def rollback(self):
        pass

    def close(self):
        pass


class _StubPool(object):
    def __init__(self, log):
        self.con = _StubConnection(log)

    def connect(self):
        return self.con, True

    def release(self, con):
        pass

    def drop(self, con):
        pass

    def disconnect(self):
        pass


def _recording_sqlite(log):
    class RecCursor(sqlite3.Cursor):
        def execute(self, sql, args=None):
            log.append((sql, args))
            if args is None:
                return sqlite3.Cursor.execute(self, sql)
            return sqlite3.Cursor.execute(self, sql, args)

        def executemany(self, sql, args):
            args = list(args)
            log.append((sql, args))
            return sqlite3.Cursor.executemany(self, sql, args)

    class RecConnection(sqlite3.Connection):
        def cursor(self, *a):
            return sqlite3.Connection.cursor(self, RecCursor)
    return RecConnection


def bind_db(db, dialect, log):
    if dialect == 'sqlite':
        db.bind('sqlite', ':memory:', factory=_recording_sqlite(log))
    else:
        db.bind(provider_class(dialect), pony_pool_mockup=_StubPool(log))


# =====================================================================================================================
# (b) one value rendered by a dialect's Value class under a parameter style
# =====================================================================================================================

def render_value(dialect, style, v):
    return str(value_class(dialect)(style, v))


def judge_value(case):
    """case = {'kind': 'value', 'dialect', 'style', 'v': enc}"""
    dialect, style, v = case['dialect'], case['style'], dec(case['v'])
    try:
        text = render_value(dialect, style, v)
    except Exception as e:
        return [('render-error', '%s: rendering the inline %s constant %r (style %s) raised %s(%s) instead of SQL text'
                 % (dialect, type(v).__name__, v, style, type(e).__name__, _short(str(e), 120)))]
    what = '%s literal %s for the %s %r (paramstyle %s)' % (dialect, _short(text, 200), type(v).__name__, v, style)
    try:
        toks = L.bind(dialect, style, text, () if style in ('qmark', 'numeric', 'format') else {})
    except L.DriverError as e:
        return [('driver', '%s does not survive the driver: %s' % (what, e))]
    us = L.units(dialect, toks)
    if len(us) != 1 or us[0].start != 0 or us[0].end != len(toks) or any(t.kind in ('bad', 'comment') for t in toks):
        return [('not-one-literal', '%s is not one literal under the dialect\'s lexical rules: it lexes as %s'
                 % (what, _short([repr(t) for t in toks], 400)))]
    why = L.denotes(dialect, us[0], v)
    if why is not None:
        return [('unmodelled' if 'not modelled' in why else 'denotation', '%s %s' % (what, why))]
    return []


# =====================================================================================================================
# (a) SQL ASTs under the five parameter styles
# =====================================================================================================================
# spec nodes (JSON): ['P', k] parameter values[k]; ['PI', k, i] item i of the tuple values[k]; ['V', enc] inline value;
# ['C', name] column; ['JSONQ', col, [path items V / P]]; ['EXISTS', cond]; ['INSEL', a, expr, cond];
# ['CASE', [[cond, expr], ...], default]; ['IN' | 'NOT_IN', a, [items]]; other heads are passed through with their operands.
# statements: ['SELECT', distinct, [exprs], [conds], [having conds], [order exprs], limit, offset]
#             ['INSERT', [cols], [operands]]; ['UPDATE', [[col, operand], ...], [conds]]; ['DELETE', [conds]]

_PASS = {'EQ', 'NE', 'LT', 'LE', 'GT', 'GE', 'ADD', 'SUB', 'MUL', 'DIV', 'MOD', 'AND', 'OR', 'NOT', 'BETWEEN', 'NOT_BETWEEN',
         'CONCAT', 'REPLACE', 'COALESCE', 'NEG', 'UPPER', 'LOWER', 'LENGTH', 'ABS', 'IS_NULL', 'IS_NOT_NULL', 'DESC', 'POW',
         'MIN', 'MAX', 'SUM', 'COUNT', 'SUBSTR', 'TO_INT', 'TO_STR'}


def _ast(node, names):
    head = node[0]
    if head == 'P':
        return ['PARAM', (node[1], None, None)]
    if head == 'PI':
        return ['PARAM', (node[1], node[2], None)]
    if head == 'V':
        return ['VALUE', dec(node[1])]
    if head == 'C':
        return ['COLUMN', names['alias'], node[1]]
    if head in ('IN', 'NOT_IN'):
        return [head, _ast(node[1], names), [_ast(x, names) for x in node[2]]]
    if head in ('LIKE', 'NOT_LIKE'):
        out = [head, _ast(node[1], names), _ast(node[2], names)]
        if node[3] is not None:
            out.append(_ast(node[3], names))
        return out
    if head == 'CASE':
        return ['CASE', None, [(_ast(c, names), _ast(e, names)) for c, e in node[1]],
                _ast(node[2], names) if node[2] is not None else None]
    if head == 'EXISTS':
        return ['EXISTS', ['FROM', [names['alias2'], 'TABLE', names['table2']]], ['WHERE', _ast(node[1], names)]]
    if head == 'INSEL':
        return ['IN', _ast(node[1], names), ['SELECT', ['ALL', _ast(node[2], names)],
                                             ['FROM', [names['alias2'], 'TABLE', names['table2']]],
                                             ['WHERE', _ast(node[3], names)]]]
    if head == 'JSONQ':
        return ['JSON_QUERY', _ast(node[1], names), [_ast(x, names) for x in node[2]]]
    if head in ('MIN', 'MAX', 'SUM', 'COUNT'):
        return [head, None] + [_ast(x, names) for x in node[1:]]
    if head in _PASS:
        return [head] + [_ast(x, names) for x in node[1:]]
    raise ValueError('unknown spec node %r' % (node,))


def build_ast(stmt, names):
    kind = stmt[0]
    t = names['table']
    if kind == 'SELECT':
        _, distinct, exprs, conds, having, order, limit, offset = stmt
        out = ['SELECT', ['DISTINCT' if distinct else 'ALL'] + [_ast(e, names) for e in exprs],
               ['FROM', [names['alias'], 'TABLE', t]]]
        if conds:
            out.append(['WHERE'] + [_ast(c, names) for c in conds])
        if having:
            out.append(['GROUP_BY', _ast(['C', names['cols'][0]], names)])
            out.append(['HAVING'] + [_ast(c, names) for c in having])
        if order:
            out.append(['ORDER_BY'] + [_ast(e, names) for e in order])
        if limit is not None:
            out.append(['LIMIT', limit] + ([offset] if offset else []))
        return out
    names = dict(names, alias=None)
    if kind == 'INSERT':
        return ['INSERT', t, list(stmt[1]), [_ast(x, names) for x in stmt[2]]]
    if kind == 'UPDATE':
        return ['UPDATE', t, [(c, _ast(x, names)) for c, x in stmt[1]], ['WHERE'] + [_ast(c, names) for c in stmt[2]]]
    if kind == 'DELETE':
        return ['DELETE', None, ['FROM', [None, 'TABLE', t]], ['WHERE'] + [_ast(c, names) for c in stmt[1]]]
    raise ValueError(kind)


def _walk(node, out):
    """reference reading order of the operands of a spec node = the order in which SQL writes them"""
    head = node[0]
    if head == 'P':
        out.append(('p', node[1], None))
    elif head == 'PI':
        out.append(('p', node[1], node[2]))
    elif head == 'V':
        out.append(('v', dec(node[1])))
    elif head == 'C':
        pass
    elif head in ('IN', 'NOT_IN'):
        _walk(node[1], out)
        start = len(out)
        for x in node[2]:
            _walk(x, out)
        out.append(('unordered', start, len(out)))      # the items of an IN list form a set: their order carries no meaning
    elif head in ('LIKE', 'NOT_LIKE'):
        _walk(node[1], out)
        _walk(node[2], out)
        if node[3] is not None:
            _walk(node[3], out)
    elif head == 'CASE':
        for c, e in node[1]:
            _walk(c, out)
            _walk(e, out)
        if node[2] is not None:
            _walk(node[2], out)
    elif head == 'EXISTS':
        _walk(node[1], out)
    elif head == 'INSEL':
        _walk(node[1], out)
        _walk(node[2], out)
        _walk(node[3], out)
    elif head == 'JSONQ':
        _walk(node[1], out)
        sub = []
        for x in node[2]:
            _walk(x, sub)
        if any(e[0] == 'p' for e in sub):
            out.append(('comp', sub))
        else:
            out.append(('path', sub))
    else:
        for x in node[1:]:
            _walk(x, out)


def reference_order(stmt):
    out = []
    kind = stmt[0]
    if kind == 'SELECT':
        for part in (stmt[2], stmt[3], stmt[4], stmt[5]):
            for x in part:
                _walk(x, out)
    elif kind == 'INSERT':
        for x in stmt[2]:
            _walk(x, out)
    elif kind == 'UPDATE':
        for c, x in stmt[1]:
            _walk(x, out)
        for x in stmt[2]:
            _walk(x, out)
    elif kind == 'DELETE':
        for x in stmt[1]:
            _walk(x, out)
    return out


def spec_idents(case):
    n = case['names']
    return [n['table'], n['table2'], n['alias'], n['alias2']] + list(n['cols'])


def spec_inline_strings(stmt):
    """strings written as VALUE operands (JSON path items are folded into one path string and are not looked for)"""
    return [e[1] for e in reference_order(stmt) if e[0] == 'v' and isinstance(e[1], str)]


def spec_all_strings(stmt):
    return spec_inline_strings(stmt) + [x[1] for e in reference_order(stmt) if e[0] in ('comp', 'path')
                                        for x in e[1] if x[0] == 'v' and isinstance(x[1], str)]


def _norm(toks):
    out = []
    for t in toks:
        if t.kind == 'ph':
            out.append(('ph',))
        elif t.kind in ('str', 'ident', 'hex', 'bits'):
            out.append((t.kind, t.value))
        else:
            out.append((t.kind, t.text))
    return out


def build_under_style(dialect, style, stmt, names, values):
    ast = build_ast(stmt, names)
    provider = bare_provider(dialect, style)
    sql, adapter = provider.ast2sql(ast)
    return sql, adapter(values)


def judge_ast(case, styles=L.STYLES):
    """case = {'kind': 'ast', 'dialect': builder, 'stmt': spec, 'names': {...}, 'values': [enc]}
    -> list of (tag, message, style)"""
    dialect, stmt, names = case['dialect'], case['stmt'], case['names']
    values = [dec(x) for x in case['values']]
    ref = reference_order(stmt)
    exp_params = []
    unordered = []           # index ranges of exp_params that belong to one IN list
    index_of = {}
    for n_ref, e in enumerate(ref):
        index_of[n_ref] = len(exp_params)
        if e[0] == 'unordered':
            a, b = index_of[e[1]], len(exp_params)
            if b - a > 1:
                unordered.append((a, b))
            continue
        if e[0] == 'p':
            v = values[e[1]]
            exp_params.append(('p', v if e[2] is None else v[e[2]], e))
        elif e[0] == 'comp':
            exp_params.append(('comp', [(x[0], values[x[1]] if x[0] == 'p' and x[2] is None else
                                        (values[x[1]][x[2]] if x[0] == 'p' else x[1])) for x in e[1]], e))
    inline_strs = spec_inline_strings(stmt)
    fails = []
    per_style = {}
    for style in styles:
        try:
            sql, args = build_under_style(dialect, style, stmt, names, values)
        except NotImplementedError:
            return [('unsupported', None, style)]
        except Exception as e:
            if type(e).__name__ == 'TranslationError':
                return [('unsupported', None, style)]
            raise
        head = '%s builder, paramstyle %s: ' % (dialect, style)
        shown = 'SQL %s with arguments %s' % (_short(sql, 500), _short(args, 300))
        # the argument container must fit the style
        if style in ('named', 'pyformat'):
            if not isinstance(args, dict):
                fails.append(('container', head + 'arguments must be a mapping, got %s' % type(args).__name__, style))
                continue
        elif not isinstance(args, (tuple, list)):
            fails.append(('container', head + 'arguments must be a sequence, got %s' % type(args).__name__, style))
            continue
        try:
            toks = L.bind(dialect, style, sql, args)
        except L.DriverError as e:
            fails.append(('driver', head + 'the driver cannot bind the statement: %s; %s' % (e, shown), style))
            continue
        bad = [t for t in toks if t.kind in ('bad', 'comment')]
        if bad:
            fails.append(('structure', head + 'the statement does not lex cleanly (%r); %s' % (bad[0], shown), style))
            continue
        bound = [t.value for t in toks if t.kind == 'ph']
        # independent anchor: the k-th placeholder in text order stands where the k-th PARAM operand stands in the AST
        if len(bound) != len(exp_params):
            fails.append(('count', head + '%d placeholders in the text, the AST has %d parameter operands; %s'
                          % (len(bound), len(exp_params), shown), style))
            continue
        # inside one IN list any order of the items is the same statement: compare those ranges as multisets
        bound_cmp = list(bound)
        for (a, z) in unordered:
            if all(x[0] == 'p' for x in exp_params[a:z]) and \
                    sorted(repr(x.value) for x in bound_cmp[a:z]) == sorted(repr(x[1]) for x in exp_params[a:z]):
                by_val = {}
                for x in bound_cmp[a:z]:
                    by_val.setdefault(repr(x.value), []).append(x)
                bound_cmp[a:z] = [by_val[repr(x[1])].pop() for x in exp_params[a:z]]
        for k, (b, (ek, ev, e)) in enumerate(zip(bound_cmp, exp_params)):
            if ek == 'p':
                if type(b.value) is not type(ev) or b.value != ev:
                    fails.append(('alignment', head + 'placeholder #%d in text order (bound through %r) receives %r, but the '
                                  'AST operand at that position is PARAM %r whose value is %r; %s'
                                  % (k + 1, b.key, b.value, e[1:], ev, shown), style))
                    break
            else:
                s = b.value
                ok = isinstance(s, str)
                pos = 0
                if ok:
                    for (xk, xv) in ev:
                        # items may be quoted / escaped by the dialect's path syntax: only their leading alphanumerics are
                        # looked for, in order
                        piece = re.match(r'[A-Za-z0-9]*', str(xv)).group(0)
                        at = s.find(piece, pos)
                        if at < 0:
                            ok = False
                            break
                        pos = at + len(piece)
                if not ok:
                    fails.append(('alignment', head + 'placeholder #%d (a JSON path composed of %r) receives %r which does not '
                                  'contain the path items in order; %s' % (k + 1, ev, s, shown), style))
                    break
        # every inline string survives quoting and the driver's %-formatting
        got_strs = [t.value for t in toks if t.kind == 'str']
        for s in inline_strs:
            if s not in got_strs:
                fails.append(('inline', head + 'the inline string %r does not reach the server: string literals seen there are '
                              '%s; %s' % (s, _short(got_strs, 300), shown), style))
                break
        per_style[style] = (_norm(toks), [b.value for b in bound], sql, args)
    base = per_style.get('qmark')
    if base is not None:
        for style in styles:
            if style == 'qmark' or style not in per_style:
                continue
            norm, vals, sql, args = per_style[style]
            if vals != base[1]:
                fails.append(('cross-style', '%s builder: under paramstyle %s the placeholders receive %s, under qmark %s; SQL %s'
                              % (dialect, style, _short(vals), _short(base[1]), _short(sql, 400)), style))
            elif norm != base[0]:
                k = 0
                while k < min(len(norm), len(base[0])) and norm[k] == base[0][k]:
                    k += 1
                fails.append(('cross-style', '%s builder: the statement under paramstyle %s differs from the qmark statement '
                              'beyond placeholders and %%%% (first difference at token %d: %r vs %r); SQL %s vs %s'
                              % (dialect, style, k, norm[k:k + 3], base[0][k:k + 3], _short(sql, 400), _short(base[2], 400)),
                              style))
    return fails


# =====================================================================================================================
# (a)(b)(c)(d) real queries
# =====================================================================================================================

COLUMNS = {'s1': 'str', 's2': 'str', 's3': 'str', 'n1': 'int', 'n2': 'int', 'f1': 'float', 'c1': 'Decimal', 'd1': 'date',
           't1': 'time', 'm1': 'datetime', 'i1': 'timedelta', 'b1': 'bytes'}
COLUMN_ORDER = ['s1', 's2', 's3', 'n1', 'n2', 'f1', 'c1', 'd1', 't1', 'm1', 'i1', 'b1']
DEFAULT_ROW = {'s1': '', 's2': '', 's3': '', 'n1': 0, 'n2': 0, 'f1': 0.0, 'c1': decimal.Decimal(0),
               'd1': datetime.date(2000, 1, 1), 't1': datetime.time(0, 0), 'm1': datetime.datetime(2000, 1, 1),
               'i1': datetime.timedelta(0), 'b1': b'x'}
LIKE_OPS = ('contains', 'not_contains', 'startswith', 'endswith')

_worlds = {}


def query_world(dialect):
    w = _worlds.get(dialect)
    if w is not None:
        return w
    from pony.orm import Database, PrimaryKey, Required, Optional
    log = []
    db = Database()

    class E(db.Entity):
        id = PrimaryKey(int)
        s1 = Optional(str, autostrip=False)
        s2 = Optional(str, autostrip=False)
        s3 = Optional(str, autostrip=False)
        n1 = Required(int, size=64)
        n2 = Required(int, size=64)
        f1 = Required(float)
        c1 = Required(decimal.Decimal, 24, 8)
        d1 = Required(datetime.date)
        t1 = Required(datetime.time)
        m1 = Required(datetime.datetime)
        i1 = Required(datetime.timedelta)
        b1 = Required(bytes)
    bind_db(db, dialect, log)
    if dialect == 'sqlite':
        db.generate_mapping(create_tables=True)
    else:
        db.generate_mapping(check_tables=False)
    w = _worlds[dialect] = {'db': db, 'E': E, 'log': log, 'dialect': dialect, 'shapes': {}}
    return w


def close_worlds():
    for w in _worlds.values():
        try:
            w['db'].disconnect()
        except Exception:
            pass
    _worlds.clear()


def _operand_src(o):
    return o['p'] if 'p' in o else src(dec(o['c']))


def _operand_val(o, vars_):
    return vars_[o['p']] if 'p' in o else dec(o['c'])


def atom_src(a):
    col = 'x.' + a['col']
    args = [_operand_src(o) for o in a['args']]
    op = a['op']
    if op == 'eq':
        return '%s == %s' % (col, args[0])
    if op == 'ne':
        return '%s != %s' % (col, args[0])
    if op == 'in':
        return '%s in (%s,)' % (col, ', '.join(args))
    if op == 'contains':
        return '%s in %s' % (args[0], col)
    if op == 'not_contains':
        return '%s not in %s' % (args[0], col)
    if op == 'startswith':
        return '%s.startswith(%s)' % (col, args[0])
    if op == 'endswith':
        return '%s.endswith(%s)' % (col, args[0])
    if op == 'mod':
        return '%s %% %s == %s' % (col, args[0], args[1])
    raise ValueError(op)


def query_source(case):
    echo = ''.join(', ' + src(dec(v)) for v in case.get('echo', []))
    head = '(x.id%s)' % echo if echo else 'x.id'
    conds = ' and '.join(atom_src(a) for a in case['atoms'])
    return '%s for x in E%s' % (head, ' if ' + conds if conds else '')


def atom_holds(a, row, vars_):
    v = row[a['col']]
    args = [_operand_val(o, vars_) for o in a['args']]
    op = a['op']
    if op == 'eq':
        return v == args[0]
    if op == 'ne':
        return v != args[0]
    if op == 'in':
        return v in args
    if op == 'contains':
        return args[0] in v
    if op == 'not_contains':
        return args[0] not in v
    if op == 'startswith':
        return v.startswith(args[0])
    if op == 'endswith':
        return v.endswith(args[0])
    if op == 'mod':
        return v % args[0] == args[1]
    raise ValueError(op)


def case_vars(case):
    return {k: dec(v) for k, v in case.get('vars', {}).items()}


def case_consts(case):
    """all values written inline by the query of the case"""
    out = [dec(v) for v in case.get('echo', [])]
    for a in case['atoms']:
        for o in a['args']:
            if 'c' in o:
                out.append(dec(o['c']))
    return out


def case_all_values(case):
    return case_consts(case) + list(case_vars(case).values())


def benign_case(case):
    """the same query with every constant and every parameter replaced by a harmless value of its type"""
    twin = copy.deepcopy(case)
    twin['echo'] = [enc(benign(dec(v))) for v in case.get('echo', [])]
    for a in twin['atoms']:
        for o in a['args']:
            if 'c' in o:
                o['c'] = enc(benign(dec(o['c'])))
    twin['vars'] = {k: enc(benign(dec(v))) for k, v in case.get('vars', {}).items()}
    twin['rows'] = []
    return twin


def _skeleton(case):
    def cls(v):
        b = benign(v)
        return src(b)
    return repr(([cls(dec(v)) for v in case.get('echo', [])],
                 [(a['col'], a['op'], [('p', o['p'], cls(dec(case['vars'][o['p']]))) if 'p' in o else ('c', cls(dec(o['c'])))
                                       for o in a['args']]) for a in case['atoms']]))


def run_query(w, case, fetch):
    """-> (sql, args, rows or None) of the SELECT Pony sent for the case"""
    from pony.orm import select, db_session
    g = dict(QUERY_GLOBALS, E=w['E'])
    text = query_source(case)
    mark = len(w['log'])
    q = select(text, g, dict(case_vars(case)))
    rows = q[:]
    sent = [(s, a) for (s, a) in w['log'][mark:] if s.lstrip().upper().startswith('SELECT')]
    if len(sent) != 1:
        raise AssertionError('expected one SELECT, saw %r' % (w['log'][mark:],))
    return sent[0][0], sent[0][1], (list(rows) if fetch else None)


def _depth0_split(toks, word):
    parts, cur, depth = [], [], 0
    for t in toks:
        if t.kind == 'op' and t.text == '(':
            depth += 1
        elif t.kind == 'op' and t.text == ')':
            depth -= 1
        if depth == 0 and t.kind == 'word' and t.text == word:
            parts.append(cur)
            cur = []
        else:
            cur.append(t)
    parts.append(cur)
    return parts


def _sections(toks):
    """(select-list tokens, where tokens) of a flat single-table SELECT"""
    depth = 0
    i_from = i_where = None
    for i, t in enumerate(toks):
        if t.kind == 'op' and t.text == '(':
            depth += 1
        elif t.kind == 'op' and t.text == ')':
            depth -= 1
        elif depth == 0 and t.kind == 'word':
            if t.text == 'FROM' and i_from is None:
                i_from = i
            elif t.text == 'WHERE' and i_where is None:
                i_where = i
    if not toks or toks[0].kind != 'word' or toks[0].text != 'SELECT' or i_from is None:
        return None
    sel = toks[1:i_from]
    where = toks[i_where + 1:] if i_where is not None else []
    return sel, where


def analyse_statement(dialect, style, sql, args, case):
    """the operands that reach the server must be the supplied ones -> list of (tag, message)"""
    vars_ = case_vars(case)
    shown = 'SQL %s with arguments %s' % (_short(sql, 600), _short(args, 300))
    try:
        toks = L.bind(dialect, style, sql, args)
    except L.DriverError as e:
        return None, [('driver', '%s: the driver cannot bind the statement: %s; %s' % (dialect, e, shown))]
    bad = [t for t in toks if t.kind in ('bad', 'comment')]
    if bad:
        return toks, [('structure', '%s: the statement does not lex as one statement of literals, names and operators under '
                       'the dialect\'s rules: %r; %s' % (dialect, bad[0], shown))]
    sec = _sections(toks)
    if sec is None:
        return toks, [('structure', '%s: not a SELECT ... FROM statement: %s' % (dialect, shown))]
    sel, where = sec
    fails = []
    # ---- constants echoed in the select list
    echo = [dec(v) for v in case.get('echo', [])]
    us = L.units(dialect, sel)
    if len(us) != len(echo):
        fails.append(('structure', '%s: the select list holds %d literal(s) %s for the %d constant(s) %r; %s'
                      % (dialect, len(us), us, len(echo), echo, shown)))
    else:
        for u, v in zip(us, echo):
            why = L.denotes(dialect, u, v)
            if why is not None:
                fails.append(('unmodelled' if 'not modelled' in why else 'denotation',
                              '%s: the constant %r in the select list is written %s which %s; %s'
                              % (dialect, v, _short(' '.join(t.text for t in sel[u.start:u.end]), 200), why, shown)))
    # ---- one conjunct per atom, found by its column
    conjuncts = [c for c in _depth0_split(where, 'AND') if c]
    atoms = case['atoms']
    if len(conjuncts) != len(atoms):
        fails.append(('structure', '%s: %d conditions were written, WHERE has %d top-level conjuncts; %s'
                      % (dialect, len(atoms), len(conjuncts), shown)))
        return toks, fails
    by_col = {}
    for c in conjuncts:
        ids = [t.value for t in c if t.kind == 'ident']
        col = next((x for x in ids if x.lower() in COLUMNS), None)
        by_col.setdefault(col.lower() if col else None, []).append(c)
    for a in atoms:
        cs = by_col.get(a['col'], [])
        if len(cs) != 1:
            fails.append(('structure', '%s: no single conjunct mentions column %s; %s' % (dialect, a['col'], shown)))
            continue
        c = cs[0]
        operands = [_operand_val(o, vars_) for o in a['args']]
        written = _short(' '.join(t.text for t in c), 300)
        if a['op'] in LIKE_OPS:
            k = next((i for i, t in enumerate(c) if t.kind == 'word' and t.text == 'LIKE'), None)
            if k is None:
                fails.append(('structure', '%s: the condition on %s has no LIKE: %s; %s' % (dialect, a['col'], written, shown)))
                continue
            try:
                pattern, j = L.eval_string_expr(c, k + 1)
            except L.ExprError as e:
                fails.append(('unmodelled', '%s: LIKE operand not understood (%s): %s' % (dialect, e, written)))
                continue
            escape = None
            if j < len(c) and c[j].kind == 'word' and c[j].text == 'ESCAPE':
                if j + 1 < len(c) and c[j + 1].kind == 'str':
                    escape = c[j + 1].value
                else:
                    fails.append(('structure', '%s: ESCAPE is not followed by a string literal: %s' % (dialect, written)))
                    continue
            try:
                got = L.like_decode(dialect, pattern, escape)
            except L.LexError as e:
                fails.append(('like', '%s: %s for the string %r: the pattern the server receives is %r%s, which it refuses: %s; %s'
                              % (dialect, a['op'], operands[0], pattern,
                                 ' ESCAPE %r' % escape if escape is not None else ' (no ESCAPE clause)', e, shown)))
                continue
            want = L.like_expected(a['op'], operands[0])
            if got != want:
                fails.append(('like', '%s: %s for the string %r: the server receives the pattern %r%s which under %s\'s LIKE '
                              'rules means [%s], the original value would be [%s]; %s'
                              % (dialect, a['op'], operands[0], pattern,
                                 ' ESCAPE %r' % escape if escape is not None else ' (no ESCAPE clause, default escape %r)'
                                 % L.DEFAULT_LIKE_ESCAPE[dialect], dialect, L.like_show(got), L.like_show(want), shown)))
            continue
        us = L.units(dialect, c)
        if len(us) != len(operands):
            fails.append(('structure', '%s: the condition on %s was given the operand(s) %r but the text %s holds %d literal(s) / '
                          'placeholder(s) %s; %s' % (dialect, a['col'], operands, written, len(us), us, shown)))
            continue
        pairs = list(zip(us, operands, a['args']))
        if a['op'] == 'in':
            # the items of an IN list form a set: pair every written item with some supplied operand it denotes
            left = list(zip(operands, a['args']))
            pairs = []
            for u in us:
                k = next((k for k, (v, o) in enumerate(left) if L.denotes(dialect, u, v) is None), 0)
                v, o = left.pop(k)
                pairs.append((u, v, o))
        for u, v, o in pairs:
            why = L.denotes(dialect, u, v)
            if why is not None:
                fails.append(('unmodelled' if 'not modelled' in why else 'denotation' if 'c' in o else 'alignment',
                              '%s: the %s %r compared with column %s is written %s which %s; %s'
                              % (dialect, 'constant' if 'c' in o else 'parameter %s =' % o['p'], v, a['col'],
                                 _short(' '.join(t.text for t in c[u.start:u.end]), 200), why, shown)))
    return toks, fails


def judge_query(case):
    """case = {'kind': 'query', 'dialect', 'atoms', 'echo', 'vars', 'rows'} -> (status, fails, info)
    status: 'ok' | 'rejected' (Pony refused the query with a TranslationError / TypeError)"""
    from pony.orm import db_session, rollback, flush
    from pony.orm.core import TranslationError
    dialect = case['dialect']
    style = L.NATIVE_STYLE[dialect]
    w = query_world(dialect)
    E = w['E']
    live = dialect == 'sqlite'
    vars_ = case_vars(case)
    fails = []
    info = {'source': query_source(case)}
    rows_in = []
    for k, r in enumerate(case.get('rows', []) if live else []):
        row = dict(DEFAULT_ROW)
        row.update({c: dec(v) for c, v in r.items()})
        row['id'] = k + 1
        rows_in.append(row)
    # the benign twin of the query (same shape, harmless values) is built once per skeleton, in a session of its own
    # (inside one session Pony answers a repeated identical query from its result cache without sending SQL)
    key = _skeleton(case)
    if key not in w['shapes']:
        with db_session:
            try:
                tsql, targs, _ = run_query(w, benign_case(case), False)
                w['shapes'][key] = (L.shape(L.bind(dialect, style, tsql, targs)), tsql)
            except Exception:                    # whatever stops the twin also stops (and is reported for) the case itself
                w['shapes'][key] = None          # no reference shape: the structure comparison is skipped for this skeleton
            finally:
                rollback()
    with db_session:
        try:
            try:
                for row in rows_in:
                    E(**row)
                if rows_in:
                    flush()
            except Exception as e:
                return 'ok', [('crash', '%s: storing the rows %s through Pony raised %s(%s)'
                               % (dialect, _short(rows_in, 400), type(e).__name__, _short(str(e), 200)))], info
            try:
                sql, args, got_rows = run_query(w, case, live)
            except (TranslationError, TypeError, NotImplementedError) as e:
                info['rejected'] = '%s: %s' % (type(e).__name__, e)
                return 'rejected', [], info
            except Exception as e:
                return 'ok', [('crash', '%s: the query select(%s) with %r raised %s(%s) instead of being translated or refused '
                               'with a TranslationError / TypeError' % (dialect, info['source'], vars_, type(e).__name__,
                                                                         _short(str(e), 200)))], info
            info['sql'] = sql
            info['args'] = args
            toks, f = analyse_statement(dialect, style, sql, args, case)
            fails.extend(f)
            # ---- (c) structure: same token-kind sequence as the benign twin of the query
            if toks is not None and not any(t[0] in ('driver', 'structure') for t in f):
                ref = w['shapes'].get(_skeleton(case))
                mine = L.shape(toks)
                if ref is not None and mine != ref[0]:
                    k, a, b = L.shape_diff(mine, ref[0])
                    fails.append(('structure', '%s: the statement built for the values %r has another token structure than the '
                                  'same query with harmless values of the same types (token %d: %s vs %s); SQL %s versus %s'
                                  % (dialect, case_all_values(case), k, a, b, _short(sql, 500), _short(ref[1], 500))))
            # ---- live result (SQLite): rows and echoed constants equal Python's evaluation
            if live:
                echo = [dec(v) for v in case.get('echo', [])]
                want = []
                for row in rows_in:
                    if all(atom_holds(a, row, vars_) for a in case['atoms']):
                        want.append(tuple([row['id']] + echo) if echo else row['id'])
                got = sorted(got_rows, key=lambda r: r[0] if isinstance(r, tuple) else r)
                if not _same_rows(got, want):
                    if _sqlite_float_noise(case):
                        info['inconclusive'] = 'SQLite itself parses a float literal of the case inexactly'
                    else:
                        fails.append(('live', 'sqlite: select(%s) with %r over the stored rows %s returned %s, Python gives %s; SQL %s '
                                      'with arguments %s' % (info['source'], vars_, _short([_row_show(r, case) for r in rows_in], 500),
                                                             _short(got, 400), _short(want, 400), _short(sql, 500), _short(args, 200))))
        finally:
            rollback()
    return 'ok', fails, info


def _row_show(row, case):
    cols = sorted(set(a['col'] for a in case['atoms']))
    return dict([('id', row['id'])] + [(c, row[c]) for c in cols])


def _same_rows(got, want):
    if len(got) != len(want):
        return False
    for g, w in zip(got, want):
        g = g if isinstance(g, tuple) else (g,)
        w = w if isinstance(w, tuple) else (w,)
        if len(g) != len(w):
            return False
        for a, b in zip(g, w):
            if isinstance(b, (bytes, bytearray)):
                if bytes(a) != bytes(b):
                    return False
            elif isinstance(b, decimal.Decimal) or isinstance(b, float):
                if isinstance(a, bool) or not isinstance(a, (int, float, decimal.Decimal)) or a != b:
                    return False
            elif type(a) is not type(b) or a != b:
                return False
    return True


def _sqlite_float_noise(case):
    """control: does SQLite's own text-to-double conversion change one of the float literals of the case?
    (a limitation of the SQLite build, not of Pony: sqlite3 'SELECT <repr>' is compared with the float)"""
    con = sqlite3.connect(':memory:')
    try:
        for v in case_consts(case):
            if isinstance(v, float):
                if con.execute('SELECT ' + repr(v)).fetchone()[0] != v:
                    return True
        return False
    finally:
        con.close()


# =====================================================================================================================
# (c) identifiers
# =====================================================================================================================

NAME_KEYS = ['table', 'id', 's', 'n', 'm2m', 'acol', 'bcol', 'btable', 'bid']
BENIGN_NAMES = {'table': 'tbl_a', 'id': 'c_id', 's': 'c_s', 'n': 'c_n', 'm2m': 'tbl_m', 'acol': 'c_a', 'bcol': 'c_b',
                'btable': 'tbl_b', 'bid': 'c_bid', 'schema': 'sch'}


def _benign_names(names):
    return {k: BENIGN_NAMES[k] for k in names}
_twin_names = {}


def names_db(dialect, names, log):
    from pony.orm import Database, PrimaryKey, Required, Optional, Set
    db = Database()

    class A(db.Entity):
        # 'schema' (optional, not on SQLite): the table name is given as a (schema, table) pair
        _table_ = (names['schema'], names['table']) if 'schema' in names else names['table']
        id = PrimaryKey(int, column=names['id'])
        s = Optional(str, column=names['s'], autostrip=False)
        n = Required(int, column=names['n'])
        bs = Set('B', table=names['m2m'], column=names['bcol'])

    class B(db.Entity):
        _table_ = names['btable']
        id = PrimaryKey(int, auto=True, column=names['bid'])        # INSERT ... RETURNING <name> on PostgreSQL / Oracle
        aset = Set(A, column=names['acol'])
    bind_db(db, dialect, log)
    if dialect == 'sqlite':
        db.generate_mapping(create_tables=True)
    else:
        db.generate_mapping(check_tables=False)
    return db, A, B


def names_script(db, A, B, data):
    """the fixed operation script whose statements are compared; everything is rolled back"""
    from pony.orm import db_session, flush, rollback, select
    with db_session:
        try:
            b = B()
            flush()
            a = A(id=1, s=data['s'], n=data['n'], bs=[b])
            flush()
            a.s = data['s2']
            flush()
            list(select("x for x in A if x.s == p and x.n != 3 and 'q' not in x.s", {'A': A}, {'p': data['s2']}))
            a.bs.remove(b)
            flush()
            a.delete()
            flush()
        finally:
            rollback()


def _names_statements(dialect, names, data):
    """-> (ddl text or None, [(sql, args)] of the script)"""
    log = []
    db, A, B = names_db(dialect, names, log)
    try:
        ddl = None if dialect == 'sqlite' else db.schema.generate_create_script()
        mark = len(log)
        db.check_tables()                  # SELECT <columns> FROM <table> WHERE 0 = 1 for every table, in table-name order
        style = L.NATIVE_STYLE[dialect]
        checks = sorted(log[mark:], key=lambda sa: len(L.lex(dialect, sa[0], style)))     # 1, 2 and 3 columns
        mark = len(log)
        names_script(db, A, B, data)
        stmts = checks + [(s, a) for (s, a) in log[mark:]
                          if s.split(None, 1)[0].upper() in ('INSERT', 'UPDATE', 'DELETE', 'SELECT')]
        if dialect == 'sqlite':
            ddl = ';\n'.join(s for (s, a) in log[:mark] if s.split(None, 1)[0].upper() == 'CREATE')
        return ddl, stmts
    finally:
        db.disconnect()


def _ddl_shapes(dialect, style, ddl):
    """sorted token structures of the statements of a CREATE script (the order of tables follows their names)"""
    stmts, cur = [], []
    for x in L.shape(L.lex(dialect, ddl, style)):
        if x == ';':
            if cur:
                stmts.append(tuple(cur))
            cur = []
        else:
            cur.append(x)
    if cur:
        stmts.append(tuple(cur))
    return sorted(stmts)


def judge_names(case):
    """case = {'kind': 'names', 'dialect', 'names': {...}, 'data': {'s', 'n', 's2'}}"""
    dialect, names, data = case['dialect'], case['names'], case['data']
    style = L.NATIVE_STYLE[dialect]
    fails = []
    try:
        ddl, stmts = _names_statements(dialect, names, data)
    except Exception as e:
        from pony.orm.core import ERDiagramError, MappingError, DBSchemaError
        if isinstance(e, (ERDiagramError, MappingError, DBSchemaError, TypeError, ValueError)) \
                and not isinstance(e, (sqlite3.Error,)):
            return 'rejected', [], {'rejected': '%s: %s' % (type(e).__name__, e)}
        return 'ok', [('crash', '%s: mapping / using an entity with the names %r raised %s(%s)'
                       % (dialect, names, type(e).__name__, _short(str(e), 300)))], {}
    key = (dialect, 'schema' in names, repr(sorted(data.items())))
    twin = _twin_names.get(key)
    if twin is None:
        tddl, tstmts = _names_statements(dialect, _benign_names(names), data)
        try:
            twin = (_ddl_shapes(dialect, style, tddl), [(L.bind(dialect, style, s, a), s) for (s, a) in tstmts], tddl)
        except L.DriverError as e:
            return 'ok', [('driver', '%s: even with the harmless names %r and the data %r the driver cannot bind a statement of '
                           'the script: %s; statements: %s' % (dialect, _benign_names(names), data, e, _short(tstmts, 600)))], {}
        _twin_names[key] = twin
    info = {'statements': [s for s, a in stmts[:3]]}
    # DDL is executed without arguments (no %-formatting by the driver)
    dshape = _ddl_shapes(dialect, style, ddl)
    if dshape != twin[0]:
        odd = [x for x in dshape if x not in twin[0]] or dshape
        fails.append(('structure', '%s: the CREATE script for the names %r does not consist of the same statements (token '
                      'structure) as the script for harmless names, e.g. %s; script: %s'
                      % (dialect, names, _short(' '.join(odd[0]), 300), _short(ddl, 700))))
    if len(stmts) != len(twin[1]):
        fails.append(('structure', '%s: the script ran %d statements with the names %r, %d with harmless names'
                      % (dialect, len(stmts), names, len(twin[1]))))
        return 'ok', fails, info
    rename = {BENIGN_NAMES[k]: names[k] for k in names}
    for (sql, args), (ttoks, tsql) in zip(stmts, twin[1]):
        shown = 'SQL %s with arguments %s' % (_short(sql, 500), _short(args, 200))
        try:
            toks = L.bind(dialect, style, sql, args)
        except L.DriverError as e:
            fails.append(('driver', '%s: names %r: the driver cannot bind the statement: %s; %s' % (dialect, names, e, shown)))
            continue
        if L.shape(toks) != L.shape(ttoks):
            k, a, b = L.shape_diff(L.shape(toks), L.shape(ttoks))
            fails.append(('structure', '%s: with the names %r the statement has another token structure than with harmless names '
                          '(token %d: %s vs %s); %s versus %s' % (dialect, names, k, a, b, shown, _short(tsql, 300))))
            continue
        got_ids = [t.value for t in toks if t.kind == 'ident']
        want_ids = [rename.get(t.value, t.value) for t in ttoks if t.kind == 'ident']
        if got_ids != want_ids:
            fails.append(('identifier', '%s: the quoted identifiers of the statement denote %r, the declared names are %r; %s'
                          % (dialect, got_ids, want_ids, shown)))
            continue
        got_vals = [t.value.value for t in toks if t.kind == 'ph' and t.value.key != 'new_id']      # Oracle's RETURNING .. INTO
        want_vals = [t.value.value for t in ttoks if t.kind == 'ph' and t.value.key != 'new_id']   # :new_id is an out variable
        if got_vals != want_vals:
            fails.append(('alignment', '%s: with the names %r the placeholders receive %r, with harmless names %r; %s'
                          % (dialect, names, got_vals, want_vals, shown)))
    if dialect == 'sqlite' and not fails:
        fails.extend(_names_live(names, data))
    return 'ok', fails, info


def _q(name):
    return '"' + name.replace('"', '""') + '"'


def _names_live(names, data):
    """SQLite: the names round-trip through create_tables + insert + select + update + delete; the stored rows are read
    back through the raw connection with this module's own quoting"""
    from pony.orm import db_session, select, commit
    fails = []
    log = []
    db, A, B = names_db('sqlite', names, log)
    try:
        with db_session:
            b1, b2 = B(), B()
            A(id=1, s=data['s'], n=data['n'], bs=[b1, b2])
            A(id=2, s=data['s2'], n=data['n'] + 1, bs=[b2])
        with db_session:
            con = db.get_connection()
            raw = con.execute('SELECT %s, %s, %s FROM %s ORDER BY 1' % (_q(names['id']), _q(names['s']), _q(names['n']),
                                                                       _q(names['table']))).fetchall()
            want = [(1, data['s'], data['n']), (2, data['s2'], data['n'] + 1)]
            if raw != want:
                fails.append(('live', 'sqlite: table %r holds %r after inserting %r through Pony' % (names['table'], raw, want)))
            links = con.execute('SELECT %s, %s FROM %s ORDER BY 1, 2' % (_q(names['acol']), _q(names['bcol']),
                                                                         _q(names['m2m']))).fetchall()
            if links != [(1, 1), (1, 2), (2, 2)]:
                fails.append(('live', 'sqlite: link table %r holds %r, expected [(1, 1), (1, 2), (2, 2)]' % (names['m2m'], links)))
            objs = select('x for x in A if x.n >= p', {'A': A}, {'p': data['n']}).order_by('x.id')[:]
            got = [(o.id, o.s, o.n, sorted(b.id for b in o.bs)) for o in objs]
            want = [(1, data['s'], data['n'], [1, 2]), (2, data['s2'], data['n'] + 1, [2])]
            if got != want:
                fails.append(('live', 'sqlite: objects read back through names %r are %r, stored %r' % (names, got, want)))
            by = select('x.id for x in A if x.s == p', {'A': A}, {'p': data['s2']})[:]
            exp = [i for (i, s, n) in [(1, data['s'], 0), (2, data['s2'], 0)] if s == data['s2']]
            if sorted(by) != exp:
                fails.append(('live', 'sqlite: filter on column %r returned %r, expected %r' % (names['s'], sorted(by), exp)))
            A[1].s = data['s2'] + 'x'
            A[2].delete()
        with db_session:
            con = db.get_connection()
            raw = con.execute('SELECT %s, %s FROM %s ORDER BY 1' % (_q(names['id']), _q(names['s']), _q(names['table']))).fetchall()
            if raw != [(1, data['s2'] + 'x')]:
                fails.append(('live', 'sqlite: after update + delete table %r holds %r, expected %r'
                              % (names['table'], raw, [(1, data['s2'] + 'x')])))
            links = con.execute('SELECT %s, %s FROM %s ORDER BY 1, 2' % (_q(names['acol']), _q(names['bcol']), _q(names['m2m']))).fetchall()
            if links != [(1, 1), (1, 2)]:
                fails.append(('live', 'sqlite: after deleting A[2] link table %r holds %r' % (names['m2m'], links)))
    except Exception as e:
        fails.append(('live', 'sqlite: round trip through the names %r raised %s(%s)' % (names, type(e).__name__, _short(str(e), 300))))
    finally:
        db.disconnect()
    return fails


# =====================================================================================================================
# (a) over histories: statements that Pony caches by shape (Database.insert, entity INSERT / UPDATE / DELETE / get / exists)
# =====================================================================================================================
# case = {'kind': 'history', 'dialect', 'ops': [...]}; one fresh Database per case (the statement caches start empty).
#   ['insert', returning, [[col, enc], ...]]          db.insert('raw t', **kwargs in that order)  (returning: None | 'id')
#   ['new', [[attr, enc], ...]]                        P(**kwargs in that order)  (must contain id)
#   ['set', k, [read attrs], [[attr, enc], ...], how]  k-th existing P object (modulo): read some attributes, then
#                                                      obj.set(**kwargs in that order) (how == 'set') or assignments in that order
#   ['get' | 'exists', [[attr, enc], ...]]             P.get(**kwargs) / P.exists(**kwargs)
#   ['delete', k, [read attrs]]
# Oracle: a reference model kept in plain dicts.  On SQLite every operation runs in its own db_session and the tables are read
# back through the raw connection after it; on every dialect the INSERT / UPDATE / DELETE / SELECT statement of the operation is
# decomposed into (column, operand) pairs with the dialect lexer and each operand must denote the value supplied for THAT column.

HIST_COLS = {'id': 'i d', 'name': "na'me", 'note': 'no te', 'tag': 'tag', 'n': 'n'}          # P attribute -> column
HIST_P_TABLE, HIST_R_TABLE = 'per son', 'raw t'
HIST_P_DEFAULT = {'name': '', 'note': '', 'tag': None, 'n': None}
HIST_R_COLS = ['id', 'name', 'note', 'tag', 'n']


def history_db(dialect, log):
    from pony.orm import Database, PrimaryKey, Optional
    db = Database()

    class P(db.Entity):
        _table_ = HIST_P_TABLE
        id = PrimaryKey(int, column=HIST_COLS['id'])
        # the nullable attributes are declared first: an optimistic check that read one of them while it was NULL writes its
        # IS NULL criterion (no placeholder) BEFORE the placeholders of the string attributes read as well
        tag = Optional(str, column=HIST_COLS['tag'], autostrip=False, nullable=True)
        n = Optional(int, column=HIST_COLS['n'])
        name = Optional(str, column=HIST_COLS['name'], autostrip=False)
        note = Optional(str, column=HIST_COLS['note'], autostrip=False)

    class R(db.Entity):
        _table_ = HIST_R_TABLE
        id = PrimaryKey(int)
        name = Optional(str, nullable=True)
        note = Optional(str, nullable=True)
        tag = Optional(str, nullable=True)
        n = Optional(int)
    bind_db(db, dialect, log)
    db.generate_mapping(create_tables=(dialect == 'sqlite'), check_tables=False)
    return db, P, R


def _pairs(dialect, toks):
    """(column name, Unit) for every `<quoted column> = <literal or placeholder>` and `<quoted column> IS NULL` of a statement,
    plus the pairs of an INSERT's column list and VALUES list"""
    us = L.units(dialect, toks)
    by_start = {u.start: u for u in us}
    out = []
    for i, t in enumerate(toks):
        if t.kind == 'op' and t.text == '=' and i > 0 and toks[i - 1].kind == 'ident' and (i + 1) in by_start:
            out.append((toks[i - 1].value, by_start[i + 1]))
        elif t.kind == 'word' and t.text == 'IS' and i > 0 and toks[i - 1].kind == 'ident' and i + 1 < len(toks) \
                and toks[i + 1].kind == 'word' and toks[i + 1].text == 'NULL':
            out.append((toks[i - 1].value, by_start[i + 1]))
    return out


def _insert_pairs(dialect, toks):
    """INSERT INTO <table> (c1, c2, ...) VALUES (o1, o2, ...) [RETURNING ...] -> [(column, Unit)] or a string (why not)"""
    try:
        a = next(i for i, t in enumerate(toks) if t.kind == 'op' and t.text == '(')
        b = next(i for i, t in enumerate(toks) if i > a and t.kind == 'op' and t.text == ')')
        v = next(i for i, t in enumerate(toks) if i > b and t.kind == 'word' and t.text == 'VALUES')
        c = v + 1
        d = next(i for i, t in enumerate(toks) if i > c and t.kind == 'op' and t.text == ')')
    except StopIteration:
        return 'not of the form INSERT INTO t (columns) VALUES (operands)'
    if toks[c].kind != 'op' or toks[c].text != '(':
        return 'VALUES is not followed by ('
    cols = [t.value for t in toks[a + 1:b] if t.kind == 'ident']
    if len(cols) != sum(1 for t in toks[a + 1:b] if not (t.kind == 'op' and t.text == ',')):
        return 'the column list holds something else than quoted names'
    us = L.units(dialect, toks[c + 1:d])
    if len(us) != len(cols):
        return '%d columns but %d operands' % (len(cols), len(us))
    return list(zip(cols, us))


def _hist_where(toks):
    k = next((i for i, t in enumerate(toks) if t.kind == 'word' and t.text == 'WHERE'), None)
    return [] if k is None else toks[k + 1:]


def _check_pairs(dialect, pairs, expected, what, exact, fails, shown):
    """every written (column, operand) pair must denote the value supplied for that column"""
    seen = {}
    for col, u in pairs:
        if col not in expected:
            if exact:
                fails.append(('alignment', '%s: %s mentions column %r which the operation did not address; %s' % (dialect, what, col, shown)))
            continue
        seen[col] = seen.get(col, 0) + 1
        why = L.denotes(dialect, u, expected[col])
        if why is not None:
            fails.append(('alignment', '%s: %s: column %r was given %r but %s; %s'
                          % (dialect, what, col, expected[col], why.replace('the bound argument is', 'its placeholder receives')
                             if u.kind == 'param' else 'its operand ' + why, shown)))
    if exact:
        for col in expected:
            if seen.get(col, 0) != 1:
                fails.append(('alignment', '%s: %s: column %r (value %r) appears %d times; %s'
                              % (dialect, what, col, expected[col], seen.get(col, 0), shown)))


def _analyse_hist_statement(dialect, verb, sql, args, spec, fails):
    """spec: {'insert': {col: v}, 'exact': bool} | {'set': {...}, 'set_may_skip': {...}, 'where': {...}} | {'where': {...}}"""
    style = L.NATIVE_STYLE[dialect]
    shown = 'SQL %s with arguments %s' % (_short(sql, 400), _short(args, 300))
    try:
        toks = L.bind(dialect, style, sql, args)
    except L.DriverError as e:
        fails.append(('driver', '%s: the driver cannot bind the statement: %s; %s' % (dialect, e, shown)))
        return
    if any(t.kind in ('bad', 'comment') for t in toks):
        fails.append(('structure', '%s: the statement does not lex cleanly; %s' % (dialect, shown)))
        return
    if verb == 'INSERT':
        pairs = _insert_pairs(dialect, toks)
        if isinstance(pairs, str):
            fails.append(('structure', '%s: INSERT statement is %s; %s' % (dialect, pairs, shown)))
            return
        _check_pairs(dialect, pairs, spec['insert'], 'INSERT', spec['exact'], fails, shown)
    elif verb == 'UPDATE':
        k = next((i for i, t in enumerate(toks) if t.kind == 'word' and t.text == 'WHERE'), len(toks))
        set_pairs = _pairs(dialect, toks[:k])
        expected = dict(spec['set'])
        # an attribute assigned the value it already has need not be written
        for col, v in spec['set_may_skip'].items():
            if col not in [c for c, u in set_pairs]:
                expected.pop(col, None)
        _check_pairs(dialect, set_pairs, expected, 'UPDATE ... SET', True, fails, shown)
        _check_pairs(dialect, _pairs(dialect, toks[k:]), spec['where'], 'UPDATE ... WHERE', False, fails, shown)
        if HIST_COLS['id'] not in [c for c, u in _pairs(dialect, toks[k:])]:
            fails.append(('alignment', '%s: UPDATE has no condition on the primary key; %s' % (dialect, shown)))
    else:
        where = _pairs(dialect, _hist_where(toks))
        _check_pairs(dialect, where, spec['where'], verb + ' ... WHERE', spec.get('exact', False), fails, shown)


def judge_history(case):
    """-> (status, fails, info)"""
    from pony.orm import db_session, flush, rollback, commit
    from pony.orm.core import MultipleObjectsFoundError
    dialect = case['dialect']
    live = dialect == 'sqlite'
    log = []
    fails = []
    info = {'ops': len(case['ops'])}
    db, P, R = history_db(dialect, log)
    model_p, model_r = {}, {}           # id -> {attr: value}
    objs = {}                           # stub dialects: objects of the single session

    def stmts_since(mark, verb):
        return [(s, a) for (s, a) in log[mark:] if s.lstrip().split(None, 1)[0].upper() == verb]

    def col_map(d):
        return {HIST_COLS[k]: v for k, v in d.items()}

    def run_op(op):
        kind = op[0]
        mark = len(log)
        if kind == 'insert':
            kw = [(c, dec(v)) for c, v in op[2]]
            d = dict(kw)
            if d['id'] in model_r:
                return
            if op[1]:
                db.insert(HIST_R_TABLE, op[1], **dict(kw))
            else:
                db.insert(HIST_R_TABLE, **dict(kw))
            model_r[d['id']] = dict({c: None for c in HIST_R_COLS}, **d)
            st = stmts_since(mark, 'INSERT')
            if len(st) != 1:
                fails.append(('structure', '%s: db.insert sent %d INSERT statements' % (dialect, len(st))))
                return
            _analyse_hist_statement(dialect, 'INSERT', st[0][0], st[0][1], {'insert': d, 'exact': True}, fails)
        elif kind == 'new':
            kw = [(c, dec(v)) for c, v in op[1]]
            d = dict(kw)
            if d['id'] in model_p:
                return
            o = P(**dict(kw))
            flush()
            objs[d['id']] = o
            model_p[d['id']] = dict(HIST_P_DEFAULT, **d)
            st = stmts_since(mark, 'INSERT')
            if len(st) != 1:
                fails.append(('structure', '%s: creating one object sent %d INSERT statements' % (dialect, len(st))))
                return
            _analyse_hist_statement(dialect, 'INSERT', st[0][0], st[0][1], {'insert': col_map(d), 'exact': False}, fails)
        elif kind in ('set', 'delete'):
            if not model_p:
                return
            pk = sorted(model_p)[op[1] % len(model_p)]
            o = P[pk] if live else objs[pk]
            before = dict(model_p[pk])
            reads = {}
            for a in (op[2] if live else []):     # without a server an attribute left to its default cannot be loaded
                got = getattr(o, a)
                reads[a] = before[a]
                if live and got != before[a]:
                    fails.append(('live', 'sqlite: P[%d].%s reads %r, the history stored %r' % (pk, a, got, before[a])))
            mark = len(log)
            if kind == 'set':
                kw = [(c, dec(v)) for c, v in op[3]]
                changed = {c: v for c, v in dict(kw).items() if v != before[c]}
                same = {c: v for c, v in dict(kw).items() if v == before[c]}
                try:
                    if op[4] == 'set':
                        o.set(**dict(kw))
                    else:
                        for c, v in kw:
                            setattr(o, c, v)
                    flush()
                except Exception:
                    # the statement that was refused (e.g. a spurious OptimisticCheckError) is judged before the error is reported
                    for s_, a_ in stmts_since(mark, 'UPDATE')[:1]:
                        _analyse_hist_statement(dialect, 'UPDATE', s_, a_, {'set': col_map(dict(kw)), 'set_may_skip': col_map(same),
                                                                              'where': col_map(dict(before))}, fails)
                    if fails:
                        return
                    raise
                model_p[pk].update(dict(kw))
                st = stmts_since(mark, 'UPDATE')
                if not changed and not st:
                    return
                if len(st) != 1:
                    fails.append(('structure', '%s: updating %r of P[%d] sent %d UPDATE statements' % (dialect, sorted(changed), pk, len(st))))
                    return
                where = col_map(dict(before))
                _analyse_hist_statement(dialect, 'UPDATE', st[0][0], st[0][1],
                                        {'set': col_map(dict(kw)), 'set_may_skip': col_map(same), 'where': where}, fails)
            else:
                o.delete()
                flush()
                del model_p[pk]
                objs.pop(pk, None)
                st = stmts_since(mark, 'DELETE')
                if len(st) != 1:
                    fails.append(('structure', '%s: deleting P[%d] sent %d DELETE statements' % (dialect, pk, len(st))))
                    return
                _analyse_hist_statement(dialect, 'DELETE', st[0][0], st[0][1], {'where': col_map(before)}, fails)
        elif kind in ('get', 'exists'):
            kw = [(c, dec(v)) for c, v in op[1]]
            d = dict(kw)
            matches = sorted(pk for pk, row in model_p.items() if all(row[c] == v for c, v in d.items()))
            try:
                got = P.get(**dict(kw)) if kind == 'get' else P.exists(**dict(kw))
            except MultipleObjectsFoundError:
                got = 'multiple'
            st = stmts_since(mark, 'SELECT')
            for s, a in st:
                _analyse_hist_statement(dialect, 'SELECT', s, a, {'where': col_map(d), 'exact': True}, fails)
            if live:
                if kind == 'exists':
                    want = bool(matches)
                    res = got
                else:
                    want = None if not matches else (matches[0] if len(matches) == 1 else 'multiple')
                    res = got if got in (None, 'multiple') else got.id
                if res != want:
                    fails.append(('live', 'sqlite: P.%s(%s) answered %r, the rows stored by the history give %r (rows: %s)'
                                  % (kind, ', '.join('%s=%r' % cv for cv in kw), res, want, _short(model_p, 400))))
        else:
            raise ValueError(kind)

    def read_back():
        con = db.get_connection()
        got_p = {r[0]: dict(zip(['id', 'name', 'note', 'tag', 'n'], r)) for r in con.execute(
            'SELECT %s FROM %s' % (', '.join(_q(HIST_COLS[a]) for a in ['id', 'name', 'note', 'tag', 'n']), _q(HIST_P_TABLE)))}
        got_r = {r[0]: dict(zip(HIST_R_COLS, r)) for r in con.execute(
            'SELECT %s FROM %s' % (', '.join(_q(c) for c in HIST_R_COLS), _q(HIST_R_TABLE)))}
        return got_p, got_r

    try:
        if live:
            for k, op in enumerate(case['ops']):
                try:
                    with db_session:
                        run_op(op)
                    with db_session:
                        got_p, got_r = read_back()
                except Exception as e:
                    fails.append(('crash', 'sqlite: operation #%d %s of the history raised %s(%s)'
                                  % (k + 1, _short(_op_show(op), 300), type(e).__name__, _short(str(e), 200))))
                    break
                if got_p != model_p or got_r != model_r:
                    bad_r = {i: (got_r.get(i), model_r.get(i)) for i in set(got_r) | set(model_r) if got_r.get(i) != model_r.get(i)}
                    bad_p = {i: (got_p.get(i), model_p.get(i)) for i in set(got_p) | set(model_p) if got_p.get(i) != model_p.get(i)}
                    fails.append(('live', 'sqlite: after operation #%d %s of the history %s the database holds (row: stored, supplied) %s'
                                  % (k + 1, _short(_op_show(op), 300), _short([_op_show(o) for o in case['ops'][:k]], 700),
                                     _short(dict(raw=bad_r, P=bad_p), 700))))
                    break
                if fails:
                    break
        else:
            # no server: the lookups (which would find nothing and make Pony doubt its cached objects) run afterwards in a
            # session of their own; only their SQL text and arguments are judged
            writes = [(k, op) for k, op in enumerate(case['ops']) if op[0] not in ('get', 'exists')]
            lookups = [(k, op) for k, op in enumerate(case['ops']) if op[0] in ('get', 'exists')]
            for group in (writes, lookups):
                with db_session:
                    try:
                        for k, op in group:
                            try:
                                run_op(op)
                            except Exception as e:
                                fails.append(('crash', '%s: operation #%d %s of the history raised %s(%s)'
                                              % (dialect, k + 1, _short(_op_show(op), 300), type(e).__name__,
                                                 _short(str(e), 200))))
                                break
                            if fails:
                                break
                    finally:
                        rollback()
    finally:
        db.disconnect()
    return 'ok', fails, info


def _op_show(op):
    kind = op[0]
    kv = lambda pairs: ', '.join('%s=%r' % (c, dec(v)) for c, v in pairs)
    if kind == 'insert':
        return "db.insert(%r, %s%s)" % (HIST_R_TABLE, 'returning=%r, ' % op[1] if op[1] else '', kv(op[2]))
    if kind == 'new':
        return 'P(%s)' % kv(op[1])
    if kind == 'set':
        return 'P#%d: read %s; %s' % (op[1], op[2], ('set(%s)' % kv(op[3])) if op[4] == 'set' else
                                      '; '.join('.%s = %r' % (c, dec(v)) for c, v in op[3]))
    if kind == 'delete':
        return 'P#%d: read %s; delete()' % (op[1], op[2])
    return 'P.%s(%s)' % (kind, kv(op[1]))


def history_values(case):
    out = []
    for op in case['ops']:
        for part in op[1:]:
            if isinstance(part, list):
                for x in part:
                    if isinstance(x, list) and len(x) == 2 and isinstance(x[1], dict):
                        out.append(dec(x[1]))
    return out


def history_reorders(case):
    """does the history address one column set in two different keyword orders with the same kind of operation?"""
    seen = {}
    for op in case['ops']:
        pairs = op[2] if op[0] == 'insert' else op[3] if op[0] == 'set' else op[1] if op[0] in ('new', 'get', 'exists') else None
        if pairs is None:
            continue
        cols = tuple(c for c, v in pairs)
        key = (op[0] if op[0] not in ('get', 'exists') else 'find', tuple(sorted(cols)))
        if key in seen and cols not in seen[key]:
            return True
        seen.setdefault(key, set()).add(cols)
    return False
