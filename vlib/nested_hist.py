"""Write histories over a diagram whose primary keys contain references (shared by C09, C11 and C16).

  Shelf: PrimaryKey(room, no)            Box: PrimaryKey(shelf, pos)  (three raw columns)       Item: id, box = Optional(Box)
  Tag:   PrimaryKey(box)  (the key IS a reference to a composite-key object), note = Optional(str)

A case is a list of sessions; every session first loads all rows (so every key is known to the session and a duplicate
is a definite CacheIndexError), then runs generated operations: creations in any order (a Box before its new Shelf has been
saved, a Tag for a new Box), obj.flush() of a single object, flush(), deletes (Shelf -> its Boxes -> their Tags cascade, Items
are unlinked), re-creation of a key that was deleted (before or after the delete was flushed), re-linking of items, lookups.
A plain dict model says what each call must do; the judgement is split by property:

  identity (C11): Box[room, no, pos] / Shelf[room, no] / Tag[box] / get() return the very object the program holds, a deleted
                  key is not found, a re-created key yields the new object;
  flush    (C16): flush(), obj.flush() and commit of these orderable sets succeed;
  db       (C09): after the last commit the tables hold exactly the model's rows.
"""
from hypothesis import strategies as st

ROOMS = [1, 2]
NOS = [1, 2]
POSS = [1, 2, 3]


@st.composite
def cases(draw):
    def op():
        k = draw(st.sampled_from(['new_shelf', 'new_box', 'new_box', 'new_item', 'new_tag', 'new_tag', 'set_item', 'del_shelf', 'del_box',
                                  'del_box', 'del_tag', 'flush', 'oflush', 'oflush', 'lookup', 'lookup', 'note', 'burst', 'burst', 'burst']))
        return [k, draw(st.sampled_from(ROOMS)), draw(st.sampled_from(NOS)), draw(st.sampled_from(POSS)), draw(st.integers(1, 4))]
    sessions = []
    for _ in range(draw(st.integers(1, 3))):
        sessions.append({'ops': [op() for _ in range(draw(st.integers(2, 9)))], 'end': draw(st.sampled_from(['commit', 'commit', 'commit', 'rollback']))})
    return {'kind': 'nested_hist', 'sessions': sessions}


class Violation(Exception):
    def __init__(self, category, msg):
        Exception.__init__(self, msg)
        self.category = category
        self.msg = msg


def build():
    from pony.orm import Database, Required, Optional, Set, PrimaryKey
    db = Database()

    class Shelf(db.Entity):
        room = Required(int)
        no = Required(int)
        PrimaryKey(room, no)
        boxes = Set('Box')

    class Box(db.Entity):
        shelf = Required(Shelf)
        pos = Required(int)
        PrimaryKey(shelf, pos)
        items = Set('Item')
        tag = Optional('Tag', cascade_delete=True)

    class Item(db.Entity):
        id = PrimaryKey(int)
        box = Optional(Box)

    class Tag(db.Entity):
        box = PrimaryKey(Box)
        note = Optional(str)
    db.bind('sqlite', ':memory:')
    db.generate_mapping(create_tables=True)
    return db, Shelf, Box, Item, Tag


def run(case):
    """returns None or a Violation (first one met)"""
    from pony.orm import db_session, select, flush, commit, rollback, ObjectNotFound
    from pony.orm.core import CacheIndexError
    db, Shelf, Box, Item, Tag = build()
    committed = {'shelves': set(), 'boxes': set(), 'items': {}, 'tags': {}}
    try:
        for si, sess in enumerate(case['sessions']):
            cur = {'shelves': set(committed['shelves']), 'boxes': set(committed['boxes']), 'items': dict(committed['items']),
                   'tags': dict(committed['tags'])}
            ghosts = set()     # keys deleted since the last full flush: Pony refuses to re-create them until the delete is flushed
            objs = {}          # ('S', key) / ('B', key) / ('I', id) / ('T', boxkey) -> pony object the program holds
            trace = []
            with db_session:
                for s in select(s for s in Shelf):
                    objs[('S', (s.room, s.no))] = s
                for b in select(b for b in Box):
                    objs[('B', (b.shelf.room, b.shelf.no, b.pos))] = b
                for i in select(i for i in Item):
                    objs[('I', i.id)] = i
                for t in select(t for t in Tag):
                    objs[('T', (t.box.shelf.room, t.box.shelf.no, t.box.pos))] = t

                loaded = {'shelves': set(k for (t_, k) in objs if t_ == 'S'), 'boxes': set(k for (t_, k) in objs if t_ == 'B'),
                          'items': set(k for (t_, k) in objs if t_ == 'I'), 'tags': set(k for (t_, k) in objs if t_ == 'T')}
                want = {'shelves': cur['shelves'], 'boxes': cur['boxes'], 'items': set(cur['items']), 'tags': set(cur['tags'])}
                if loaded != want:
                    raise Violation('db', 'session %d starts with rows %r, the program committed %r' % (si, loaded, want))

                def fail(cat, msg):
                    raise Violation(cat, '%s [session %d after %s]' % (msg, si, trace[-6:]))

                def must_flush(what, fn):
                    try:
                        fn()
                    except Violation:
                        raise
                    except Exception as e:
                        fail('flush', '%s of an orderable set of changes raised %s: %s' % (what, type(e).__name__, str(e)[:200]))

                def drop_box(bk):
                    ghosts.add(('B', bk))
                    if bk in cur['tags']:
                        ghosts.add(('T', bk))
                    cur['boxes'].discard(bk)
                    objs.pop(('B', bk), None)
                    if bk in cur['tags']:
                        del cur['tags'][bk]
                        objs.pop(('T', bk), None)
                    for iid, b in list(cur['items'].items()):
                        if b == bk:
                            cur['items'][iid] = None

                for op in sess['ops']:
                    k, r, n, p, x = op
                    sk, bk = (r, n), (r, n, p)
                    trace.append('%s%r' % (k, (r, n, p, x)))
                    if k == 'new_shelf':
                        try:
                            o = Shelf(room=r, no=n)
                            if sk in cur['shelves']:
                                fail('identity', 'Shelf%r exists in the session but a second one was created' % (sk,))
                            cur['shelves'].add(sk)
                            objs[('S', sk)] = o
                        except CacheIndexError:
                            if sk not in cur['shelves'] and ('S', sk) not in ghosts:
                                fail('identity', 'Shelf%r is free (deleted or never created) but creation raised CacheIndexError' % (sk,))
                    elif k == 'new_box':
                        if sk not in cur['shelves']:
                            continue
                        try:
                            o = Box(shelf=objs[('S', sk)], pos=p)
                            if bk in cur['boxes']:
                                fail('identity', 'Box%r exists in the session but a second one was created' % (bk,))
                            cur['boxes'].add(bk)
                            objs[('B', bk)] = o
                        except CacheIndexError:
                            if bk not in cur['boxes'] and ('B', bk) not in ghosts:
                                fail('identity', 'Box%r is free (deleted or never created) but creation raised CacheIndexError' % (bk,))
                    elif k == 'new_tag':
                        if bk not in cur['boxes']:
                            continue
                        try:
                            o = Tag(box=objs[('B', bk)], note='n%d' % x)
                            if bk in cur['tags']:
                                fail('identity', 'Tag of Box%r exists in the session but a second one was created' % (bk,))
                            cur['tags'][bk] = 'n%d' % x
                            objs[('T', bk)] = o
                        except CacheIndexError:
                            if bk not in cur['tags'] and ('T', bk) not in ghosts:
                                fail('identity', 'Tag of Box%r is free but creation raised CacheIndexError' % (bk,))
                    elif k == 'burst':
                        # a chain of new objects whose keys reference each other, then a flush that starts at one of them
                        made = []
                        if ('S', sk) in ghosts or ('B', bk) in ghosts or ('T', bk) in ghosts:
                            continue
                        if sk not in cur['shelves']:
                            objs[('S', sk)] = Shelf(room=r, no=n)
                            cur['shelves'].add(sk)
                            made.append(('S', sk))
                        if bk not in cur['boxes']:
                            objs[('B', bk)] = Box(shelf=objs[('S', sk)], pos=p)
                            cur['boxes'].add(bk)
                            made.append(('B', bk))
                        if x % 2 and bk not in cur['tags']:
                            objs[('T', bk)] = Tag(box=objs[('B', bk)], note='b%d' % x)
                            cur['tags'][bk] = 'b%d' % x
                            made.append(('T', bk))
                        if x >= 3:
                            iid = 10 + len(cur['items'])
                            if iid not in cur['items']:
                                objs[('I', iid)] = Item(id=iid, box=objs[('B', bk)])
                                cur['items'][iid] = bk
                                made.append(('I', iid))
                        if made:
                            which = made[(x + p) % len(made)]
                            trace.append('flush of %r' % (which,))
                            if (r + n + p + x) % 3 == 0:
                                must_flush('flush()', flush)
                            else:
                                must_flush('%r.flush()' % (which,), objs[which].flush)
                    elif k == 'note':
                        if bk in cur['tags']:
                            objs[('T', bk)].note = 'm%d' % x
                            cur['tags'][bk] = 'm%d' % x
                    elif k == 'new_item':
                        if x in cur['items']:
                            continue
                        b = objs.get(('B', bk)) if bk in cur['boxes'] else None
                        objs[('I', x)] = Item(id=x, box=b)
                        cur['items'][x] = bk if b is not None else None
                    elif k == 'set_item':
                        if x not in cur['items']:
                            continue
                        b = objs.get(('B', bk)) if bk in cur['boxes'] else None
                        objs[('I', x)].box = b
                        cur['items'][x] = bk if b is not None else None
                    elif k == 'del_shelf':
                        if sk in cur['shelves']:
                            objs[('S', sk)].delete()
                            ghosts.add(('S', sk))
                            cur['shelves'].discard(sk)
                            objs.pop(('S', sk), None)
                            for b in [b for b in cur['boxes'] if b[:2] == sk]:
                                drop_box(b)
                    elif k == 'del_box':
                        if bk in cur['boxes']:
                            objs[('B', bk)].delete()
                            drop_box(bk)
                    elif k == 'del_tag':
                        if bk in cur['tags']:
                            objs[('T', bk)].delete()
                            ghosts.add(('T', bk))
                            del cur['tags'][bk]
                            objs.pop(('T', bk), None)
                    elif k == 'flush':
                        must_flush('flush()', flush)
                        ghosts.clear()
                    elif k == 'oflush':
                        cands = sorted(objs, key=repr)
                        if cands:
                            o = objs[cands[x % len(cands)]]
                            must_flush('%r.flush()' % (cands[x % len(cands)],), o.flush)
                    elif k == 'lookup':
                        for (kind, key), o in sorted(objs.items(), key=repr):
                            try:
                                if kind == 'S':
                                    got = [Shelf[key[0], key[1]], Shelf.get(room=key[0], no=key[1])]
                                elif kind == 'B':
                                    got = [Box[key[0], key[1], key[2]], Box.get(shelf=objs[('S', key[:2])], pos=key[2])]
                                elif kind == 'T':
                                    got = [Tag[objs[('B', key)]], Tag.get(box=objs[('B', key)])]
                                else:
                                    got = [Item[key]]
                            except ObjectNotFound:
                                fail('identity', 'the session holds a live %s%r but the lookup raised ObjectNotFound' % (kind, key))
                            except Violation:
                                raise
                            except Exception as e:
                                if type(e).__name__ in ('TransactionIntegrityError', 'IntegrityError', 'UnresolvableCyclicDependency'):
                                    fail('flush', 'the auto-flush before a lookup raised %s: %s' % (type(e).__name__, str(e)[:200]))
                                fail('identity', 'lookup of the live %s%r raised %s: %s' % (kind, key, type(e).__name__, str(e)[:200]))
                            for g in got:
                                if g is not o:
                                    fail('identity', 'lookup of %s%r returned %r, not the object the program holds' % (kind, key, g))
                        for b in [(rr, nn, pp) for rr in ROOMS for nn in NOS for pp in POSS]:
                            if b not in cur['boxes']:
                                try:
                                    g = Box.get(shelf=objs[('S', b[:2])], pos=b[2]) if b[:2] in cur['shelves'] else None
                                except Exception as e:
                                    if type(e).__name__ in ('TransactionIntegrityError', 'IntegrityError', 'UnresolvableCyclicDependency'):
                                        fail('flush', 'the auto-flush before a lookup raised %s: %s' % (type(e).__name__, str(e)[:200]))
                                    raise
                                if g is not None:
                                    fail('identity', 'Box%r does not exist (deleted or never created) but get() returned %r' % (b, g))
                if sess['end'] == 'commit':
                    must_flush('commit()', commit)
                    committed = cur
                else:
                    rollback()
        # ---- database contents
        with db_session:
            con = db.get_connection()
            rows = {
                'shelves': set(tuple(r) for r in con.execute('select room, no from Shelf').fetchall()),
                'boxes': set(tuple(r) for r in con.execute('select shelf_room, shelf_no, pos from Box').fetchall()),
                'items': dict((r[0], None if r[1] is None else (r[1], r[2], r[3])) for r in
                              con.execute('select id, box_shelf_room, box_shelf_no, box_pos from Item').fetchall()),
                'tags': dict(((r[0], r[1], r[2]), r[3]) for r in con.execute('select box_shelf_room, box_shelf_no, box_pos, note from Tag').fetchall()),
            }
        for name in ('shelves', 'boxes', 'items', 'tags'):
            if rows[name] != committed[name]:
                return Violation('db', 'after the last commit table %s holds %r, the program committed %r' % (name, rows[name], committed[name]))
        return None
    except Violation as v:
        return v
    finally:
        try:
            from pony.orm import core
            if core.local.db_session is not None:
                try:
                    rollback()
                finally:
                    core.local.db_session = None
            core.local.db_context_counter = 0
        except Exception:
            pass
        try:
            db.disconnect()
        except Exception:
            pass


def judge(case, category):
    """violation message of the given category, or None; other categories are other properties' business"""
    v = run(case)
    if v is not None and v.category == category:
        return v.msg
    return None
