"""B6: session interpreter.  Executes a *program* (pure data: spec + sessions of ops) against real Pony on SQLite and
against the reference store (vlib.refstore) in lock-step, evaluating the invariants enabled by the calling check.

program = {'spec': spec, 'sessions': [{'preload': bool, 'ops': [op...], 'end': 'commit'|'rollback'|'raise'}],
           'snap': 0|1|2}
op = [name, int choices...]; every choice is resolved modulo the number of candidates at run time, so any list of ints is a
valid program (hypothesis shrinks it freely and the stored JSON replays without hypothesis).
"""
import sys, pickle
from vlib import modelspec, refstore
from vlib.refstore import ModelError

INTS = [0, 1, 2, 3, -1]
STRS = ['a', 'b', 'c', 'ab']


class Fail(Exception):
    """an invariant of property `prop` is violated"""
    def __init__(self, prop, msg):
        Exception.__init__(self, msg)
        self.prop = prop
        self.msg = msg


class Abort(Exception):
    """program cannot be continued meaningfully (inconclusive, counted)"""


def scalar_value(sc, c):
    if sc['type'] == 'int':
        if not sc['req'] and c % 7 == 6:
            return None
        return INTS[c % len(INTS)]
    if not sc['req']:
        if sc['unique']:
            if c % 7 == 6:
                return None
        elif c % 7 == 6:
            return ''
    return STRS[c % len(STRS)]


def pk_value(kind, c):
    if kind == 'int':
        return INTS[c % len(INTS)]
    if kind == 'str':
        return STRS[c % len(STRS)]
    if kind == 'comp':
        return (INTS[c % len(INTS)], STRS[(c // len(INTS)) % len(STRS)])
    if kind == 'auto':
        return (1 + c % 3) if c % 5 == 0 else None
    raise ValueError(kind)


SESSION_FATAL = ('TransactionIntegrityError', 'IntegrityError', 'UnexpectedError', 'OptimisticCheckError',
                 'UnrepeatableReadError', 'CommitException', 'UnresolvableCyclicDependency', 'DatabaseError',
                 'OperationalError', 'PartialCommitException', 'RollbackException', 'TransactionError',
                 'ProgrammingError', 'InternalError', 'DataError', 'InterfaceError')


def make_logging_connection(log):
    import sqlite3

    class LoggingCursor(sqlite3.Cursor):
        def execute(self, sql, *args):
            log.append(sql)
            return sqlite3.Cursor.execute(self, sql, *args)

        def executemany(self, sql, *args):
            log.append(sql)
            return sqlite3.Cursor.executemany(self, sql, *args)

    class LoggingConnection(sqlite3.Connection):
        def cursor(self, factory=None):
            return sqlite3.Connection.cursor(self, LoggingCursor)
    return LoggingConnection


def is_dml(sql):
    return sql.lstrip().split(None, 1)[0].upper() in ('INSERT', 'UPDATE', 'DELETE', 'REPLACE')


class Harness(object):
    def __init__(self, program, props, stats=None, variant=None):
        """props: set of property ids whose invariants are evaluated ('C09', 'C10', ...)."""
        from pony.orm import Database
        self.program = program
        self.spec = program['spec']
        self.props = set(props)
        self.primary = set(props)
        if 'C13' in self.props:
            # the observable consequences of a badly undone call are judged with the C09/C10/C11/C12 oracles
            self.props |= {'C09', 'C10', 'C11', 'C12'}
        self.failed_ever = 0
        self.failed_since_db_check = 0
        self.stats = stats if stats is not None else {}
        self.variant = variant or {}
        self.model = refstore.Model(self.spec)
        self.db = Database()
        self.classes, self.src = modelspec.build_classes(self.spec, self.db, **self.variant.get('build', {}))
        self.sql_log = []
        self.db.bind('sqlite', ':memory:', factory=make_logging_connection(self.sql_log))
        self.db.generate_mapping(create_tables=True)
        self.dirty = False          # a modifying call succeeded since the last flush (explicit or possible auto-flush)
        self.window_dirty = set()
        self.window_deleted = 0
        self.window_tag = False
        self.last_failed_keys = None
        self.pobj = {}            # handle -> pony object (current session only)
        self.created = set()      # handles created in the current transaction and possibly not yet inserted
        self.maybe_flushed = False   # a read since the last explicit flush may have auto-flushed some of them
        self.doomed = False
        self.ghost_pks = set()
        self.failed_calls = 0
        self.in_session = False
        self.trace = []
        self.obs = []
        self._introspect()

    def keyed_sc(self, ent, sc):
        return dict(sc, unique=(ent, sc['name']) in self.model.keyed)

    def bump(self, k, n=1):
        self.stats[k] = self.stats.get(k, 0) + n

    # ------------------------------------------------------------------ mapping metadata (names only)
    def _introspect(self):
        self.fk_ends = set()
        self.colmap = {}
        for ename, cls in self.classes.items():
            for end, rev in self.model.rel_ends_of(ename):
                attr = getattr(cls, end['attr'])
                if not end['many'] and attr.columns:
                    self.fk_ends.add((ename, end['attr']))

    # ------------------------------------------------------------------ session control
    def begin(self, preload):
        from pony.orm import db_session, select
        db_session.__enter__()
        self.in_session = True
        self.pobj = {}
        self.created = set()
        self.maybe_flushed = False
        self.doomed = False
        self.dirty = False
        self.window_dirty = set()
        self.window_deleted = 0
        self.window_tag = False
        self.ghost_pks = set()         # (entity, pk) of objects deleted in this transaction and not yet flushed
        self.failed_calls = 0          # modifying calls that raised in this transaction
        self.trace.append(('-- session begins', '', None))
        self.session_no = getattr(self, 'session_no', -1) + 1
        sess_ = self.program['sessions']
        last = self.session_no >= len(sess_) - (2 if len(sess_) >= 2 and sess_[-2].get('mixed') else 1)
        if self.variant.get('preload') is not None and (last or not self.variant.get('last_session_only')):
            preload = self.variant['preload']
        if preload:
            for ename in sorted(self.classes):
                cls = self.classes[ename]
                q = cls.select()
                if self.variant.get('prefetch'):
                    rel_attrs = [getattr(cls, en['attr']) for en, r in self.model.rel_ends_of(ename)]
                    if rel_attrs:
                        q = q.prefetch(*rel_attrs)
                for obj in q[:]:
                    h = self.handle_of(obj)
                    if h is not None:
                        self.pobj[h] = obj

    def end(self, how):
        from pony.orm import db_session, rollback
        if how == 'commit':
            self.do_commit(via_exit=True)
        elif how == 'rollback':
            try:
                rollback()
            finally:
                db_session.__exit__()
            self.model.rollback()
        else:
            try:
                db_session.__exit__(ValueError, ValueError('body failed'), None)
            except ValueError:
                pass
            self.model.rollback()
        self.in_session = False
        self.pobj = {}
        self.created = set()
        if 'C09' in self.props or 'C14' in self.props or 'C15' in self.props:
            self.check_database('after session end (%s)' % how)
        if 'C12' in self.primary and how == 'commit':
            self.check_loaded_ends('after session end (%s)' % how)

    def close(self):
        from pony.orm import db_session, rollback
        try:
            if self.in_session:
                try:
                    rollback()
                finally:
                    db_session.__exit__()
        except Exception:
            pass
        self.in_session = False
        try:
            from pony.orm import core
            if core.local.db_session is not None:      # cleanup only: never leak a session into the next case
                try:
                    rollback()
                finally:
                    core.local.db_session = None
            if core.local.db2cache:
                rollback()
        except Exception:
            pass
        try:
            from pony.orm import core
            core.local.db_context_counter = 0       # cleanup only (a failing __exit__ may leave the nesting counter set)
        except Exception:
            pass
        try:
            self.db.disconnect()
        except Exception:
            pass

    # ------------------------------------------------------------------ handle <-> object
    def handle_of(self, obj):
        """model handle of a pony object (by python identity within the session, else by entity + pk)"""
        for h, o in self.pobj.items():
            if o is obj:
                return h
        ename = type(obj).__name__
        pk = obj.get_pk()
        if pk is None:
            return None
        for h, o in self.model.cur.objs.items():
            if o['ent'] == ename and o['pk'] == pk:
                return h
        return None

    def obj(self, h):
        o = self.pobj.get(h)
        if o is not None:
            return o
        m = self.model.cur.objs[h]
        if m['pk'] is None:
            raise Abort('handle %d has no pk and no session object' % h)
        cls = self.classes[m['ent']]
        try:
            o = cls[m['pk']]
        except Exception as e:
            if type(e).__name__ == 'ObjectNotFound' and not self.model.tainted and not self.doomed:
                for p in ('C15', 'C10', 'C09', 'C11', 'C12'):
                    if p in self.primary:
                        raise Fail(p, 'the session state holds h%d = %s[%r] as a live object (no delete reached it), but looking it '
                                      'up by primary key raises ObjectNotFound' % (h, m['ent'], m['pk']))
                raise Abort('live object not found: %s' % e)
            raise
        self.pobj[h] = o
        return o

    def learn_pks(self):
        for h, o in list(self.pobj.items()):
            m = self.model.cur.objs.get(h)
            if m is not None and m['pk'] is None:
                try:
                    pk = o.get_pk()
                except Exception:
                    pk = None
                if pk is not None:
                    m['pk'] = pk

    # ------------------------------------------------------------------ failure handling
    def fatal_rollback(self, exc, where):
        """a database-level failure ends the transaction: the program rolls back (like any sensible caller)"""
        from pony.orm import rollback
        try:
            rollback()
        except Exception:
            pass
        self.model.rollback()
        self.pobj = {}
        self.created = set()
        self.maybe_flushed = False
        self.doomed = False
        self.dirty = False
        self.window_dirty = set()
        self.window_deleted = 0
        self.window_tag = False
        self.ghost_pks = set()
        self.failed_calls = 0
        self.bump('tx_failed:' + type(exc).__name__)
        self.bump('tx_failures')

    def is_fatal(self, exc):
        return type(exc).__name__ in SESSION_FATAL

    # ------------------------------------------------------------------ flush / commit
    def expect_flush(self):
        """('must_fail' | 'must_succeed' | 'either', reason)"""
        if self.model.any_duplicates(self.model.cur):
            return 'must_fail', 'duplicate key in session state'
        if self.model.creation_cycle(self.created, self.fk_ends):
            if self.maybe_flushed:
                return 'either', 'cyclic references among objects that an earlier read may already have inserted'
            return 'must_fail', 'cyclic references among new objects'
        if self.model.tainted:
            return 'either', 'transient key conflict possible'
        return 'must_succeed', ''

    def do_flush(self):
        from pony.orm import flush
        exp, why = self.expect_flush()
        try:
            flush()
        except Exception as e:
            self.after_write_failure(e, exp, why, 'flush')
            return
        self.after_write_success(exp, why, 'flush')
        self.dirty = False
        self.window_dirty = set()
        self.window_deleted = 0
        self.window_tag = False
        self.learn_pks()
        self.created = set()
        self.maybe_flushed = False
        self.ghost_pks = set()

    def do_commit(self, via_exit=False):
        from pony.orm import commit, db_session
        exp, why = self.expect_flush()
        try:
            if via_exit:
                db_session.__exit__()
            else:
                commit()
        except Exception as e:
            if via_exit:
                self.in_session = False
            self.after_write_failure(e, exp, why, 'commit', already_rolled_back=via_exit)
            return False
        self.after_write_success(exp, why, 'commit')
        self.dirty = False
        self.window_dirty = set()
        self.window_deleted = 0
        self.window_tag = False
        self.learn_pks()
        self.created = set()
        self.maybe_flushed = False
        self.ghost_pks = set()
        self.failed_calls = 0
        for h, m in self.model.cur.objs.items():
            if m['pk'] is None:
                raise Fail('C09', 'object %s#%d has no primary key after a successful commit' % (m['ent'], h))
        self.model.commit()
        self.bump('commits')
        return True

    def after_write_success(self, exp, why, what):
        if exp == 'must_fail':
            if 'duplicate' in why:
                raise Fail('C14', '%s succeeded although the session holds a duplicate key (%s)' % (what, why))
            raise Fail('C16', '%s succeeded although %s' % (what, why))

    def after_write_failure(self, e, exp, why, what, already_rolled_back=False):
        name = type(e).__name__
        msg = str(e)
        if exp == 'must_succeed':
            fk = 'FOREIGN KEY' in msg or name == 'UnresolvableCyclicDependency'
            if name in ('OptimisticCheckError', 'UnrepeatableReadError') and 'C16' in self.props:
                # no other connection exists in this harness: a row can only have "changed outside the transaction"
                # because an earlier statement of the same flush (e.g. a DELETE cascading in the database) hit it
                raise Fail('C16', '%s failed with %s: %s although no other session exists: the flush order made the '
                                  'database change a row before its own pending write' % (what, name, msg[:300]))
            if fk and 'C16' in self.props:
                raise Fail('C16', '%s failed with %s: %s although all pending references can be ordered%s'
                           % (what, name, msg[:300], ' [history: an object with a pending update was deleted after another '
                                                     'delete in the same flush window]' if self.window_tag else ''))
            self.bump('unexpected_write_failure:' + name)
            if not self.is_fatal(e) and not isinstance(e, AssertionError):
                self.bump('unexpected_write_failure_nonfatal')
            if 'STRICT' in self.props:
                raise Fail('STRICT', '%s failed unexpectedly with %s: %s' % (what, name, msg[:300]))
        if what == 'flush' and self.program.get('after_failed_flush') == 'commit' and self.is_fatal(e) and self.in_session:
            self.commit_after_failed_flush(e)
            return
        self.fatal_rollback(e, what)

    def commit_after_failed_flush(self, e):
        """The program caught the error of an explicit flush() and goes on to commit() without rolling back first.
        Whatever commit() does then (fail again, or succeed), the database must hold either nothing of this transaction
        or all of it - never the part that happened to be written before the failing statement."""
        from pony.orm import commit, rollback
        self.bump('commit_after_failed_flush')
        try:
            commit()
            outcome = 'commit() succeeded'
        except Exception as e2:
            outcome = 'commit() raised %s' % type(e2).__name__
        try:
            rollback()
        except Exception:
            pass
        base, full = self.model.committed, self.model.cur
        first = None
        for name, state in (('nothing', base), ('everything', full)):
            self.model.committed = state
            try:
                self.check_database('after flush() failed with %s, the program caught it and called commit(): %s'
                                    % (type(e).__name__, outcome))
                break
            except Fail as f:
                first = first or f
        else:
            self.model.committed = base
            prop = next((p for p in ('C14', 'C09', 'C16', 'C13', 'C15') if p in self.primary), 'C09')
            raise Fail(prop, 'the database holds a part of the transaction: %s' % first.msg)
        if self.model.committed is base:
            self.model.rollback()
        else:
            self.model.commit()
        self.pobj = {}
        self.created = set()
        self.doomed = False
        self.maybe_flushed = False
        self.ghost_pks = set()
        self.failed_calls = 0
        self.dirty = False
        self.window_dirty = set()
        self.window_deleted = 0
        self.window_tag = False

    # ------------------------------------------------------------------ public-API snapshot (C13)
    def snapshot(self, depth):
        snap = {}
        for h in sorted(self.pobj):
            if h not in self.model.cur.objs:
                continue
            o = self.pobj[h]
            ent = self.model.cur.objs[h]['ent']
            d = {}
            for sc in self.model.ents[ent]['scalars']:
                d[sc['name']] = getattr(o, sc['name'])
            d['pk'] = o.get_pk()
            if depth >= 1:
                for end, rev in self.model.rel_ends_of(ent):
                    if end['many']:
                        if depth >= 2:
                            d[end['attr']] = sorted(self.ident(x) for x in getattr(o, end['attr']))
                    else:
                        v = getattr(o, end['attr'])
                        d[end['attr']] = None if v is None else self.ident(v)
            pk = d['pk']
            if pk is not None:
                cls = self.classes[ent]
                try:
                    d['lookup_is_same'] = cls[pk] is o
                except Exception as e:
                    d['lookup_is_same'] = type(e).__name__
            snap[h] = d
        return snap

    def ident(self, obj):
        h = self.handle_of(obj)
        if h is not None:
            return 'h%d' % h
        return '%s[%r]@%x' % (type(obj).__name__, obj.get_pk(), id(obj))

    # ------------------------------------------------------------------ one modifying call
    def modify(self, desc, model_call, pony_call, kind, force_call=None, needs=(), probes=()):
        """kind: 'create' | 'assign' | 'coll' | 'delete'"""
        status, res = model_call()
        if status == 'unknown':
            self.bump('model_unknown')
            return None
        # resolve every object the call needs first: a lookup may auto-flush, which must not be mistaken for an
        # effect of the call itself
        ok = [True]

        def resolve():
            for hh in needs:
                if hh is not None:
                    self.obj(hh)
        tx_before = self.stats.get('tx_failures', 0)
        self.guard_read(resolve)
        if self.stats.get('tx_failures', 0) != tx_before or not self.in_session:
            return None
        depth = self.program.get('snap', 0) if 'C13' in self.props else 0
        before = None
        if 'C13' in self.props:
            exp_, why_ = self.expect_flush()
            try:
                before = self.snapshot(depth)
            except (Fail, Abort):
                raise
            except Exception as e:
                if self.is_fatal(e):       # reading an unloaded attribute auto-flushed and the flush failed
                    self.after_write_failure(e, exp_, why_, 'auto-flush in read')
                    return None
                raise
        pending_before = self.pending_collection_state() if 'C13' in self.primary else None
        internals_ok_before = False
        if 'C13' in self.primary or 'C11' in self.primary:
            try:
                self.internal_diagnostics(desc)
                internals_ok_before = True
            except Fail:
                pass  # already inconsistent before this call: not attributable to its failure
        nobj_before = len(self.pobj)
        try:
            result = pony_call()
            raised = None
        except Abort:
            raise
        except Exception as e:
            raised = e
            result = None
        self.trace.append((desc, status if status != 'error' else 'error:' + res.kind,
                           None if raised is None else type(raised).__name__))
        if raised is None:
            self.bump('call_ok')
            self.dirty = True
            if status == 'ok':
                for hh, mm in self.model.cur.objs.items():
                    if hh not in res.objs and mm['pk'] is not None:
                        self.ghost_pks.add((mm['ent'], mm['pk']))
                # flush window bookkeeping (used only to recognise the history class of an open known finding)
                prev = self.model.cur
                gone = [hh for hh in prev.objs if hh not in res.objs]
                if gone:
                    self.window_deleted += len(gone)
                    if self.window_deleted >= 2 and any(hh in self.window_dirty for hh in gone):
                        self.window_tag = True
                for hh, mm in res.objs.items():
                    if hh in prev.objs and prev.objs[hh]['vals'] != mm['vals']:
                        self.window_dirty.add(hh)
                for k, v in res.links.items():
                    for pair in v ^ prev.links.get(k, set()):
                        self.window_dirty.update(pair)
                self.model.cur = res
            elif res.kind == 'conflict':
                # Pony accepted a key that the session state already holds elsewhere (the other row may simply not
                # be loaded): allowed as long as the conflict is reported by commit time.
                status2, res2 = force_call()
                if status2 != 'ok':
                    raise Abort('forced model op failed: %s' % (res2,))
                self.model.cur = res2
                self.model.tainted = True
                self.doomed = True     # two session objects now share a key: only flush/commit/rollback make sense from here
                self.bump('conflict_deferred')
            else:
                if kind == 'delete' and 'C15' in self.props:
                    raise Fail('C15', '%s succeeded although the reference model refuses it (%s)' % (desc, res))
                raise Abort('pony accepted %s, model refuses: %s' % (desc, res))
            return result
        # the call raised
        if self.is_fatal(raised):
            self.fatal_rollback(raised, desc)
            return None
        self.bump('call_failed:' + type(raised).__name__)
        failed_before = self.failed_calls
        self.failed_calls += 1
        self.failed_ever += 1
        self.failed_since_db_check += 1
        if isinstance(raised, (AssertionError, KeyError, AttributeError, IndexError, RecursionError)):
            self.bump('internal_error_from_call')
            if status == 'ok' and kind in ('create', 'assign') and 'C11' in self.primary and isinstance(raised, (KeyError, AssertionError)) \
                    and _raised_inside_pony(raised):
                raise Fail('C11', '%s, which the reference store accepts, raised an internal %s inside Pony (%s): the session '
                                  'key index does not match the objects the session holds'
                           % (desc, type(raised).__name__, str(raised)[:120]))
        if 'C11' in self.primary and 'C13' not in self.primary and internals_ok_before:
            self.internal_diagnostics(desc, 'C11')
        if 'C11' in self.primary and not self.model.tainted and not self.doomed:
            # the identity map after a failed call: every object the program holds is still the object of its primary key
            self.guard_read(lambda: self.check_identity(0))
            if not self.in_session or self.stats.get('tx_failures', 0) != tx_before:
                return None
        if 'C13' in self.primary:
            if internals_ok_before:
                self.internal_diagnostics(desc)
            pending_after = self.pending_collection_state()
            if pending_before is not None and pending_after is not None:
                for key in pending_before:
                    if key in pending_after and pending_after[key] != pending_before[key]:
                        raise Fail('C13', '%s failed but the pending additions/removals of h%d.%s changed from %r to %r '
                                          '(a later commit would write them)' % (desc, key[0], key[1], pending_before[key], pending_after[key]))
        if 'C13' in self.props:
            # drop objects registered by the failed call itself (a failed creation leaves no object)
            after = self.snapshot(depth)
            after = {h: d for h, d in after.items() if h in before}   # objects merely looked up by the failed call do not count
            if before != after:
                diff = [(h, before.get(h), after.get(h)) for h in sorted(set(before) | set(after))
                        if before.get(h) != after.get(h)]
                raise Fail('C13', '%s raised %s (%s) but the session changed: %s'
                           % (desc, type(raised).__name__, str(raised)[:120], diff[:3]))
        self.last_failed_keys = probes
        if 'C13' in self.primary and not self.dirty and self.program.get('snap', 0) >= 1 and not self.model.tainted:
            # nothing was modified successfully since the last flush: the failed call must not have queued a write
            from pony.orm import flush
            mark = len(self.sql_log)

            def do():
                flush()
            self.guard_read(do)
            if not self.in_session or self.stats.get('tx_failures', 0) != tx_before:
                return None
            dml = [q for q in self.sql_log[mark:] if is_dml(q)]
            self.bump('pending_write_probe')
            if dml:
                raise Fail('C13', '%s raised %s, yet a following flush() wrote on its behalf: %s'
                           % (desc, type(raised).__name__, dml[0][:200]))
        if 'C13' in self.props and probes and self.program.get('snap', 0) >= 1 and not self.model.tainted:
            self.probe_keys(desc, probes)
            if not self.in_session or self.stats.get('tx_failures', 0) != tx_before:
                return None
        if status == 'ok':
            self.bump('unexpected_refusal')
            if type(raised).__name__ == 'CacheIndexError' and kind in ('create', 'assign'):
                ghost = any(('primary key %s' % (', '.join(map(str, pk)) if isinstance(pk, tuple) else pk)) in str(raised)
                            for (ent_, pk) in self.ghost_pks)
                if not ghost:
                    # an object with an automatic key that was flushed meanwhile may legitimately hold the requested key
                    # (the reference store does not know database-assigned ids)
                    import re as _re
                    m = _re.match(r'Cannot create (\w+): instance with primary key (.+) already exists', str(raised))
                    if m:
                        for h_, o_ in list(self.pobj.items()):
                            mo = self.model.cur.objs.get(h_)
                            if mo is None or not mo.get('alive', True) or type(o_).__name__ != m.group(1):
                                continue
                            try:
                                if str(o_.get_pk()) == m.group(2):
                                    ghost = True
                            except Exception:
                                pass
                if not ghost:
                    # the session index claims a key that no live object of the session holds
                    if failed_before and 'C13' in self.props:
                        raise Fail('C13', '%s raised %s although no live object holds that key; an earlier failed call in '
                                          'this session left it in the key index' % (desc, str(raised)[:160]))
                    if 'C11' in self.props:
                        raise Fail('C11', '%s raised %s although no live object of the session holds that key'
                                   % (desc, str(raised)[:160]))
            if kind == 'delete' and 'C15' in self.props and isinstance(raised, Exception) \
                    and type(raised).__name__ == 'ConstraintError':
                raise Fail('C15', '%s refused (%s) although nothing required depends on it' % (desc, str(raised)[:200]))
            if 'STRICT' in self.props:
                raise Fail('STRICT', '%s raised %s: %s but the model accepts it' % (desc, type(raised).__name__, str(raised)[:200]))
        return None

    def internal_diagnostics(self, desc, prop='C13'):
        """Secondary diagnostic on Pony's private bookkeeping after a failed call (C13: 'object status and the set of
        pending writes'; C11: identity map).  Every object whose status says it has a pending write must sit in the save
        queue at its recorded position, and every live object with a primary key must be the one the pk index returns.
        If the private attributes do not exist (refactoring) the diagnostic is skipped, never raised."""
        try:
            cache = self.db._get_cache()
            queue = cache.objects_to_save
            objects = list(cache.objects)
            indexes = cache.indexes
        except Exception:
            return
        for o in objects:
            try:
                status = o._status_
                pos = o._save_pos_
            except Exception:
                return
            if prop == 'C13' and status in ('created', 'modified', 'marked_to_delete'):
                if pos is None or pos >= len(queue) or queue[pos] is not o:
                    raise Fail('C13', '%s failed and left %s with status %r but without its slot in the pending-write queue '
                                      '(its write would be silently dropped)' % (desc, self.safe_ident(o), status))
            if status in ('created', 'modified', 'loaded', 'inserted', 'updated'):
                try:
                    pk = o._pkval_
                    idx = indexes[type(o)._pk_attrs_]
                except Exception:
                    continue
                if pk is not None and idx.get(pk) is not o:
                    raise Fail(prop, '%s failed and left the live object %s out of the primary key index' % (desc, self.safe_ident(o)))
        for i, o in enumerate(queue if prop == 'C13' else ()):
            if o is not None and getattr(o, '_save_pos_', i) != i:
                raise Fail('C13', '%s failed and left the pending-write queue inconsistent at position %d' % (desc, i))

    def safe_ident(self, o):
        try:
            return self.ident(o)
        except Exception:
            return repr(o)

    def pending_collection_state(self):
        """internal secondary diagnostic: pending added/removed sets of the collections the session holds"""
        out = {}
        for h, o in sorted(self.pobj.items()):
            if h not in self.model.cur.objs:
                continue
            try:
                vals = o._vals_
            except Exception:
                return None
            ent = self.model.cur.objs[h]['ent']
            for end, rev in self.model.rel_ends_of(ent):
                if not end['many']:
                    continue
                try:
                    sd = vals.get(getattr(type(o), end['attr']))
                except Exception:
                    return None
                if sd is None:
                    continue
                try:
                    out[(h, end['attr'])] = (sorted(self.safe_ident(x) for x in (sd.added or ())),
                                             sorted(self.safe_ident(x) for x in (sd.removed or ())))
                except Exception:
                    return None
        return out

    def probe_keys(self, desc, probes):
        """key lookups after a failed call (part of C13's 'as if the call had not been made'): the keys the failed call
        tried to take must still map to whatever the reference store says holds them (usually nothing)."""
        st = self.model.cur

        def run():
            for ename, kw in probes:
                cls = self.classes[ename]
                exp = []
                for hh in self.model.live(st, ename):
                    m = st.objs[hh]
                    ok = True
                    for k, v in kw.items():
                        if k in ('id', 'k1', 'k2'):
                            pk = m['pk']
                            if pk is None:
                                return      # an unflushed auto id: cannot be judged
                            have = pk if k == 'id' else pk[0 if k == 'k1' else 1]
                        else:
                            have = m['vals'].get(k)
                        if have != v:
                            ok = False
                    if ok:
                        exp.append(hh)
                if any((ename, (kw.get('id') if 'id' in kw else (kw.get('k1'), kw.get('k2')))) == g for g in self.ghost_pks):
                    continue
                got = cls.get(**kw)
                self.bump('key_probe')
                if (got is None) != (not exp) or (got is not None and self.handle_of(got) not in exp):
                    raise Fail('C13', '%s failed, but afterwards %s.get(%s) returns %s while the session holds %s for that key'
                               % (desc, ename, ', '.join('%s=%r' % kv for kv in sorted(kw.items())),
                                  None if got is None else self.ident(got), ['h%d' % x for x in exp] or 'nothing'))
        self.guard_read(run)

    # ------------------------------------------------------------------ op decoding helpers
    def pick_live(self, c, ent=None):
        live = self.model.live(self.model.cur, ent)
        if not live:
            return None
        return live[c % len(live)]

    def op_ent(self, op, n):
        """optional trailing field of an op: index of the entity whose objects the op aims at (hub family)"""
        if len(op) > n and isinstance(op[n], int):
            ents = self.spec['entities']
            return ents[op[n] % len(ents)]['name']
        return None

    def settable_attrs(self, ent):
        out = [('scalar', sc) for sc in self.model.ents[ent]['scalars']]
        for end, rev in self.model.rel_ends_of(ent):
            out.append(('coll' if end['many'] else 'ref', (end, rev)))
        return out

    def subset(self, mask, ent, exclude=None):
        live = [h for h in self.model.live(self.model.cur, ent) if h != exclude][:5]   # an object is never put into its own collection
        return [h for i, h in enumerate(live) if mask >> i & 1]

    def ref_target(self, c, end, exclude=None, me=None):
        if not end['req'] and c % 4 == 0:
            return None
        if me is not None and c % 11:
            exclude = me          # self-links only rarely
        live = [h for h in self.model.live(self.model.cur, end['target']) if h != exclude]
        if not live:
            return None
        return live[(c // 4) % len(live)]

    # ------------------------------------------------------------------ ops
    def op_create(self, op):
        _, ei, pkc, scs, refs, colls = (list(op) + [0, 0, [], [], []])[:6]
        ents = self.spec['entities']
        e = ents[ei % len(ents)]
        ename = e['name']
        pk = pk_value(e['pk'], pkc)
        scalars = {}
        for i, sc in enumerate(e['scalars']):
            c = scs[i] if i < len(scs) else 0
            scalars[sc['name']] = scalar_value(self.keyed_sc(ename, sc), c)
        refd, colld = {}, {}
        ri = ci = 0
        for end, rev in self.model.rel_ends_of(ename):
            if end['many']:
                m = colls[ci] if ci < len(colls) else 0
                ci += 1
                items = self.subset(m, end['target'])
                if items:
                    colld[end['attr']] = items
            else:
                c = refs[ri] if ri < len(refs) else 1
                ri += 1
                t = self.ref_target(c, end)
                if t is not None:
                    refd[end['attr']] = t
        kw = {}
        if pk is not None:
            if e['pk'] == 'comp':
                kw['k1'], kw['k2'] = pk
            else:
                kw['id'] = pk
        for n, v in scalars.items():
            if v is not None:
                kw[n] = v
        holder = {}

        def model_call(ignore=False):
            self.model_ignore_conflicts = ignore
            st, res, h = self._model_create(ename, pk, scalars, refd, colld, ignore)
            holder['h'] = h
            return st, res

        def pony_call():
            pkw = dict(kw)
            for a, t in refd.items():
                pkw[a] = self.obj(t)
            for a, items in colld.items():
                pkw[a] = [self.obj(t) for t in items]
            o = self.classes[ename](**pkw)
            holder['o'] = o
            return o
        desc = 'create %s(%s)' % (ename, ', '.join('%s=%r' % kv for kv in sorted(
            list(kw.items()) + [(a, 'h%d' % t) for a, t in refd.items()] + [(a, ['h%d' % t for t in its]) for a, its in colld.items()])))
        probes = []
        if pk is not None:
            probes.append((ename, {'k1': pk[0], 'k2': pk[1]} if e['pk'] == 'comp' else {'id': pk}))
        for sc in e['scalars']:
            if sc['unique'] and scalars.get(sc['name']) is not None:
                probes.append((ename, {sc['name']: scalars[sc['name']]}))
        o = self.modify(desc, model_call, pony_call, 'create', force_call=lambda: model_call(True),
                        needs=list(refd.values()) + [t for its in colld.values() for t in its], probes=probes)
        if o is not None and holder.get('h') in self.model.cur.objs:
            self.pobj[holder['h']] = o
            self.created.add(holder['h'])
            if e['pk'] == 'auto' and pk is not None:
                self.model.tainted = True     # an explicit id may collide with an id the database hands out at flush
            if self.model.key_seen_elsewhere(holder['h'], self.model.cur):
                self.model.tainted = True
            self.bump('created')
        self.prune()

    def _model_create(self, ename, pk, scalars, refd, colld, ignore):
        if not ignore:
            return self.model.op_create(ename, pk, scalars, refd, colld)
        saved = self.model.conflicts
        self.model.conflicts = lambda st, h: []
        try:
            return self.model.op_create(ename, pk, scalars, refd, colld)
        finally:
            self.model.conflicts = saved

    def _ignoring_conflicts(self, fn):
        saved = self.model.conflicts
        self.model.conflicts = lambda st, h: []
        try:
            return fn()
        finally:
            self.model.conflicts = saved

    def prune(self):
        for h in list(self.pobj):
            if h not in self.model.cur.objs:
                del self.pobj[h]
        self.created &= set(self.model.cur.objs)

    def op_set(self, op):
        _, oc, ac, vc = (list(op) + [0, 0, 0])[:4]
        h = self.pick_live(oc, self.op_ent(op, 4))
        if h is None:
            return
        ent = self.model.cur.objs[h]['ent']
        attrs = self.settable_attrs(ent)
        if not attrs:
            return
        kind, info = attrs[ac % len(attrs)]
        if kind == 'scalar':
            sc = info
            v = scalar_value(self.keyed_sc(ent, sc), vc)

            def pony_call():
                setattr(self.obj(h), sc['name'], v)
                return True
            self.modify('h%d.%s = %r' % (h, sc['name'], v), lambda: self.model.op_set_scalar(h, sc['name'], v), pony_call,
                        'assign', force_call=lambda: self._ignoring_conflicts(lambda: self.model.op_set_scalar(h, sc['name'], v)),
                        needs=[h], probes=[(ent, {sc['name']: v})] if sc['unique'] and v is not None else [])
            if h in self.model.cur.objs and self.model.key_seen_elsewhere(h, self.model.cur):
                self.model.tainted = True
        elif kind == 'ref':
            end, rev = info
            t = self.ref_target(vc, dict(end, req=False), exclude=h if end['side'] == 's' else None, me=h)
            if t is None and end['req'] and vc % 3:
                t = self.ref_target(vc | 1, end, me=h)

            def pony_call():
                setattr(self.obj(h), end['attr'], None if t is None else self.obj(t))
                return True
            self.modify('h%d.%s = %s' % (h, end['attr'], 'None' if t is None else 'h%d' % t),
                        lambda: self.model.op_set_ref(h, end['attr'], t), pony_call, 'assign', needs=[h, t])
        else:
            end, rev = info
            items = self.subset(vc, end['target'], exclude=h)

            def pony_call():
                setattr(self.obj(h), end['attr'], [self.obj(t) for t in items])
                return True
            self.modify('h%d.%s = %s' % (h, end['attr'], ['h%d' % t for t in items]),
                        lambda: self.model.op_coll(h, end['attr'], 'set', items), pony_call, 'coll', needs=[h] + items)
        self.prune()

    def op_setm(self, op):
        _, oc, pairs = (list(op) + [0, []])[:3]
        h = self.pick_live(oc, self.op_ent(op, 3))
        if h is None:
            return
        ent = self.model.cur.objs[h]['ent']
        attrs = self.settable_attrs(ent)
        if not attrs:
            return
        scalars, refs, colls = {}, {}, {}
        rels_touched = set()
        for pair in pairs[:4]:
            ac, vc = (list(pair) + [0, 0])[:2]
            kind, info = attrs[ac % len(attrs)]
            if kind == 'scalar':
                scalars[info['name']] = scalar_value(self.keyed_sc(ent, info), vc)
                continue
            end, rev = info
            if rels_touched:
                continue       # one relationship per set() call: several at once can be contradictory input
                               # (both ends of a self-relationship; linking X while a cascade of the same call deletes X)
            rels_touched.add(end['rel'])
            if kind == 'ref':
                refs[end['attr']] = self.ref_target(vc, dict(end, req=False), exclude=h)
            else:
                colls[end['attr']] = self.subset(vc, end['target'], exclude=h)
        if not (scalars or refs or colls):
            return

        def pony_call():
            kw = dict(scalars)
            for a, t in refs.items():
                kw[a] = None if t is None else self.obj(t)
            for a, items in colls.items():
                kw[a] = [self.obj(t) for t in items]
            self.obj(h).set(**kw)
            return True
        desc = 'h%d.set(%s)' % (h, ', '.join(['%s=%r' % kv for kv in sorted(scalars.items())]
                                                + ['%s=%s' % (a, 'None' if t is None else 'h%d' % t) for a, t in sorted(refs.items())]
                                                + ['%s=%s' % (a, ['h%d' % t for t in its]) for a, its in sorted(colls.items())]))
        self.modify(desc, lambda: self.model.op_set_multi(h, scalars, refs, colls), pony_call, 'assign',
                    force_call=lambda: self._ignoring_conflicts(lambda: self.model.op_set_multi(h, scalars, refs, colls)),
                    needs=[h] + list(refs.values()) + [t for its in colls.values() for t in its],
                    probes=[(ent, {n: v}) for n, v in sorted(scalars.items()) if v is not None and
                            [sc for sc in self.model.ents[ent]['scalars'] if sc['name'] == n and sc['unique']]])
        if h in self.model.cur.objs and self.model.key_seen_elsewhere(h, self.model.cur):
            self.model.tainted = True
        self.prune()

    def op_coll(self, op):
        name, oc, ac, mask = (list(op) + [0, 0, 0])[:4]
        h = self.pick_live(oc, self.op_ent(op, 4))
        if h is None:
            return
        ent = self.model.cur.objs[h]['ent']
        colls = [(e, r) for e, r in self.model.rel_ends_of(ent) if e['many']]
        if not colls:
            return
        end, rev = colls[ac % len(colls)]
        items = self.subset(mask, end['target'], exclude=h)
        how = {'cadd': 'add', 'crem': 'remove', 'cclear': 'set'}[name]
        if name == 'cclear':
            items = []

        def pony_call():
            coll = getattr(self.obj(h), end['attr'])
            pitems = [self.obj(t) for t in items]
            if name == 'cadd':
                if mask % 2 and len(pitems) == 1:
                    coll.add(pitems[0])
                else:
                    coll.add(pitems)
            elif name == 'crem':
                if mask % 2 and len(pitems) == 1:
                    coll.remove(pitems[0])
                else:
                    coll.remove(pitems)
            else:
                coll.clear()
            return True
        self.modify('h%d.%s.%s(%s)' % (h, end['attr'], how if name != 'cclear' else 'clear', ['h%d' % t for t in items]),
                    lambda: self.model.op_coll(h, end['attr'], how, items), pony_call,
                    'delete' if (name != 'cadd' and end['cascade']) else 'coll', needs=[h] + items)
        self.prune()

    def op_retake(self, op):
        """create an object that takes the unique values a failed call tried to take (they must be free again)"""
        if not self.last_failed_keys:
            return
        _, c = (list(op) + [0])[:2]
        ename, kw = self.last_failed_keys[c % len(self.last_failed_keys)]
        self.last_failed_keys = None
        e = self.model.ents[ename]
        if any(end['req'] for end, rev in self.model.rel_ends_of(ename) if not end['many']):
            return
        pk = None
        if 'id' in kw:
            pk = kw['id']
        elif 'k1' in kw:
            pk = (kw['k1'], kw['k2'])
        elif e['pk'] != 'auto':
            return
        scalars = {}
        used = set()
        for hh in self.model.live(self.model.cur, ename):
            used.update(v for v in self.model.cur.objs[hh]['vals'].values() if v is not None)
        fresh_i = [i for i in (7, 8, 9, 11, 12) if i not in used]
        fresh_s = [x for x in ('q', 'r', 't', 'w', 'y') if x not in used]
        for sc in e['scalars']:
            if sc['name'] in kw:
                scalars[sc['name']] = kw[sc['name']]
            elif sc['req'] or sc['unique']:
                pool = fresh_i if sc['type'] == 'int' else fresh_s
                if not pool:
                    return
                scalars[sc['name']] = pool.pop()
            else:
                scalars[sc['name']] = None
        pkw = {n: v for n, v in scalars.items() if v is not None}
        if pk is not None:
            if e['pk'] == 'comp':
                pkw['k1'], pkw['k2'] = pk
            else:
                pkw['id'] = pk
        holder = {}

        def model_call():
            st, res, hnew = self.model.op_create(ename, pk, scalars, {}, {})
            holder['h'] = hnew
            return st, res

        def pony_call():
            return self.classes[ename](**pkw)
        desc = 'retake: create %s(%s)' % (ename, ', '.join('%s=%r' % kv for kv in sorted(pkw.items())))
        o = self.modify(desc, model_call, pony_call, 'create',
                        force_call=lambda: self._ignoring_conflicts(model_call))
        if o is not None and holder.get('h') in self.model.cur.objs:
            self.pobj[holder['h']] = o
            self.created.add(holder['h'])
            if e['pk'] == 'auto' and pk is not None:
                self.model.tainted = True
            if self.model.key_seen_elsewhere(holder['h'], self.model.cur):
                self.model.tainted = True
        self.prune()

    def op_rekey(self, op):
        """move an object off one of its unique / composite key values, then create another object that takes the old
        value: the session's key index must have released it"""
        _, oc, c = (list(op) + [0, 0])[:3]
        st = self.model.cur
        cands = []
        for h in self.model.live(st):
            e = self.model.ents[st.objs[h]['ent']]
            for sc in e['scalars']:
                if (st.objs[h]['ent'], sc['name']) in self.model.keyed and st.objs[h]['vals'].get(sc['name']) is not None:
                    cands.append((h, sc))
        if not cands:
            return
        h, sc = cands[oc % len(cands)]
        ent = st.objs[h]['ent']
        e = self.model.ents[ent]
        if any(end['req'] for end, rev in self.model.rel_ends_of(ent) if not end['many']):
            return
        old_vals = dict(st.objs[h]['vals'])
        # new value: None when allowed (key becomes incomplete), else a fresh value
        used = set()
        for hh in self.model.live(st, ent):
            used.update(v for v in st.objs[hh]['vals'].values() if v is not None)
        fresh = [v for v in ((7, 8, 9, 11) if sc['type'] == 'int' else ('q', 'r', 't', 'w')) if v not in used]
        if not sc['req'] and c % 2 == 0:
            newv = None
        elif fresh:
            newv = fresh[0]
        else:
            return

        def pony_set():
            setattr(self.obj(h), sc['name'], newv)
            return True
        self.modify('rekey: h%d.%s = %r' % (h, sc['name'], newv), lambda: self.model.op_set_scalar(h, sc['name'], newv), pony_set,
                    'assign', force_call=lambda: self._ignoring_conflicts(lambda: self.model.op_set_scalar(h, sc['name'], newv)),
                    needs=[h])
        if not self.in_session or self.doomed or h not in self.model.cur.objs or self.model.cur.objs[h]['vals'].get(sc['name']) != newv:
            return
        # create the taker of the old key values
        st = self.model.cur
        used = set()
        for hh in self.model.live(st, ent):
            used.update(v for v in st.objs[hh]['vals'].values() if v is not None)
        fresh_i = [i for i in (12, 13, 14, 15, 16) if i not in used]
        fresh_s = [x for x in ('y', 'z', 'u', 'v', 'k') if x not in used]
        scalars = {}
        keyed_with = set([sc['name']])
        for ck in e['ckeys']:
            if sc['name'] in ck:
                keyed_with.update(ck)
        for s2 in e['scalars']:
            if s2['name'] in keyed_with:
                scalars[s2['name']] = old_vals.get(s2['name'])
            elif s2['req'] or (ent, s2['name']) in self.model.keyed:
                pool = fresh_i if s2['type'] == 'int' else fresh_s
                if not pool:
                    return
                scalars[s2['name']] = pool.pop()
            else:
                scalars[s2['name']] = None
        if any(scalars.get(n) is None for n in keyed_with if [x for x in e['scalars'] if x['name'] == n and x['req']]):
            return
        if e['pk'] != 'auto':
            return
        pkw = {n: v for n, v in scalars.items() if v is not None}
        holder = {}

        def model_call():
            stt, res, hnew = self.model.op_create(ent, None, scalars, {}, {})
            holder['h'] = hnew
            return stt, res

        def pony_call():
            return self.classes[ent](**pkw)
        o = self.modify('rekey: create %s(%s) taking the released key' % (ent, ', '.join('%s=%r' % kv for kv in sorted(pkw.items()))),
                        model_call, pony_call, 'create', force_call=lambda: self._ignoring_conflicts(model_call))
        if o is not None and holder.get('h') in self.model.cur.objs:
            self.pobj[holder['h']] = o
            self.created.add(holder['h'])
            if self.model.key_seen_elsewhere(holder['h'], self.model.cur):
                self.model.tainted = True
        self.prune()

    def op_delete(self, op):
        _, oc = (list(op) + [0])[:2]
        ent = None
        if len(op) > 2:     # ['del', c, entity index]: delete an object of that entity (the hub family aims at the hub)
            ents = self.spec['entities']
            ent = ents[op[2] % len(ents)]['name']
        h = self.pick_live(oc, ent)
        if h is None:
            return

        def pony_call():
            self.obj(h).delete()
            return True
        # coverage measure only: does this delete do part of its cascade/unlinking before a relationship refuses it?
        try:
            st_ = self.model.cur
            ends_ = self.model.rel_ends_of(st_.objs[h]['ent'])
            work = refused = False
            for end, rev in [er for er in ends_ if er[0]['many']] + [er for er in ends_ if not er[0]['many']]:
                if not self.model.partners(st_, h, end):
                    continue
                if rev is not None and not rev['many'] and rev['req'] and not end['cascade']:
                    refused = True
                    break
                if rev is not None and (end['cascade'] or not rev['many']):
                    work = True
            if refused:
                self.bump('delete_refused_by_model')
                if work:
                    self.bump('delete_refused_after_partial_work')
        except Exception:
            pass
        self.modify('h%d.delete()' % h, lambda: self.model.op_delete(h), pony_call, 'delete', needs=[h])
        self.prune()

    # ------------------------------------------------------------------ reads (C10) and invariants
    def expected_partners(self, h, end):
        return self.model.partners(self.model.cur, h, end)

    def read_ops(self, op):
        """op = ['read', kind, a, b, c]"""
        from pony.orm import select, count, ObjectNotFound, MultipleObjectsFoundError
        _, kc, a, b, c = (list(op) + [0, 0, 0, 0])[:5]
        kinds = ['attr', 'coll', 'len', 'count', 'in', 'isempty', 'getpk', 'getattr', 'exists', 'selectkw', 'selectlambda',
                 'countall', 'agg', 'todict', 'selectref', 'iterent', 'scancoll', 'scanref']
        kind = kinds[kc % len(kinds)]
        st = self.model.cur
        self.bump('read:' + kind)
        if kind in ('scancoll', 'scanref'):
            # touch the same relationship of every object of one entity: the batch-loading / prefetch path
            ents = self.spec['entities']
            e = ents[a % len(ents)]
            ename = e['name']
            cls = self.classes[ename]
            rels = [(en, r) for en, r in self.model.rel_ends_of(ename) if en['many'] == (kind == 'scancoll')]
            if not rels:
                return
            end, rev = rels[b % len(rels)]
            q = select(x for x in cls)
            if self.variant.get('prefetch'):
                q = q.prefetch(getattr(cls, end['attr']))
            objs = sorted(q[:], key=lambda x: repr(x.get_pk()))
            if c % 2:
                objs.reverse()
            self.learn_pks()
            for x in objs:
                hx = self.handle_of(x)
                if hx is None or hx not in st.objs:
                    raise Fail('C10', 'select over %s returned %s which the session state does not contain' % (ename, self.ident(x)))
                val = getattr(x, end['attr'])
                items = list(val) if end['many'] else ([] if val is None else [val])
                got = set(self.handle_of(i) for i in items)
                exp = self.model.partners(st, hx, end)
                self.obs.append((kind, ename, end['attr'], self.pk_of(hx), sorted(repr(self.pk_of(i)) for i in exp)))
                if got != exp:
                    raise Fail('C10', 'scanning %s.%s: h%d has %s, session state says %s'
                               % (ename, end['attr'], hx, sorted(map(str, got)), sorted(exp)))
                if not end['many'] and val is not None:
                    # reading a scalar of the referenced object loads it (possibly together with its siblings)
                    tent = st.objs[exp and next(iter(exp))]['ent'] if exp else None
                    for sc in self.model.ents[end['target']]['scalars'][:2]:
                        gotv = getattr(val, sc['name'])
                        expv = st.objs[next(iter(exp))]['vals'].get(sc['name'])
                        if gotv != expv:
                            raise Fail('C10', 'scanning %s.%s: %s.%s reads %r, session state is %r'
                                       % (ename, end['attr'], self.ident(val), sc['name'], gotv, expv))
            return
        if kind in ('attr', 'coll', 'len', 'count', 'in', 'isempty', 'todict'):
            h = self.pick_live(a)
            if h is None:
                return
            ent = st.objs[h]['ent']
            o = self.obj(h)
            if kind == 'attr':
                for sc in self.model.ents[ent]['scalars']:
                    got = getattr(o, sc['name'])
                    exp = st.objs[h]['vals'].get(sc['name'])
                    if got != exp:
                        raise Fail('C10', 'h%d.%s reads %r, session state is %r' % (h, sc['name'], got, exp))
                for end, rev in self.model.rel_ends_of(ent):
                    if end['many']:
                        continue
                    got = getattr(o, end['attr'])
                    exp = self.model.partner(st, h, end)
                    goth = None if got is None else self.handle_of(got)
                    if (got is None) != (exp is None) or (got is not None and goth != exp):
                        raise Fail('C10', 'h%d.%s reads %s, session state is %s' % (h, end['attr'], self.ident(got) if got is not None else None, exp))
                return
            if kind == 'todict':
                d = o.to_dict(with_collections=bool(b % 2), related_objects=False)
                for sc in self.model.ents[ent]['scalars']:
                    if d.get(sc['name']) != st.objs[h]['vals'].get(sc['name']):
                        raise Fail('C10', 'h%d.to_dict()[%r] = %r, session state is %r'
                                   % (h, sc['name'], d.get(sc['name']), st.objs[h]['vals'].get(sc['name'])))
                for end, rev in self.model.rel_ends_of(ent):
                    if end['many']:
                        if b % 2:
                            exp = [self.pk_of(x) for x in self.model.partners(st, h, end)]
                            got = d.get(end['attr'])
                            if None not in exp and None not in got and sorted(got) != sorted(exp):
                                raise Fail('C10', 'h%d.to_dict()[%r] = %r, session state is %r' % (h, end['attr'], got, exp))
                    else:
                        p = self.model.partner(st, h, end)
                        exp = None if p is None else self.pk_of(p)
                        if p is None or exp is not None:
                            if d.get(end['attr']) != exp:
                                raise Fail('C10', 'h%d.to_dict()[%r] = %r, session state is %r' % (h, end['attr'], d.get(end['attr']), exp))
                return
            colls = [(e, r) for e, r in self.model.rel_ends_of(ent) if e['many']]
            if not colls:
                return
            end, rev = colls[b % len(colls)]
            exp = self.model.partners(st, h, end)
            coll = getattr(o, end['attr'])
            if kind == 'coll':
                got = set(self.handle_of(x) for x in coll)
                if got != exp:
                    raise Fail('C10', 'iterating h%d.%s gives %s, session state is %s' % (h, end['attr'], sorted(map(str, got)), sorted(exp)))
            elif kind == 'len':
                got = len(coll)
                if got != len(exp):
                    raise Fail('C10', 'len(h%d.%s) = %d, session state has %d' % (h, end['attr'], got, len(exp)))
            elif kind == 'count':
                got = coll.count()
                if got != len(exp):
                    raise Fail('C10', 'h%d.%s.count() = %d, session state has %d' % (h, end['attr'], got, len(exp)))
            elif kind == 'isempty':
                got = coll.is_empty()
                if got != (not exp):
                    raise Fail('C10', 'h%d.%s.is_empty() = %r, session state has %d items' % (h, end['attr'], got, len(exp)))
                got2 = bool(coll)
                if got2 != bool(exp):
                    raise Fail('C10', 'bool(h%d.%s) = %r, session state has %d items' % (h, end['attr'], got2, len(exp)))
            elif kind == 'in':
                t = self.pick_live(c, end['target'])
                if t is None:
                    return
                got = self.obj(t) in coll
                if got != (t in exp):
                    raise Fail('C10', '(h%d in h%d.%s) = %r, session state says %r' % (t, h, end['attr'], got, t in exp))
            return
        ents = self.spec['entities']
        e = ents[a % len(ents)]
        ename = e['name']
        cls = self.classes[ename]
        live = self.model.live(st, ename)
        if kind == 'getpk':
            pk = pk_value(e['pk'] if e['pk'] != 'auto' else 'int', b) if e['pk'] != 'auto' else 1 + b % 4
            exp = [h for h in live if st.objs[h]['pk'] == pk]
            if any(st.objs[h]['pk'] is None for h in live):
                return      # an unflushed auto id may or may not become this value
            try:
                got = cls[pk]
            except ObjectNotFound:
                got = None
            got2 = cls.get(**({'k1': pk[0], 'k2': pk[1]} if e['pk'] == 'comp' else {'id': pk}))
            if (got is None) != (not exp) or (got2 is None) != (not exp):
                raise Fail('C10', '%s[%r] -> %s, %s.get -> %s, session state has %s' % (ename, pk, got, ename, got2, exp))
            if got is not None and (self.handle_of(got) != exp[0] or got2 is not got):
                raise Fail('C11', '%s[%r] is %s / get gives %s, expected h%d' % (ename, pk, self.ident(got), self.ident(got2), exp[0]))
            return
        if kind == 'countall':
            got = cls.select().count()
            if got != len(live):
                raise Fail('C10', '%s.select().count() = %d, session state has %d' % (ename, got, len(live)))
            got = count(x for x in cls)
            if got != len(live):
                raise Fail('C10', 'count(x for x in %s) = %d, session state has %d' % (ename, got, len(live)))
            return
        if kind == 'iterent':
            got = sorted(str(self.handle_of(x)) for x in select(x for x in cls))
            if got != sorted(str(h) for h in live):
                raise Fail('C10', 'select(x for x in %s) gives %s, session state has %s' % (ename, got, live))
            return
        if kind == 'selectref':
            ends_ = [(en, r) for en, r in self.model.rel_ends_of(ename)]
            if not ends_:
                return
            end, rev = ends_[b % len(ends_)]
            t = self.pick_live(c, end['target'])
            if t is None:
                return
            to = self.obj(t)
            aname = end['attr']
            if end['many']:
                got = set(self.handle_of(x) for x in select(x for x in cls if to in getattr(x, aname)))
            else:
                got = set(self.handle_of(x) for x in select(x for x in cls if getattr(x, aname) == to))
            exp = set(h for h in live if t in self.model.partners(st, h, end))
            if got != exp:
                raise Fail('C10', 'select(x for x in %s if h%d %s x.%s) gives %s, session state says %s'
                           % (ename, t, 'in' if end['many'] else '==', aname, sorted(map(str, got)), sorted(exp)))
            return
        if not e['scalars']:
            return
        sc = e['scalars'][b % len(e['scalars'])]
        v = scalar_value(dict(sc, req=True), c)
        name = sc['name']
        exp = [h for h in live if st.objs[h]['vals'].get(name) == v]
        if kind == 'getattr':
            try:
                got = cls.get(**{name: v})
                n = 0 if got is None else 1
            except MultipleObjectsFoundError:
                got, n = None, 2
            if min(len(exp), 2) != n:
                raise Fail('C10', '%s.get(%s=%r) found %s object(s), session state has %s' % (ename, name, v, n if n < 2 else 'several', exp))
            if n == 1 and self.handle_of(got) != exp[0]:
                raise Fail('C11' if sc['unique'] else 'C10', '%s.get(%s=%r) returned %s, expected h%d' % (ename, name, v, self.ident(got), exp[0]))
        elif kind == 'exists':
            got = cls.exists(**{name: v})
            if got != bool(exp):
                raise Fail('C10', '%s.exists(%s=%r) = %r, session state has %s' % (ename, name, v, got, exp))
        elif kind == 'selectkw':
            got = sorted(str(self.handle_of(x)) for x in cls.select(**{name: v}))
            if got != sorted(str(h) for h in exp):
                raise Fail('C10', '%s.select(%s=%r) gives %s, session state has %s' % (ename, name, v, got, exp))
        elif kind == 'selectlambda':
            if sc['type'] == 'int':
                got = sorted(str(self.handle_of(x)) for x in cls.select(lambda x: getattr(x, name) >= v))
                exp2 = [h for h in live if st.objs[h]['vals'].get(name) is not None and st.objs[h]['vals'][name] >= v]
            else:
                got = sorted(str(self.handle_of(x)) for x in cls.select(lambda x: getattr(x, name) == v))
                exp2 = exp
            if got != sorted(str(h) for h in exp2):
                raise Fail('C10', '%s.select(lambda x: x.%s >=/== %r) gives %s, session state has %s' % (ename, name, v, got, exp2))
        elif kind == 'agg':
            if sc['type'] != 'int':
                return
            from pony.orm import sum as psum, max as pmax, min as pmin
            vals = [st.objs[h]['vals'][name] for h in live if st.objs[h]['vals'].get(name) is not None]
            got = (psum(getattr(x, name) for x in cls), pmax(getattr(x, name) for x in cls), pmin(getattr(x, name) for x in cls))
            exp3 = (sum(vals), max(vals) if vals else None, min(vals) if vals else None)
            if got != exp3:
                raise Fail('C10', 'sum/max/min of %s.%s = %r, session state gives %r' % (ename, name, got, exp3))
        self.learn_pks()

    def pk_of(self, h):
        return self.model.cur.objs[h]['pk']

    def check_relationship_ends(self, where):
        """C12: both ends agree, judged on Pony's own answers only (public reads)"""
        handles = sorted(self.pobj)
        for h in handles:
            if h not in self.model.cur.objs:
                continue
            ent = self.model.cur.objs[h]['ent']
            o = self.pobj[h]
            for end, rev in self.model.rel_ends_of(ent):
                val = getattr(o, end['attr'])
                items = list(val) if end['many'] else ([] if val is None else [val])
                for it in items:
                    back = getattr(it, rev['attr'])
                    ok = (o in back) if rev['many'] else (back is o)
                    if not ok:
                        raise Fail('C12', '%s: %s is in h%d.%s but %s.%s does not point back (%s)'
                                   % (where, self.ident(it), h, end['attr'], self.ident(it), rev['attr'],
                                      'collection' if rev['many'] else self.ident(back) if back is not None else None))
                    if end['side'] == 's' and it is o and not end['many']:
                        pass

    def check_loaded_ends(self, where):
        """C12 for data loaded from the database: every end is read in a session of its own (so that loading one end cannot
        fill in the other) and both ends must agree."""
        from pony.orm import db_session
        st = self.model.committed
        seen = {}
        for h in sorted(st.objs):
            m = st.objs[h]
            if m['pk'] is None:
                continue
            cls = self.classes[m['ent']]
            for end, rev in self.model.rel_ends_of(m['ent']):
                with db_session:
                    o = cls[m['pk']]
                    val = getattr(o, end['attr'])
                    items = list(val) if end['many'] else ([] if val is None else [val])
                    seen[(h, end['attr'])] = set((type(i).__name__, i.get_pk()) for i in items)
        for h in sorted(st.objs):
            m = st.objs[h]
            for end, rev in self.model.rel_ends_of(m['ent']):
                mine = seen.get((h, end['attr']))
                if mine is None:
                    continue
                for h2 in sorted(st.objs):
                    m2 = st.objs[h2]
                    if m2['ent'] != end['target'] or m2['pk'] is None:
                        continue
                    back = seen.get((h2, rev['attr']))
                    if back is None:
                        continue
                    a = (m2['ent'], m2['pk']) in mine
                    b = (m['ent'], m['pk']) in back
                    if a != b:
                        raise Fail('C12', '%s: loaded from the database, %s[%r].%s %s %s[%r] but %s[%r].%s %s %s[%r]'
                                   % (where, m['ent'], m['pk'], end['attr'], 'contains' if a else 'does not contain', m2['ent'], m2['pk'],
                                      m2['ent'], m2['pk'], rev['attr'], 'contains' if b else 'does not contain', m['ent'], m['pk']))

    def check_against_model(self, where):
        """C10/C12: session-visible relationship state equals the reference store (cheap full comparison)"""
        st = self.model.cur
        for h in sorted(self.pobj):
            if h not in st.objs:
                continue
            ent = st.objs[h]['ent']
            o = self.pobj[h]
            for end, rev in self.model.rel_ends_of(ent):
                val = getattr(o, end['attr'])
                got = set(self.handle_of(x) for x in (val if end['many'] else ([] if val is None else [val])))
                exp = self.model.partners(st, h, end)
                if got != exp:
                    raise Fail('C12' if 'C12' in self.props else 'C10', '%s: h%d.%s is %s, reference store says %s'
                               % (where, h, end['attr'], sorted(map(str, got)), sorted(exp)))

    def check_identity(self, mode):
        """C11: every way of reaching a pk yields the same python object"""
        from pony.orm import select
        st = self.model.cur
        for h in sorted(self.pobj):
            if h not in st.objs:
                continue
            m = st.objs[h]
            o = self.pobj[h]
            pk = o.get_pk()
            if pk is None:
                continue
            cls = self.classes[m['ent']]
            try:
                o2 = cls[pk]
            except Exception as e:
                if type(e).__name__ != 'ObjectNotFound':
                    raise
                raise Fail('C11', '%s[%r] raises ObjectNotFound although the program holds that live object (h%d)' % (m['ent'], pk, h))
            if o2 is not o:
                raise Fail('C11', '%s[%r] is a different object than the one the program holds (h%d)' % (m['ent'], pk, h))
            o3 = cls.get(**({'k1': pk[0], 'k2': pk[1]} if isinstance(pk, tuple) else {'id': pk}))
            if o3 is not o:
                raise Fail('C11', '%s.get(pk=%r) is a different object (h%d)' % (m['ent'], pk, h))
            for ck in self.model.ents[m['ent']]['ckeys']:
                vals = {n: m['vals'].get(n) for n in ck}
                if mode >= 1 and None not in vals.values():
                    o6 = cls.get(**vals)
                    if o6 is not o:
                        raise Fail('C11', '%s.get(%s) returned %s, but h%d holds that composite key'
                                   % (m['ent'], ', '.join('%s=%r' % kv for kv in sorted(vals.items())),
                                      None if o6 is None else self.ident(o6), h))
            for sc in self.model.ents[m['ent']]['scalars']:
                if sc['unique'] and m['vals'].get(sc['name']) is not None and mode >= 1:
                    o4 = cls.get(**{sc['name']: m['vals'][sc['name']]})
                    if o4 is not o:
                        raise Fail('C11', '%s.get(%s=%r) returned %s, but h%d holds that unique value'
                                   % (m['ent'], sc['name'], m['vals'][sc['name']], None if o4 is None else self.ident(o4), h))
        if mode >= 2:
            for ename, cls in sorted(self.classes.items()):
                objs = list(select(x for x in cls))
                self.learn_pks()
                seen = {}
                for x in objs:
                    pk = x.get_pk()
                    if pk in seen:
                        raise Fail('C11', 'select over %s returned two objects with pk %r' % (ename, pk))
                    seen[pk] = x
                for h, o in self.pobj.items():
                    if h in st.objs and st.objs[h]['ent'] == ename:
                        pk = o.get_pk()
                        if pk in seen and seen[pk] is not o:
                            raise Fail('C11', 'select over %s returned a second object for pk %r (h%d)' % (ename, pk, h))
                table = cls._table_
                objs2 = cls.select_by_sql('select * from "%s"' % table) if isinstance(table, str) else []
                for x in objs2:
                    if seen.get(x.get_pk()) is not x:
                        raise Fail('C11', 'select_by_sql over %s returned a different object for pk %r' % (ename, x.get_pk()))
        if mode >= 3:
            for h, o in sorted(self.pobj.items()):
                if h in st.objs and o.get_pk() is not None:
                    try:
                        o5 = pickle.loads(pickle.dumps(o))
                    except Exception as e:
                        if self.is_fatal(e):
                            raise
                        continue
                    if o5 is not o:
                        raise Fail('C11', 'unpickling h%d inside its session gave a different object' % h)

    # ------------------------------------------------------------------ raw database comparison (C09/C14/C15)
    def check_database(self, where):
        from pony.orm import db_session
        st = self.model.committed
        with db_session:
            con = self.db.get_connection()
            for ename, cls in sorted(self.classes.items()):
                e = self.model.ents[ename]
                table = cls._table_
                pkcols = list(cls._pk_columns_)
                cols = list(pkcols)
                for sc in e['scalars']:
                    cols.extend(getattr(cls, sc['name']).columns)
                fkinfo = []
                for end, rev in self.model.rel_ends_of(ename):
                    if not end['many'] and (ename, end['attr']) in self.fk_ends:
                        fcols = list(getattr(cls, end['attr']).columns)
                        fkinfo.append((end, rev, len(cols), len(fcols)))
                        cols.extend(fcols)
                rows = con.execute('select %s from "%s"' % (', '.join('"%s"' % c for c in cols), table)).fetchall()
                npk = len(pkcols)
                got = {}
                for row in rows:
                    pk = row[0] if npk == 1 else tuple(row[:npk])
                    if pk in got:
                        raise Fail('C14', '%s: table %s has two rows with primary key %r' % (where, table, pk))
                    got[pk] = row
                exp = {}
                for h, m in st.objs.items():
                    if m['ent'] == ename:
                        exp[m['pk']] = h
                if 'C09' in self.props or 'C15' in self.props:
                    if set(got) != set(exp):
                        raise Fail('C09' if 'C09' in self.props else 'C15',
                                   '%s: table %s has rows %s, the program committed objects %s'
                                   % (where, table, sorted(map(repr, got)), sorted(map(repr, exp))))
                # unique keys never duplicated (C14)
                for i, sc in enumerate(e['scalars']):
                    if sc['unique']:
                        vals = [row[npk + i] for row in rows if row[npk + i] is not None]
                        if len(vals) != len(set(vals)):
                            raise Fail('C14', '%s: unique column %s.%s holds duplicates: %r' % (where, table, sc['name'], sorted(vals)))
                for ck in e['ckeys']:
                    idx = [npk + [s['name'] for s in e['scalars']].index(n) for n in ck]
                    vals = [tuple(row[i] for i in idx) for row in rows]
                    vals = [v for v in vals if None not in v]
                    if len(vals) != len(set(vals)):
                        raise Fail('C14', '%s: composite key %s of %s holds duplicates: %r' % (where, ck, table, sorted(vals)))
                if 'C09' in self.props:
                    for pk, row in got.items():
                        m = st.objs[exp[pk]]
                        for i, sc in enumerate(e['scalars']):
                            if row[npk + i] != m['vals'].get(sc['name']):
                                raise Fail('C09', '%s: %s[%r].%s is %r in the database, the program committed %r'
                                           % (where, ename, pk, sc['name'], row[npk + i], m['vals'].get(sc['name'])))
                for end, rev, off, n in fkinfo:
                    tcls = self.classes[end['target']]
                    for pk, row in got.items():
                        fk = row[off] if n == 1 else tuple(row[off:off + n])
                        if n > 1 and all(x is None for x in fk):
                            fk = None
                        if fk is not None:
                            # no dangling reference (C15)
                            trow = con.execute('select 1 from "%s" where %s' % (
                                tcls._table_, ' and '.join('"%s" = ?' % c for c in tcls._pk_columns_)),
                                [fk] if n == 1 else list(fk)).fetchall()
                            if not trow:
                                raise Fail('C15', '%s: %s[%r].%s references %s[%r] which does not exist'
                                           % (where, ename, pk, end['attr'], end['target'], fk))
                        if 'C09' in self.props and pk in exp:
                            p = self.model.partner(st, exp[pk], end)
                            expfk = None if p is None else st.objs[p]['pk']
                            if fk != expfk:
                                raise Fail('C09', '%s: %s[%r].%s is %r in the database, the program committed %r'
                                           % (where, ename, pk, end['attr'], fk, expfk))
            # link tables
            for k, (ea, eb) in enumerate(self.model.ends):
                if not ea['many'] or (eb is not None and not eb['many']):
                    continue
                cls = self.classes[ea['ent']]
                attr = getattr(cls, ea['attr'])
                table = attr.table
                tname = table if isinstance(table, str) else table[-1]
                item_cols = list(attr.columns)
                owner_cols = list(attr.reverse.columns) if eb is not None else list(attr.reverse_columns)
                if eb is None:
                    owner_cols, item_cols = list(attr.columns), list(attr.reverse_columns)
                rows = con.execute('select %s from "%s"' % (', '.join('"%s"' % c for c in owner_cols + item_cols), tname)).fetchall()
                no = len(owner_cols)
                got = set()
                for row in rows:
                    o_pk = row[0] if no == 1 else tuple(row[:no])
                    i_pk = row[no] if len(item_cols) == 1 else tuple(row[no:])
                    got.add((o_pk, i_pk))
                    for (ent_name, pkv) in ((ea['ent'], o_pk), (ea['target'], i_pk)):
                        tcls = self.classes[ent_name]
                        vals = [pkv] if not isinstance(pkv, tuple) else list(pkv)
                        trow = con.execute('select 1 from "%s" where %s' % (
                            tcls._table_, ' and '.join('"%s" = ?' % c for c in tcls._pk_columns_)), vals).fetchall()
                        if not trow:
                            raise Fail('C15', '%s: link table %s references %s[%r] which does not exist' % (where, tname, ent_name, pkv))
                if 'C09' in self.props:
                    exp = set((st.objs[x]['pk'], st.objs[y]['pk']) for (x, y) in st.links[k])
                    if got != exp:
                        raise Fail('C09', '%s: link table %s holds %s, the program committed %s'
                                   % (where, tname, sorted(map(repr, got)), sorted(map(repr, exp))))
        self.failed_since_db_check = 0

    # ------------------------------------------------------------------ main loop
    def run(self):
        try:
            for si, sess in enumerate(self.program['sessions']):
                self.begin(sess.get('preload', False))
                for oi, op in enumerate(sess['ops']):
                    self.step(op)
                    if not self.in_session:
                        break
                if self.in_session:
                    self.end(sess.get('end', 'commit'))
                else:
                    self.pobj = {}
                    if 'C09' in self.props or 'C14' in self.props or 'C15' in self.props:
                        self.check_database('after failed session exit')
        finally:
            self.close()

    def probe_reads(self, op, when):
        """C10: cheap reads issued right before / after a modifying call on the objects it names: cached collection
        sizes (count / is_empty / len answered from the session) and a relationship-filter query that is repeated
        with identical parameters (query result cache) must follow the session's own changes."""
        from pony.orm import select
        name = op[0]
        ints = [x for x in op[1:] if isinstance(x, int)]
        sel = sum(ints) + len(self.trace)
        st = self.model.cur
        live = self.model.live(st)
        if not live:
            return
        h = live[(ints[0] if ints else 0) % len(live)]
        if h not in self.pobj and st.objs[h]['pk'] is None:
            return
        ent = st.objs[h]['ent']
        colls = [(e, r) for e, r in self.model.rel_ends_of(ent) if e['many']]
        if not colls:
            return
        end, rev = colls[(ints[1] if len(ints) > 1 else 0) % len(colls)]
        if sel % 3 == 0 and when == 'after':
            return
        o = self.obj(h)
        coll = getattr(o, end['attr'])
        exp = self.model.partners(st, h, end)
        mode = sel % 4
        self.bump('probe:%s' % when)
        if mode == 0:
            got = coll.count()
            if got != len(exp):
                raise Fail('C10', '%s %r: h%d.%s.count() = %d, session state has %d' % (when, op, h, end['attr'], got, len(exp)))
        elif mode == 1:
            got = coll.is_empty()
            if got != (not exp):
                raise Fail('C10', '%s %r: h%d.%s.is_empty() = %r, session state has %d items' % (when, op, h, end['attr'], got, len(exp)))
        elif mode == 2:
            cls = self.classes[ent]
            targets = self.model.live(st, end['target'])
            if not targets:
                return
            t = targets[(ints[-1] if ints else 0) % len(targets)]
            if t not in self.pobj and st.objs[t]['pk'] is None:
                return
            to = self.obj(t)
            aname = end['attr']
            got = set(self.handle_of(x) for x in select(x for x in cls if to in getattr(x, aname)))
            expq = set(hh for hh in self.model.live(st, ent) if t in self.model.partners(st, hh, end))
            if got != expq:
                raise Fail('C10', '%s %r: select(x for x in %s if h%d in x.%s) gives %s, session state says %s'
                           % (when, op, ent, t, aname, sorted(map(str, got)), sorted(expq)))
        else:
            got = len(coll)
            if got != len(exp):
                raise Fail('C10', '%s %r: len(h%d.%s) = %d, session state has %d' % (when, op, h, end['attr'], got, len(exp)))

    def step(self, op):
        name = op[0]
        if self.doomed and name not in ('flush', 'commit', 'rollback'):
            self.bump('skipped_after_deferred_conflict')
            return
        self.bump('op:' + name)
        probing = 'C10' in self.primary and name in ('create', 'set', 'setm', 'cadd', 'crem', 'cclear', 'del') \
            and self.program.get('snap', 0) != 1 and not self.variant.get('no_probes')
        if probing and self.in_session:
            self.guard_read(lambda: self.probe_reads(op, 'before'))
            if not self.in_session:
                return
        try:
            if name == 'create':
                self.op_create(op)
            elif name == 'set':
                self.op_set(op)
            elif name == 'setm':
                self.op_setm(op)
            elif name in ('cadd', 'crem', 'cclear'):
                self.op_coll(op)
            elif name == 'del':
                self.op_delete(op)
            elif name == 'retake':
                self.op_retake(op)
            elif name == 'rekey':
                self.op_rekey(op)
            elif name == 'flush':
                self.do_flush()
            elif name == 'commit':
                self.do_commit()
            elif name == 'rollback':
                from pony.orm import rollback
                rollback()
                self.model.rollback()
                self.pobj = {}
                self.created = set()
                self.doomed = False
                self.maybe_flushed = False
                self.ghost_pks = set()
                self.failed_calls = 0
                self.dirty = False
                self.window_dirty = set()
                self.window_deleted = 0
                self.window_tag = False
            elif name == 'read':
                if 'C10' in self.props or 'C11' in self.props:
                    self.guard_read(lambda: self.read_ops(op))
            elif name == 'ident':
                if 'C11' in self.props:
                    self.guard_read(lambda: self.check_identity((list(op) + [0])[1] % 4))
            else:
                raise ValueError('unknown op %r' % (op,))
            if self.doomed:
                return      # a deferred key conflict: two session objects share a key now, reads are not comparable
            if probing and self.in_session:
                self.guard_read(lambda: self.probe_reads(op, 'after'))
            if name in ('create', 'set', 'setm', 'cadd', 'crem', 'cclear', 'del', 'retake', 'rekey') and self.in_session:
                # these reads may auto-flush: for C13 they run only at snapshot depth 2, so that most C13 programs keep
                # their changes pending when a call fails
                if 'C12' in self.primary or ('C12' in self.props and self.program.get('snap', 0) >= 2):
                    self.guard_read(lambda: self.check_relationship_ends('after %r' % (op,)))
                    self.guard_read(lambda: self.check_against_model('after %r' % (op,)))
                if 'C10' in self.props and self.program.get('snap', 0) >= 2:
                    self.guard_read(lambda: self.check_against_model('after %r' % (op,)))
        except Abort:
            raise

    def guard_read(self, fn):
        """reads may auto-flush; a database-level failure there ends the transaction like a failed flush"""
        exp, why = self.expect_flush()
        try:
            fn()
        except (Fail, Abort):
            raise
        except Exception as e:
            if self.is_fatal(e):
                self.after_write_failure(e, exp, why, 'auto-flush in read')
                return
            if type(e).__name__ == 'OperationWithDeletedObjectError':
                raise Fail('C10', 'reading an object the session still holds as live raised %s: %s' % (type(e).__name__, e))
            if isinstance(e, (AssertionError, KeyError, AttributeError, IndexError, TypeError)) and _raised_inside_pony(e):
                raise Fail('C10', 'a read of live session objects raised an internal %s: %s' % (type(e).__name__, str(e)[:200]))
            raise
        self.learn_pks()
        if self.created:
            self.maybe_flushed = True


def _raised_inside_pony(e):
    tb = e.__traceback__
    last = None
    while tb is not None:
        last = tb
        tb = tb.tb_next
    fn = last.tb_frame.f_code.co_filename if last is not None else ''
    return '/pony/' in fn.replace('\\', '/')


def run_program(program, props, stats=None, variant=None):
    """returns None, or (prop, message)"""
    h = Harness(program, props, stats, variant)
    try:
        h.run()
    except Fail as f:
        if f.prop in ('C09', 'C10', 'C11', 'C12') and f.prop not in h.primary and 'C13' in h.primary:
            attributable = h.failed_calls if f.prop != 'C09' else h.failed_since_db_check
            if not attributable:
                return None       # not attributable to a failed call: another check's business
            f.prop = 'C13'
            f.msg = 'after a failed modifying call: ' + f.msg
        return f.prop, f.msg + '\n  trace: ' + '; '.join('%s -> model %s, pony %s' % t for t in h.trace[-8:])
    except Abort as a:
        if stats is not None:
            stats['aborted'] = stats.get('aborted', 0) + 1
        return None
    return None


# ---------------------------------------------------------------------- program strategy
def programs(spec_strategy=None, max_sessions=3, max_ops=10, weights=None):
    from hypothesis import strategies as st
    spec_strategy = spec_strategy or modelspec.specs()
    c = st.integers(0, 40)
    w = dict(create=6, set=5, setm=2, cadd=3, crem=2, cclear=1, **{'del': 3}, flush=2, commit=1, rollback=1, read=3, ident=1, retake=0, rekey=0)
    w.update(weights or {})
    choices = []
    create = st.tuples(st.just('create'), c, c, st.lists(c, max_size=3), st.lists(c, max_size=4), st.lists(st.integers(0, 31), max_size=3)).map(list)
    table = {
        'create': create,
        'set': st.tuples(st.just('set'), c, c, c).map(list),
        'setm': st.tuples(st.just('setm'), c, st.lists(st.tuples(c, c).map(list), min_size=1, max_size=3)).map(list),
        'cadd': st.tuples(st.just('cadd'), c, c, st.integers(0, 31)).map(list),
        'crem': st.tuples(st.just('crem'), c, c, st.integers(0, 31)).map(list),
        'cclear': st.tuples(st.just('cclear'), c, c).map(list),
        'del': st.tuples(st.just('del'), c).map(list),
        'flush': st.just(['flush']),
        'commit': st.just(['commit']),
        'rollback': st.just(['rollback']),
        'read': st.tuples(st.just('read'), c, c, c, c).map(list),
        'ident': st.tuples(st.just('ident'), st.integers(0, 3)).map(list),
        'retake': st.tuples(st.just('retake'), c).map(list),
        'rekey': st.tuples(st.just('rekey'), c, c).map(list),
    }
    for name, weight in w.items():
        choices.extend([table[name]] * weight)
    op = st.one_of(*choices) if False else st.sampled_from(sorted(w)).flatmap(lambda n: table[n])
    # weighted choice through a weighted name list (keeps shrinking simple)
    names = []
    for name, weight in sorted(w.items()):
        names.extend([name] * weight)
    op = st.sampled_from(names).flatmap(lambda n: table[n])
    session = st.fixed_dictionaries({
        'preload': st.booleans(),
        'ops': st.lists(op, min_size=1, max_size=max_ops),
        'end': st.sampled_from(['commit', 'commit', 'commit', 'rollback', 'raise']),
    })
    setup = st.fixed_dictionaries({
        'preload': st.just(False),
        'ops': st.lists(create, min_size=2, max_size=7),
        'end': st.just('commit'),
    })
    return st.builds(lambda spec, s0, rest, snap, aff: dict({'spec': spec, 'sessions': [s0] + rest, 'snap': snap},
                                                             **({'after_failed_flush': aff} if aff else {})),
                     spec_strategy, setup, st.lists(session, min_size=1, max_size=max_sessions), st.integers(0, 2),
                     st.sampled_from([None, None, 'commit']))



def hub_programs(max_sessions=2, max_ops=8, weights=None, keys=True):
    """Programs over modelspec.hub_specs(): the first session creates hubs and children linked to the first hub, the later
    sessions modify children, create new ones, edit collections and then delete a hub (refused, usually after part of the
    cascade was done), followed by more calls and a commit."""
    from hypothesis import strategies as st
    c = st.integers(0, 40)
    w = dict(create=8, set=6, setm=2, cadd=2, crem=3, cclear=1, flush=1, read=1, ident=1, retake=1)
    w.update(weights or {})
    for k in ('del', 'commit', 'rollback', 'rekey'):
        w.pop(k, None)
    linked = st.sampled_from([1, 1, 1, 5, 2])     # reference code 1/5: the first/second live target, 2: the first, too
    create = st.tuples(st.just('create'), st.sampled_from([1, 1, 1, 2, 2, 0]), c, st.lists(c, max_size=3),
                       st.lists(linked, min_size=4, max_size=4),
                       st.lists(st.sampled_from([1, 1, 3, 0]), min_size=3, max_size=3)).map(list)
    hub = st.tuples(st.just('create'), st.just(0), c, st.lists(c, max_size=3), st.just([]), st.just([])).map(list)
    table = {
        'create': create,
        'set': st.tuples(st.just('set'), c, c, c).map(list),
        'setm': st.tuples(st.just('setm'), c, st.lists(st.tuples(c, c).map(list), min_size=1, max_size=3)).map(list),
        'cadd': st.tuples(st.just('cadd'), c, c, st.integers(0, 31)).map(list),
        'crem': st.tuples(st.just('crem'), c, c, st.integers(0, 31)).map(list),
        'cclear': st.tuples(st.just('cclear'), c, c).map(list),
        'flush': st.just(['flush']),
        'read': st.tuples(st.just('read'), c, c, c, c).map(list),
        'ident': st.tuples(st.just('ident'), st.integers(0, 3)).map(list),
        'retake': st.tuples(st.just('retake'), c).map(list),
    }
    names = []
    for name, weight in sorted(w.items()):
        if name in table:
            names.extend([name] * weight)
    op = st.sampled_from(names).flatmap(lambda n: table[n])
    del_hub = st.tuples(st.just('del'), st.sampled_from([0, 0, 1]), st.just(0)).map(list)
    del_any = st.tuples(st.just('del'), c).map(list)
    child = st.sampled_from([1, 1, 2])
    hubi = st.sampled_from([0, 0, 1])
    mask = st.integers(1, 7)
    aimed = st.one_of(
        st.tuples(st.just('set'), c, st.sampled_from([0, 0, 1]), c, child).map(list),      # a child's scalar (pending UPDATE)
        st.tuples(st.just('set'), c, st.sampled_from([0, 0, 1]), c, child).map(list),
        st.tuples(st.just('set'), hubi, st.sampled_from([0, 0, 1]), c, st.just(0)).map(list),  # the hub's scalar
        st.tuples(st.just('set'), c, st.integers(1, 6), c, child).map(list),                # move a child / relink it
        create, create, create,
        st.tuples(st.just('crem'), hubi, c, mask, st.just(0)).map(list),                    # pending removals on the hub
        st.tuples(st.just('crem'), hubi, c, mask, st.just(0)).map(list),
        st.tuples(st.just('cadd'), hubi, c, mask, st.just(0)).map(list),
        st.tuples(st.just('cclear'), hubi, c, st.just(0), st.just(0)).map(list),
        st.tuples(st.just('crem'), c, c, mask, child).map(list),
        op, op, st.just(['flush']))
    first = st.one_of(st.just([]), st.just([]), create.map(lambda o: [o]), create.map(lambda o: [o]),
                      st.tuples(st.just('set'), c, st.sampled_from([0, 0, 1]), c, child).map(lambda o: [list(o)]),
                      st.tuples(st.just('set'), hubi, st.sampled_from([0, 0, 1]), c, st.just(0)).map(lambda o: [list(o)]),
                      st.tuples(st.just('crem'), hubi, c, mask, st.just(0)).map(lambda o: [list(o)]))
    session = st.builds(lambda pre, f, before, d, after, end: {'preload': pre, 'ops': f + before + [d] + after, 'end': end},
                        st.sampled_from([True, True, True, False]), first, st.lists(aimed, min_size=0, max_size=max_ops // 2),
                        st.one_of(del_hub, del_hub, del_hub, del_any), st.lists(op, min_size=0, max_size=max_ops // 2),
                        st.sampled_from(['commit', 'commit', 'commit', 'rollback']))
    setup = st.builds(lambda hubs, children: {'preload': False, 'ops': hubs + children, 'end': 'commit'},
                      st.lists(hub, min_size=1, max_size=2),
                      st.lists(create.map(lambda o: [o[0], o[1] or 1] + o[2:]), min_size=2, max_size=7))
    return st.builds(lambda spec, s0, rest, snap, aff: dict({'spec': spec, 'sessions': [s0] + rest, 'snap': snap},
                                                             **({'after_failed_flush': aff} if aff else {})),
                     modelspec.hub_specs(keys=keys), setup, st.lists(session, min_size=1, max_size=max_sessions),
                     st.integers(0, 2), st.sampled_from([None, None, 'commit']))
