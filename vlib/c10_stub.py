"""C10, stub part: reads after writes to objects that entered the session as *references only*.

Item rows are loaded first, so their Owner objects exist in the session as bare keys (nothing but the primary key is
known).  The generated session then assigns owner attributes (before or after the row is loaded), loads owners by
Owner[pk], by a query over all owners, by reading another attribute or through the reference, flushes and commits, and
reads attributes in between.  A dict model (owner -> attribute -> session-visible value) decides every read; after the
session the committed rows are compared with the model through the raw connection.  Owners also carry a self-reference (boss / subs) that the session
assigns and reads, because assigning a reference of an object known by key only goes through a row load of its own."""
from hypothesis import strategies as st

ATTRS = ['a', 'b', 's']
VALS = {'a': [None, 0, 1, 7], 'b': [None, 0, 2, 9], 's': ['', 'x', 'yz']}


@st.composite
def cases(draw):
    n = draw(st.integers(1, 3))
    owners = [{'a': draw(st.sampled_from(VALS['a'])), 'b': draw(st.sampled_from(VALS['b'])), 's': draw(st.sampled_from(VALS['s']))}
              for _ in range(n)]
    items = draw(st.lists(st.integers(0, n - 1), min_size=1, max_size=4))
    o = st.integers(0, n - 1)
    attr = st.sampled_from(ATTRS)
    op = st.one_of(
        attr.flatmap(lambda at: st.tuples(st.just('set'), o, st.just(at), st.sampled_from(VALS[at]))),
        attr.flatmap(lambda at: st.tuples(st.just('set'), o, st.just(at), st.sampled_from(VALS[at]))),
        st.tuples(st.just('read'), o, attr),
        st.tuples(st.just('set_boss'), o, st.one_of(st.none(), o)), st.tuples(st.just('read_boss'), o),
        st.tuples(st.just('load_pk'), o), st.tuples(st.just('load_all')), st.tuples(st.just('load_filter'), attr),
        st.tuples(st.just('flush')), st.tuples(st.just('commit')))
    sessions = draw(st.lists(st.lists(op, min_size=2, max_size=8), min_size=1, max_size=2))
    return {'kind': 'stub', 'owners': owners, 'items': items, 'sessions': [[list(x) for x in s] for s in sessions]}


def build(case):
    from pony.orm import Database, Required, Optional, Set, PrimaryKey, db_session
    db = Database()

    class Owner(db.Entity):
        id = PrimaryKey(int)
        a = Optional(int)
        b = Optional(int)
        s = Optional(str)
        items = Set('Item')
        boss = Optional('Owner', reverse='subs')
        subs = Set('Owner', reverse='boss')

    class Item(db.Entity):
        id = PrimaryKey(int)
        owner = Required(Owner)
    db.bind('sqlite', ':memory:')
    db.generate_mapping(create_tables=True)
    with db_session:
        os_ = [Owner(id=i + 1, **vals) for i, vals in enumerate(case['owners'])]
        for i, oi in enumerate(case['items']):
            Item(id=i + 1, owner=os_[oi])
    return db, Owner, Item


def judge(case):
    """returns a violation message or None"""
    from pony.orm import db_session, select, flush, commit
    db, Owner, Item = build(case)
    committed = [dict(o, boss=None) for o in case['owners']]
    try:
        for sno, ops in enumerate(case['sessions']):
            visible = [dict(o) for o in committed]
            with db_session:
                items = select(i for i in Item)[:]
                handles = {}
                for it in items:                      # owners enter the session as references of the items
                    handles[case['items'][it.id - 1]] = it.owner

                def owner(i):
                    if i not in handles:
                        handles[i] = Owner[i + 1]
                    return handles[i]

                for ono, o in enumerate(ops):
                    where = 'session %d op #%d %s' % (sno, ono, o)
                    name = o[0]
                    if name == 'set':
                        setattr(owner(o[1]), o[2], o[3])
                        visible[o[1]][o[2]] = o[3]
                    elif name == 'set_boss':
                        if o[2] == o[1]:
                            continue
                        owner(o[1]).boss = None if o[2] is None else owner(o[2])
                        visible[o[1]]['boss'] = o[2]
                    elif name == 'read_boss':
                        got = owner(o[1]).boss
                        want = visible[o[1]]['boss']
                        if (got.id - 1 if got is not None else None) != want:
                            return '%s: Owner[%d].boss reads %r, the session-visible state says owner index %r' % (where, o[1] + 1, got, want)
                        for j in range(len(visible)):
                            subs = sorted(x.id - 1 for x in owner(j).subs)
                            wsubs = sorted(i for i, v in enumerate(visible) if v['boss'] == j)
                            if subs != wsubs:
                                return '%s: Owner[%d].subs reads %r, expected %r' % (where, j + 1, subs, wsubs)
                    elif name == 'read':
                        got = getattr(owner(o[1]), o[2])
                        if got != visible[o[1]][o[2]]:
                            return '%s: Owner[%d].%s reads %r, the session last assigned / the database holds %r' % (
                                where, o[1] + 1, o[2], got, visible[o[1]][o[2]])
                    elif name == 'load_pk':
                        if Owner[o[1] + 1] is not owner(o[1]):
                            return '%s: Owner[%d] is not the object reached through Item.owner' % (where, o[1] + 1)
                    elif name == 'load_all':
                        got = select(x for x in Owner)[:]
                        if sorted(x.id for x in got) != list(range(1, len(committed) + 1)):
                            return '%s: select(x for x in Owner) returned %r' % (where, got)
                    elif name == 'load_filter':
                        at = o[1]
                        if at == 'a':
                            got = sorted(x.id for x in select(x for x in Owner if x.a is None))
                        elif at == 'b':
                            got = sorted(x.id for x in select(x for x in Owner if x.b is None))
                        else:
                            got = sorted(x.id for x in select(x for x in Owner if x.s == ''))
                        want = sorted(i + 1 for i, v in enumerate(visible) if v[at] in (None, ''))
                        if got != want:
                            return '%s: owners with %s None: query returned %r, the session-visible state says %r' % (where, at, got, want)
                    elif name == 'flush':
                        flush()
                    elif name == 'commit':
                        commit()
                        committed = [dict(v) for v in visible]
                # every owner the session holds is read once more before the session ends
                for i in sorted(handles):
                    for at in ATTRS:
                        got = getattr(handles[i], at)
                        if got != visible[i][at]:
                            return 'session %d end: Owner[%d].%s reads %r, expected %r' % (sno, i + 1, at, got, visible[i][at])
            committed = [dict(v) for v in visible]
            with db_session:
                rows = db.select('select id, a, b, s, boss from Owner order by id')
            got = [{'a': r[1], 'b': r[2], 's': r[3], 'boss': None if r[4] is None else r[4] - 1} for r in rows]
            if got != committed:
                return 'after session %d the Owner rows are %r, the program committed %r' % (sno, got, committed)
        return None
    finally:
        db.disconnect()


def nontrivial(case):
    """an assignment to an owner that is followed by a load or read of the same session"""
    for ops in case['sessions']:
        seen_set = False
        for o in ops:
            if o[0] == 'set':
                seen_set = True
            elif seen_set and o[0] in ('read', 'load_pk', 'load_all', 'load_filter'):
                return True
    return False
