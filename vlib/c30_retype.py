"""C30 re-typing part: ONE query location holding raw_sql() fragment(s) is executed several times in the same
process with values of DIFFERENT Python types for the same `$` names.

Every execution is judged on its own by the single-execution oracle: the arguments the sqlite3 driver receives
(value AND type, in SQL order), the fragment text inside the SQL, and the rows/ordering that come back -- none of
which may depend on what the same location was bound to earlier.  A case starts from a brand-new Database object,
so the case is the complete history of that query location.

Reference for what a Python value is bound as on SQLite (Pony's documented storage formats):
    int, float, str, None, bool  as they are          Decimal    str(value)
    date       'YYYY-MM-DD'                             datetime   'YYYY-MM-DD HH:MM:SS.ffffff'
    time       value.isoformat()                        timedelta  number of days as a float
and for how SQLite compares a bound value with an expression that has no column affinity: numbers compare
numerically, text compares with text only (a number is never equal to / always smaller than a text), NULL never
matches.
"""
import datetime
from decimal import Decimal
from hypothesis import strategies as st
from vlib import c30_ref as R
from vlib import c30_live as LV

ROWS = LV.ROWS


# ---------------------------------------------------------------------------------------------------
# values
# ---------------------------------------------------------------------------------------------------
def build_val(spec):
    t = spec['t']
    if t in ('int', 'float', 'str', 'bool'):
        return spec['v']
    if t == 'none':
        return None
    if t == 'decimal':
        return Decimal(spec['v'])
    if t == 'date':
        return datetime.date(*spec['v'])
    if t == 'datetime':
        return datetime.datetime(*spec['v'])
    if t == 'time':
        return datetime.time(*spec['v'])
    if t == 'timedelta':
        return datetime.timedelta(days=spec['v'][0], seconds=spec['v'][1], microseconds=spec['v'][2])
    raise ValueError(spec)


def bound(value):
    """what the sqlite3 driver must receive for this Python value"""
    if value is None or isinstance(value, (bool, int, float, str)):
        return value
    if isinstance(value, Decimal):
        return str(value)
    if isinstance(value, datetime.datetime):
        return value.strftime('%Y-%m-%d %H:%M:%S.') + '%06d' % value.microsecond
    if isinstance(value, datetime.date):
        return value.isoformat()
    if isinstance(value, datetime.time):
        return value.isoformat()
    if isinstance(value, datetime.timedelta):
        return value.days + (value.seconds + value.microseconds / 1000000.0) / 86400.0
    raise ValueError(value)


def same_bound(got, exp):
    if type(got) is not type(exp):
        return False
    if isinstance(exp, float):
        return got == exp or abs(got - exp) <= 1e-9 * max(1.0, abs(exp))
    return got == exp


def back(b):
    """what SQLite hands back for a bound value that is simply selected"""
    return int(b) if isinstance(b, bool) else b


def sql_typeof(b):
    if b is None: return 'null'
    if isinstance(b, (bool, int)): return 'integer'
    if isinstance(b, float): return 'real'
    return 'text'


def is_num(b):
    return isinstance(b, (bool, int, float))


def ts_text(a):
    return '2020-01-0%d 12:00:00.000000' % (a % 4 + 1)


VALUES = {
    'int': [{'t': 'int', 'v': v} for v in (0, 1, 2, 3, 5, 7, -1, 2 ** 40)],
    'float': [{'t': 'float', 'v': v} for v in (0.0, 1.0, 2.0, 2.5, -1.5, 1e10)],
    'decimal': [{'t': 'decimal', 'v': v} for v in ('2', '1.50', '0', '-3.25', '2.0', '7')],
    'str': [{'t': 'str', 'v': v} for v in ('ab', 'abt', u'\xe9', "q'", 'x%', 'x$', '2', '1.50', '2020-01-02',
                                            '2020-01-02 12:00:00.000000', '', 'True')],
    'date': [{'t': 'date', 'v': [2020, 1, d]} for d in (1, 2, 3, 4)],
    'datetime': [{'t': 'datetime', 'v': [2020, 1, d, h, 0, 0, us]} for d in (1, 2, 3) for h in (0, 12, 18) for us in (0, 7)],
    'time': [{'t': 'time', 'v': v} for v in ([3, 4, 5, 0], [3, 4, 5, 9], [0, 0, 0, 0], [12, 0, 0, 0])],
    'timedelta': [{'t': 'timedelta', 'v': v} for v in ([0, 0, 0], [2, 0, 0], [1, 3, 0], [-1, 0, 0], [3, 0, 0], [0, 43200, 0])],
    'bool': [{'t': 'bool', 'v': True}, {'t': 'bool', 'v': False}],
    'none': [{'t': 'none'}],
}
TYPES = sorted(VALUES)


# ---------------------------------------------------------------------------------------------------
# fragments
# ---------------------------------------------------------------------------------------------------
FORMS = {'v': ['v', 'o.v', "d['v']", 'f(v)', '(v)', 'd["v"]', 'f(o.v)', '(o).v'],
         'w': ['w', 'o.w', "d['w']", 'f(w)', '(w)']}


def render_frag(frag, alias):
    p = LV.Parts()
    k = frag['k']
    if k == 'num_eq':
        p.lit('%s.a + 0 = ' % alias); p.expr(frag['V'])
    elif k == 'str_eq':
        p.lit("%s.s || '' = " % alias); p.expr(frag['V'])
    elif k == 'ts_lt':
        p.lit("'2020-01-0' || (%s.a %% 4 + 1) || ' 12:00:00.000000' < " % alias); p.expr(frag['V'])
    elif k == 'two':
        p.lit('(%s.a + 0 = ' % alias); p.expr(frag['V'])
        p.lit(" or %s.s || '' = " % alias); p.expr(frag['W']); p.lit(')')
    elif k == 'echo':
        p.expr(frag['V'])
    elif k == 'typeof':
        p.lit('typeof('); p.expr(frag['V']); p.lit(')')
    elif k == 'coalesce':
        p.lit('coalesce('); p.expr(frag['V']); p.lit(', '); p.expr(frag['W']); p.lit(')')
    else:
        raise ValueError(k)
    p.tail(frag['tail'])
    return p.parts


def frag_match(frag, row, bv, bw):
    """truth of a condition fragment for a row, from the bound representations"""
    i, a, s = row
    k = frag['k']
    if k == 'num_eq':
        return is_num(bv) and a == bv
    if k == 'str_eq':
        return isinstance(bv, str) and s == bv
    if k == 'ts_lt':
        return isinstance(bv, str) and ts_text(a) < bv
    if k == 'two':
        return (is_num(bv) and a == bv) or (isinstance(bw, str) and s == bw)
    raise ValueError(k)


def frag_value(frag, bv, bw):
    k = frag['k']
    if k == 'echo':
        return back(bv)
    if k == 'typeof':
        return sql_typeof(bv)
    if k == 'coalesce':
        return back(bv) if bv is not None else back(bw)
    raise ValueError(k)


# shape -> (position classes, alias, fragments used in SQL order)
SHAPES = {
    'filter_gen': ('filter', 'x', ['cond']),
    'filter_lambda': ('filter', 'x', ['cond']),
    'filter_obj': ('filter', 'e', ['cond']),
    'where_obj': ('filter', 'e', ['cond']),
    'mixed_filter': ('filter', 'x', ['cond']),
    'proj': ('projection', 'x', ['p1', 'p2']),
    'proj_filter': ('projection+filter', 'x', ['p1', 'cond']),
    'order': ('ordering', 'x', ['cond']),
    'filter_order': ('filter+ordering', 'x', ['cond', 'cond2']),
}


def query_source(shape, srcs, E='E'):
    """Python source of the query for this shape; srcs: fragment name -> repr of the raw SQL text"""
    if shape == 'filter_gen':
        return 'select(x for x in %s if raw_sql(%s))[:]' % (E, srcs['cond'])
    if shape == 'filter_lambda':
        return '%s.select(lambda x: raw_sql(%s))[:]' % (E, srcs['cond'])
    if shape == 'filter_obj':
        return '%s.select().filter(raw_sql(%s))[:]' % (E, srcs['cond'])
    if shape == 'where_obj':
        return '%s.select().where(raw_sql(%s))[:]' % (E, srcs['cond'])
    if shape == 'mixed_filter':
        return 'select(x for x in %s if x.id <= 8 and raw_sql(%s))[:]' % (E, srcs['cond'])
    if shape == 'proj':
        return 'select((x.id, raw_sql(%s), raw_sql(%s)) for x in %s if x.id <= 2)[:]' % (srcs['p1'], srcs['p2'], E)
    if shape == 'proj_filter':
        return 'select((x.id, raw_sql(%s)) for x in %s if raw_sql(%s))[:]' % (srcs['p1'], E, srcs['cond'])
    if shape == 'order':
        return 'select(x for x in %s).order_by(lambda x: (raw_sql(%s), x.id))[:]' % (E, srcs['cond'])
    if shape == 'filter_order':
        return 'select(x for x in %s if raw_sql(%s)).order_by(lambda x: (raw_sql(%s), x.id))[:]' % (
            E, srcs['cond'], srcs['cond2'])
    raise ValueError(shape)


def expected_result(case, bv, bw):
    shape, fr = case['shape'], case['frags']
    m = lambda name, row: frag_match(fr[name], row, bv, bw)
    if shape in ('filter_gen', 'filter_lambda', 'filter_obj', 'where_obj'):
        return sorted(r[0] for r in ROWS if m('cond', r))
    if shape == 'mixed_filter':
        return sorted(r[0] for r in ROWS if r[0] <= 8 and m('cond', r))
    if shape == 'proj':
        return sorted((r[0], frag_value(fr['p1'], bv, bw), frag_value(fr['p2'], bv, bw)) for r in ROWS if r[0] <= 2)
    if shape == 'proj_filter':
        return sorted((r[0], frag_value(fr['p1'], bv, bw)) for r in ROWS if m('cond', r))
    if shape == 'order':
        return [r[0] for r in sorted(ROWS, key=lambda r: (1 if m('cond', r) else 0, r[0]))]
    if shape == 'filter_order':
        return [r[0] for r in sorted((r for r in ROWS if m('cond', r)), key=lambda r: (1 if m('cond2', r) else 0, r[0]))]
    raise ValueError(shape)


# ---------------------------------------------------------------------------------------------------
# strategies
# ---------------------------------------------------------------------------------------------------
def _expr(name):
    return st.builds(lambda src, semi: ['expr', src, semi], st.sampled_from(FORMS[name]), st.integers(0, 3).map(lambda n: n == 0))


COND_KINDS = ['num_eq', 'num_eq', 'str_eq', 'ts_lt', 'ts_lt', 'two']
VALUE_KINDS = ['echo', 'echo', 'typeof', 'coalesce']


@st.composite
def frags(draw, kinds):
    return {'k': draw(st.sampled_from(kinds)), 'V': draw(_expr('v')), 'W': draw(_expr('w')), 'tail': draw(LV.tails)}


@st.composite
def retype_cases(draw):
    shape = draw(st.sampled_from(sorted(SHAPES)))
    fr = {}
    for name in SHAPES[shape][2]:
        fr[name] = draw(frags(VALUE_KINDS if name.startswith('p') else COND_KINDS))
    n = draw(st.integers(2, 3))
    tv = draw(st.permutations(TYPES))[:n]
    tw = draw(st.permutations(TYPES))[:n]
    if draw(st.integers(0, 3)) == 0:
        tv = list(tv[:-1]) + [tv[0]]           # a type comes back after another one
    runs = [{'v': draw(st.sampled_from(VALUES[a])), 'w': draw(st.sampled_from(VALUES[b]))} for a, b in zip(tv, tw)]
    return {'kind': 'retype', 'shape': shape, 'frags': fr, 'mode': draw(st.sampled_from(['string', 'func'])), 'runs': runs}


# ---------------------------------------------------------------------------------------------------
# execution
# ---------------------------------------------------------------------------------------------------
def fresh_database():
    from pony.orm import Database, PrimaryKey, Required, db_session
    db = Database()

    class E(db.Entity):
        id = PrimaryKey(int)
        a = Required(int)
        s = Required(str, autostrip=False)
    db.bind('sqlite', ':memory:', factory=LV.LogConnection)
    db.generate_mapping(create_tables=True)
    with db_session:
        for (i, a, s) in ROWS:
            E(id=i, a=a, s=s)
    return db, E


def run_scope(run):
    v, w = build_val(run['v']), build_val(run['w'])
    return {'v': v, 'w': w, 'o': R.Obj({'v': v, 'w': w}), 'd': {'v': v, 'w': w}, 'f': (lambda x: x)}


def frag_texts(case):
    alias = SHAPES[case['shape']][1]
    return [(name, render_frag(case['frags'][name], alias)) for name in SHAPES[case['shape']][2]]


class Location(object):
    """the one query location of a case: a query string evaluated with explicit namespaces, or a real function
    (one code object) called with the values as arguments"""

    def __init__(self, case, db, E):
        from pony.orm import select, raw_sql
        self.case = case
        self.texts = frag_texts(case)
        srcs = dict((name, repr(R.assemble(parts))) for name, parts in self.texts)
        self.glob = {'E': E, 'select': select, 'raw_sql': raw_sql}
        self.src = query_source(case['shape'], srcs)
        if case['mode'] == 'func':
            exec('def __c30_query(v, w, o, d, f):\n    return ' + self.src + '\n', self.glob)
            self.code = None
        else:
            self.code = compile(self.src, '<c30 query location>', 'eval')

    def execute(self, scope):
        if self.case['mode'] == 'func':
            return self.glob['__c30_query'](scope['v'], scope['w'], scope['o'], scope['d'], scope['f'])
        return eval(self.code, self.glob, dict(scope))


def judge_run(case, loc, k):
    """execute run k at the location; -> None or (what, message)"""
    from pony.orm import db_session
    run = case['runs'][k]
    scope = run_scope(run)
    l = dict(scope)
    bv, bw = bound(scope['v']), bound(scope['w'])
    exp_args = []
    ref_texts = []
    for name, parts in loc.texts:
        exp_args.extend(bound(x) for x in R.ref_values(parts, {}, l))
        ref_texts.append(R.ref_adapt(parts, 'qmark')[0])
    expected = expected_result(case, bv, bw)
    label = 'run %d of %s with v=%r, w=%r (%s)' % (k + 1, loc.src, scope['v'], scope['w'], case['mode'])
    with db_session:
        del LV.LOG[:]
        try:
            res = loc.execute(scope)
        except Exception as e:
            return 'error', '%s raised %s: %s' % (label, type(e).__name__, e)
        log = list(LV.LOG)
    if case['shape'] in ('proj', 'proj_filter'):
        got = sorted(tuple(r) for r in res)
    else:
        got = [o.id for o in res]
        if not case['shape'].endswith('order'):
            got = sorted(got)
    if not log:
        return 'text', '%s: nothing was executed' % label
    dsql, dargs = log[-1][0], log[-1][1:]
    pos = 0
    for rt in ref_texts:
        j = dsql.find(rt, pos)
        if j < 0 and rt.rstrip() and dsql.rstrip()[pos:].endswith(rt.rstrip()):
            # Pony's SQL builder trims trailing line breaks of the WHOLE statement; a fragment that ends the statement
            # loses them too -- not text of the fragment that reaches or misses the database in any observable way
            j = len(dsql.rstrip()) - len(rt.rstrip())
            rt = rt.rstrip()
        if j < 0:
            return 'text', '%s: the SQL sent to the driver %r does not contain the fragment text %r' % (label, dsql, rt)
        pos = j + len(rt)
    if len(dargs) != 1 or not isinstance(dargs[0], (tuple, list)) or len(dargs[0]) != len(exp_args):
        return 'params', '%s: the driver received arguments %r, expected %r' % (label, dargs, tuple(exp_args))
    for n, (g, e) in enumerate(zip(dargs[0], exp_args)):
        if not same_bound(g, e):
            return 'params', '%s: driver argument %d is %r (%s), expected %r (%s); all arguments %r, expected %r' % (
                label, n + 1, g, type(g).__name__, e, type(e).__name__, tuple(dargs[0]), tuple(exp_args))
    if got != expected:
        return 'result', '%s returned %r, expected %r (sql %r, arguments %r)' % (label, got, expected, dsql, dargs)
    return None


def run_case(case, upto=None):
    """the whole history of the location from a brand-new Database; -> list of verdicts (one per run)"""
    R.clear_caches()
    db, E = fresh_database()
    try:
        loc = Location(case, db, E)
        out = []
        for k in range(len(case['runs']) if upto is None else upto + 1):
            out.append(judge_run(case, loc, k))
        return out
    finally:
        db.disconnect()


def cold_verdict(case, k):
    """run k alone at a brand-new location"""
    single = dict(case, runs=[case['runs'][k]])
    return run_case(single)[0]


def reversed_case(case):
    return dict(case, runs=list(reversed(case['runs'])))


def type_names(case, upto):
    return [[r['v']['t'], r['w']['t']] for r in case['runs'][:upto + 1]]


def retyped(case, k):
    """run k binds a name to a type different from an earlier run's type"""
    return any(case['runs'][j][n]['t'] != case['runs'][k][n]['t'] for j in range(k) for n in ('v', 'w'))
