"""C30 live part: raw SQL through every public entry point on SQLite (qmark), observed at the driver.

A logging sqlite3 connection (passed with Pony's documented pass-through of bind() keyword arguments to
sqlite3.connect) records the exact (sql, arguments) handed to the driver.  Statements are valid SQL BY CONSTRUCTION:
free literal content sits in SQL string literals / comments (so SQLite itself echoes it back, or ignores it), the
`$`-expressions sit where a value is allowed.  Expected results come from c30_ref (text, values) and from evaluating
the WHERE condition in Python over the known rows.
"""
import sqlite3
from hypothesis import strategies as st
from vlib import c30_ref as R
from vlib import c30_gen as G

ROWS = [(1, 0, 'ab'), (2, 1, 'abt'), (3, 2, u'\xe9'), (4, 3, u'\xe9t'), (5, 1, "q'"), (6, 2, 'x%'), (7, 3, 'x%%'),
        (8, 0, 'x$'), (9, 1, 'A b'), (10, 2, u'中'), (11, 5, 'ab'), (12, 7, 'a\nb')]

LOG = []


class LogCursor(sqlite3.Cursor):
    def execute(self, sql, *args):
        LOG.append((sql,) + tuple(args))
        return sqlite3.Cursor.execute(self, sql, *args)


class LogConnection(sqlite3.Connection):
    def cursor(self, factory=None):
        return sqlite3.Connection.cursor(self, LogCursor)


_DB = {}


def database():
    """one Database per process: entity E(id, a, s) with ROWS, scratch table kv"""
    if _DB:
        return _DB['db'], _DB['E']
    from pony.orm import Database, PrimaryKey, Required, Optional, db_session
    db = Database()

    class E(db.Entity):
        id = PrimaryKey(int)
        a = Required(int)
        s = Required(str, autostrip=False)
    db.bind('sqlite', ':memory:', factory=LogConnection)
    db.generate_mapping(create_tables=True)
    with db_session:
        for (i, a, s) in ROWS:
            E(id=i, a=a, s=s)
        db.execute('create table kv (k, v)')
    _DB['db'] = db
    _DB['E'] = E
    return db, E


# ---------------------------------------------------------------------------------------------------
# rendering specs to parts
# ---------------------------------------------------------------------------------------------------
class Parts(object):
    def __init__(self):
        self.parts = []

    def lit(self, text):
        if text:
            self.parts.append(['lit', text])

    def content(self, text):
        self.parts.extend(R.lit_parts(text))

    def expr(self, e):
        self.parts.append(['expr', e[1], bool(e[2])])

    def string(self, c):
        self.content("'" + c.replace("'", "''") + "'")

    def tail(self, tail):
        self.lit(tail['ws'])
        cm = tail.get('cm')
        if cm:
            if cm[0] == 'block':
                self.content('/*' + cm[1].replace('*/', '* /') + '*/')
            else:
                self.content('--' + cm[1].replace('\n', ' ').replace('\r', ' ') + '\n')

    def col(self, col):
        if col['t'] == 'lit':
            self.string(col['c'])
        else:
            self.expr(col['e'])
        self.tail(col['tail'])


def render_echo(spec, with_prefix=True):
    p = Parts()
    if with_prefix:
        p.lit(spec['prefix'])
    for i, col in enumerate(spec['cols']):
        if i:
            p.lit(',')
        p.col(col)
    return p.parts


def echo_expected(spec, g, l):
    return tuple(col['c'] if col['t'] == 'lit' else eval(col['e'][1], g, l) for col in spec['cols'])


def render_cond(cond, alias):
    p = Parts()
    if cond.get('wrap'):
        p.lit('(')
    for i, atom in enumerate(cond['atoms']):
        if i:
            glue = cond['glue'][i - 1]
            p.tail(glue['l'])
            p.lit(glue['op'] + glue['r'])
        t = atom['t']
        if t in ('a_eq', 'a_ne', 's_eq', 's_ne'):
            p.lit('%s.%s %s ' % (alias, t[0], '=' if t.endswith('eq') else '<>'))
            p.expr(atom['e'])
        elif t == 'a_in':
            p.lit('%s.a in (' % alias)
            p.expr(atom['es'][0])
            p.lit(', ')
            p.expr(atom['es'][1])
            p.lit(')')
        elif t == 'a_mod':
            p.lit('%s.a %% %d = ' % (alias, atom['m']))
            p.expr(atom['e'])
        elif t in ('s_lit_eq', 's_lit_ne'):
            p.lit('%s.s %s ' % (alias, '=' if t.endswith('eq') else '<>'))
            p.string(atom['c'])
        elif t == 'lit_cmp':
            p.string(atom['c'])
            p.lit(' = ')
            p.expr(atom['e'])
        elif t == 'e_cmp':
            p.expr(atom['e1'])
            p.lit(' = ')
            p.expr(atom['e2'])
        else:
            raise ValueError(t)
    if cond.get('wrap'):
        p.lit(')')
    return p.parts


def atom_truth(atom, row, g, l):
    i, a, s = row
    t = atom['t']
    ev = lambda e: eval(e[1], g, l)
    if t == 'a_eq': return a == ev(atom['e'])
    if t == 'a_ne': return a != ev(atom['e'])
    if t == 's_eq': return s == ev(atom['e'])
    if t == 's_ne': return s != ev(atom['e'])
    if t == 'a_in': return a in (ev(atom['es'][0]), ev(atom['es'][1]))
    if t == 'a_mod': return a % atom['m'] == ev(atom['e'])
    if t == 's_lit_eq': return s == atom['c']
    if t == 's_lit_ne': return s != atom['c']
    if t == 'lit_cmp': return atom['c'] == ev(atom['e'])
    if t == 'e_cmp': return ev(atom['e1']) == ev(atom['e2'])
    raise ValueError(t)


def cond_truth(cond, row, g, l):
    """SQL and Python agree on precedence: AND binds tighter than OR; no NULLs are involved"""
    groups = [[]]
    for i, atom in enumerate(cond['atoms']):
        if i and cond['glue'][i - 1]['op'].lower() == 'or':
            groups.append([])
        groups[-1].append(atom_truth(atom, row, g, l))
    return any(all(grp) for grp in groups)


def matching_ids(cond, g, l):
    return sorted(r[0] for r in ROWS if cond_truth(cond, r, g, l))


# ---------------------------------------------------------------------------------------------------
# strategies
# ---------------------------------------------------------------------------------------------------
CONTENT_ALPHABET = list(u"abzAZ_019 \n\t%%'\"()[].;,?:=-*/\\+<>|&!@#{}~^`$$\xe9Ж中€\U0001F600")
contents = st.one_of(st.text(alphabet=st.sampled_from(CONTENT_ALPHABET), max_size=8),
                     st.sampled_from(['x%', 'x%%', 'x$', '$', '$$', '%', '%%', '%s', '%(p1)s', '$v', '$(v)', "q'", 'ab',
                                      '?', ':1', '*/', '--', "''", '$v;', 'a$$b%']))
comments = st.one_of(st.none(), st.none(), st.tuples(st.sampled_from(['block', 'line']), contents).map(list))
tails = st.builds(lambda ws, cm: {'ws': ws, 'cm': cm}, st.sampled_from(['', '', ' ', '\n', '\t ', '  ']), comments)
glue_l = st.builds(lambda ws, cm: {'ws': ws, 'cm': cm}, st.sampled_from([' ', '\n', '\t', ' \n']), comments)


@st.composite
def echo_specs(draw, scope, prefixes=('select ', 'SELECT ', '  select\n', 'Select\t', '')):
    cols = []
    for _ in range(draw(st.integers(1, 4))):
        if draw(st.integers(0, 2)) == 0:
            cols.append({'t': 'lit', 'c': draw(contents), 'tail': draw(tails)})
        else:
            e, t = draw(G.exprs(scope))
            cols.append({'t': 'expr', 'e': e, 'tail': draw(tails)})
    return {'prefix': draw(st.sampled_from(list(prefixes))), 'cols': cols}


@st.composite
def atoms(draw, scope):
    t = draw(st.sampled_from(['a_eq', 'a_eq', 'a_ne', 's_eq', 's_eq', 's_ne', 'a_in', 'a_mod', 's_lit_eq', 's_lit_ne',
                              'lit_cmp', 'e_cmp']))
    ex = lambda want: draw(G.exprs(scope, want=want))[0]
    if t in ('a_eq', 'a_ne'):
        return {'t': t, 'e': ex('int')}
    if t in ('s_eq', 's_ne'):
        return {'t': t, 'e': ex('str')}
    if t == 'a_in':
        return {'t': t, 'es': [ex('int'), ex('int')]}
    if t == 'a_mod':
        return {'t': t, 'm': draw(st.sampled_from([2, 3])), 'e': ex('int')}
    if t in ('s_lit_eq', 's_lit_ne'):
        return {'t': t, 'c': draw(st.one_of(contents, st.sampled_from([r[2] for r in ROWS])))}
    if t == 'lit_cmp':
        return {'t': t, 'c': draw(st.one_of(contents, st.sampled_from(G.STRS))), 'e': ex('str')}
    want = draw(st.sampled_from(['int', 'str']))
    return {'t': t, 'e1': ex(want), 'e2': ex(want)}


@st.composite
def conds(draw, scope):
    n = draw(st.integers(1, 3))
    ats = [draw(atoms(scope)) for _ in range(n)]
    glue = [{'op': draw(st.sampled_from(['and', 'or', 'AND', 'OR'])), 'l': draw(glue_l),
             'r': draw(st.sampled_from([' ', '\n', '  ']))} for _ in range(n - 1)]
    return {'atoms': ats, 'glue': glue, 'wrap': draw(st.booleans())}


ENTRIES = ['select', 'get', 'execute', 'insert', 'exists', 'select_by_sql', 'get_by_sql',
           'raw_if', 'raw_lambda', 'raw_filter', 'raw_where', 'raw_col', 'raw_two']
BY_SQL_HEADS = ['select * from E x where ', 'select x.id, x.a, x.s from E x where ', 'SELECT id, s, a FROM E x WHERE\n',
                'select id from E x where ']
EXISTS_HEADS = ['select 1 from E x where ', '1 from E x where ', 'SELECT 1 FROM E x WHERE\n', '* from E x where ']


@st.composite
def live_batches(draw):
    """one generated scope, one case per entry point"""
    scope = draw(G.scopes())
    return [draw(live_cases(scope, entry)) for entry in ENTRIES]


@st.composite
def live_cases(draw, scope, entry):
    # frame=True: no namespaces are passed; Pony has to find the caller's frame itself
    case = {'kind': 'live', 'entry': entry, 'scope': scope, 'frame': draw(st.booleans())}
    if entry in ('select', 'get', 'execute'):
        case['echo'] = draw(echo_specs(scope, prefixes=('select ', 'SELECT ', '  select\n') if entry == 'execute'
                                       else ('select ', 'SELECT ', '  select\n', 'Select\t', '')))
    elif entry == 'insert':
        case['echo'] = draw(echo_specs(scope, prefixes=('',)))
        case['echo']['cols'] = (case['echo']['cols'] * 2)[:2]
    elif entry == 'exists':
        case['head'] = draw(st.sampled_from(EXISTS_HEADS))
        case['cond'] = draw(conds(scope))
    elif entry in ('select_by_sql', 'get_by_sql'):
        case['head'] = draw(st.sampled_from(BY_SQL_HEADS))
        case['cond'] = draw(conds(scope))
    elif entry == 'raw_col':
        case['echo'] = draw(echo_specs(scope, prefixes=('',)))
        case['echo']['cols'] = case['echo']['cols'][:1]
    elif entry == 'raw_two':
        case['first'] = {'t': 'expr', 'e': draw(G.exprs(scope, want='int'))[0], 'tail': draw(tails)}
        case['cond'] = draw(conds(scope))
        case['cond']['wrap'] = True        # Pony does not parenthesise a fragment; precedence is the caller's business
    else:
        case['cond'] = draw(conds(scope))
    return case


# ---------------------------------------------------------------------------------------------------
# execution + judgement of one live case
# ---------------------------------------------------------------------------------------------------
def case_parts(case):
    """the raw SQL text(s) of the case as parts (list of one or two texts)"""
    entry = case['entry']
    if entry in ('select', 'get', 'execute'):
        return [render_echo(case['echo'])]
    if entry == 'insert':
        return [[['lit', 'insert into kv (k, v) values (']] + render_echo(case['echo'], False) + [['lit', ')']]]
    if entry in ('exists', 'select_by_sql', 'get_by_sql'):
        return [[['lit', case['head']]] + render_cond(case['cond'], 'x')]
    if entry == 'raw_col':
        return [render_echo(case['echo'], False)]
    if entry == 'raw_two':
        p = Parts()
        p.col(case['first'])
        return [p.parts, render_cond(case['cond'], 'x')]
    if entry == 'raw_filter' or entry == 'raw_where':
        return [render_cond(case['cond'], 'e')]
    return [render_cond(case['cond'], 'x')]


FRAME_BODY = {
    'select': '__db.select(__sql)',
    'get': '__db.get(__sql)',
    'execute': '__db.execute(__sql).fetchall()',
    'insert': '__db.execute(__sql)',
    'exists': '__db.exists(__sql)',
    'select_by_sql': '__E.select_by_sql(__sql)',
    'get_by_sql': '__E.get_by_sql(__sql)',
    'raw_if': 'select(x for x in __E if raw_sql(%(s0)s))[:]',
    'raw_lambda': '__E.select(lambda x: raw_sql(%(s0)s))[:]',
    'raw_filter': '__E.select().filter(raw_sql(__sql))[:]',
    'raw_where': '__E.select().where(raw_sql(__sql))[:]',
    'raw_col': 'select((x.id, raw_sql(%(s0)s)) for x in __E)[:]',
    'raw_two': 'select(x for x in __E if x.a == raw_sql(%(s0)s) and raw_sql(%(s1)s))[:]',
}


def call_in_frame(entry, sqls, g, l, extra):
    """run the entry point from inside a real function whose globals are the generated globals and whose local
    variables are the generated locals: the caller's scope is then found by Pony through the frame"""
    g2 = dict(g)
    g2.update(extra)
    g2['__sql'] = sqls[0]
    lines = ['def __c30_caller(__L):']
    for name in sorted(l):
        lines.append('    %s = __L[%r]' % (name, name))
    body = FRAME_BODY[entry] % dict(('s%d' % i, repr(s)) for i, s in enumerate(sqls))
    lines.append('    return ' + body)
    exec('\n'.join(lines) + '\n', g2)
    return g2['__c30_caller'](l)


def run_live(case):
    """-> None or (what, message)"""
    from pony.orm import db_session, select, raw_sql
    from pony.orm.core import MultipleObjectsFoundError
    db, E = database()
    g, l = R.build_scope(case['scope'])
    entry = case['entry']
    texts = case_parts(case)
    sqls = [R.assemble(p) for p in texts]
    values = []
    for p in texts:
        values.extend(R.ref_values(p, g, l))
    ref_texts = [R.ref_adapt(p, 'qmark')[0] for p in texts]
    g2 = dict(g)
    g2.update({'E': E, 'raw_sql': raw_sql, 'select': select})
    label = '%s(%s)' % (entry, ', '.join(repr(s) for s in sqls))
    if entry not in ENTRIES:
        raise ValueError(entry)
    # expected result: pure Python over the known rows / the echoed literals and values
    if entry in ('select', 'get', 'execute', 'insert'):
        row = echo_expected(case['echo'], g, l)
        if entry == 'select':
            expected = [row[0]] if len(row) == 1 else [row]
        elif entry == 'get':
            expected = row[0] if len(row) == 1 else row
        else:
            expected = [row]
    elif entry == 'exists':
        expected = bool(matching_ids(case['cond'], g, l))
    elif entry == 'get_by_sql':
        ids = matching_ids(case['cond'], g, l)
        expected = 'MultipleObjectsFoundError' if len(ids) > 1 else (ids[0] if ids else None)
    elif entry == 'raw_col':
        val = echo_expected(case['echo'], g, l)[0]
        expected = sorted((r[0], val) for r in ROWS)
    elif entry == 'raw_two':
        first = eval(case['first']['e'][1], g, l)
        expected = sorted(r[0] for r in ROWS if r[1] == first and cond_truth(case['cond'], r, g, l))
    else:
        expected = matching_ids(case['cond'], g, l)
    raw = None
    frame = bool(case.get('frame'))
    if frame:
        label = 'in a function frame: ' + label
    if entry in ('raw_filter', 'raw_where') and not frame:
        try:
            raw = eval('raw_sql(%r)' % sqls[0], g2, l)      # caller scope = the generated globals/locals
        except Exception as e:
            return 'error', '%s raised %s: %s' % (label, type(e).__name__, e)
    with db_session:
        del LOG[:]
        try:
            if frame:
                extra = {'__db': db, '__E': E, 'select': select, 'raw_sql': raw_sql}
                try:
                    res = call_in_frame(entry, sqls, g, l, extra)
                except MultipleObjectsFoundError:
                    res = 'MultipleObjectsFoundError'
                if entry == 'select':
                    got = [tuple(r) if isinstance(r, tuple) else r for r in res]
                elif entry == 'get':
                    got = tuple(res) if isinstance(res, tuple) else res
                elif entry in ('execute', 'exists'):
                    got = res
                elif entry == 'insert':
                    pass
                elif entry == 'get_by_sql':
                    got = res if res is None or isinstance(res, str) else res.id
                elif entry == 'raw_col':
                    got = sorted(tuple(r) for r in res)
                else:
                    got = sorted(o.id for o in res)
            elif entry == 'select':
                got = [tuple(r) if isinstance(r, tuple) else r for r in db.select(sqls[0], g, l)]
            elif entry == 'get':
                got = db.get(sqls[0], g, l)
                got = tuple(got) if isinstance(got, tuple) else got
            elif entry == 'execute':
                got = db.execute(sqls[0], g, l).fetchall()
            elif entry == 'insert':
                db.execute(sqls[0], g, l)
            elif entry == 'exists':
                got = db.exists(sqls[0], g, l)
            elif entry == 'select_by_sql':
                got = sorted(o.id for o in E.select_by_sql(sqls[0], g, l))
            elif entry == 'get_by_sql':
                try:
                    o = E.get_by_sql(sqls[0], g, l)
                    got = None if o is None else o.id
                except MultipleObjectsFoundError:
                    got = 'MultipleObjectsFoundError'
            elif entry == 'raw_if':
                got = sorted(o.id for o in select('(x for x in E if raw_sql(%r))' % sqls[0], g2, l))
            elif entry == 'raw_lambda':
                got = sorted(o.id for o in E.select('lambda x: raw_sql(%r)' % sqls[0], g2, l))
            elif entry in ('raw_filter', 'raw_where'):
                q = E.select()
                q = q.filter(raw) if entry == 'raw_filter' else q.where(raw)
                got = sorted(o.id for o in q)
            elif entry == 'raw_col':
                got = sorted(tuple(r) for r in select('((x.id, raw_sql(%r)) for x in E)' % sqls[0], g2, l))
            elif entry == 'raw_two':
                src = '(x for x in E if x.a == raw_sql(%r) and raw_sql(%r))' % (sqls[0], sqls[1])
                got = sorted(o.id for o in select(src, g2, l))
        except Exception as e:
            db.rollback()
            return 'error', '%s raised %s: %s' % (label, type(e).__name__, e)
        log = list(LOG)
        if entry == 'insert':
            got = sqlite3.Connection.execute(db.get_connection(), 'select k, v from kv').fetchall()
            db.rollback()
    # 1. what reached the driver
    if not log:
        return 'text', '%s: nothing was executed' % label
    stmt = log[-1]
    dsql, dargs = stmt[0], stmt[1:]
    if entry.startswith('raw_'):
        pos = 0
        for rt in ref_texts:
            k = dsql.find(rt, pos)
            if k < 0:
                return 'text', '%s: the SQL sent to the driver %r does not contain the fragment text %r' % (label, dsql, rt)
            pos = k + len(rt)
    else:
        exp_sql = ref_texts[0]
        if entry in ('select', 'get', 'exists') and not exp_sql.lstrip()[:6].lower() == 'select':
            exp_sql = 'select ' + exp_sql       # documented: the select keyword may be omitted
        if dsql != exp_sql:
            return 'text', '%s: the driver received %r, expected %r' % (label, dsql, exp_sql)
    if values:
        if len(dargs) != 1:
            return 'params', '%s: the driver received arguments %r, expected one tuple %r' % (label, dargs, tuple(values))
        msg = R.compare_params(dargs[0], values, 'qmark')
        if msg:
            return 'params', '%s: driver arguments: %s' % (label, msg)
    elif dargs and not (len(dargs) == 1 and (dargs[0] is None or len(dargs[0]) == 0)):
        return 'params', '%s: no $-expressions but the driver received arguments %r' % (label, dargs)
    # 2. what came back
    if got != expected:
        return 'result', '%s returned %r, expected %r (sql at driver %r, arguments %r)' % (label, got, expected, dsql, dargs)
    return None
