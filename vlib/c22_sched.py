"""C22 helper (block B9 of DESIGN.md): a deterministic scheduler for real threads.

Actors are real `threading.Thread`s but exactly ONE is runnable at any moment; the others wait on a
condition variable.  Control changes hands only at *yield points*:

  * explicit points placed by the harness (operation / session boundaries, `sched.point(label)`),
  * `line` trace events inside a configured set of Pony code objects (`sys.settrace` in each actor thread; only
    frames whose code object is in the set get a local trace function), optionally restricted to a set of line
    numbers per code object (the lines that touch a shared cache),
  * an actor that would block on a `SchedLock` (the provider's two locks are replaced, on the provider
    *instance*, by such locks) or that finishes.

Yield points are numbered 0,1,2,... in the order they are reached (a global counter; the order is a
deterministic function of the scripts and of the pre-emption list because only one actor runs at a time).
A schedule is the list `preempts = [[position, k], ...]`: when yield point number `position` is reached,
control is handed to the k-th (0-based, by actor index) READY actor other than the running one; if there are
not that many, nothing happens.  Everywhere else the running actor continues; when it finishes or blocks,
the ready actor with the lowest index continues.

Deadlock (nobody ready, somebody blocked) is detected structurally and reported; no timeout decides
anything (the only timeout is a last-resort guard against a bug in this harness, reported as a harness error).
"""
import sys, threading

READY, BLOCKED, DONE = 'ready', 'blocked', 'done'


class Deadlock(BaseException):
    """raised inside a blocked actor when no actor can run any more (BaseException: Pony must not swallow it)"""


class HarnessHang(Exception):
    """last-resort guard: the actor threads did not finish (bug in the harness, never a verdict)"""


_active = [None]     # the scheduler whose actors are currently running (None between runs)


class SchedLock(object):
    """Replacement for threading.Lock on the SQLite provider instance: waiting is a scheduler yield."""

    def __init__(self, name):
        self.name = name
        self.owner = None          # None = unlocked; otherwise actor index or 'main'
        self.acquisitions = 0

    def _me(self):
        sched = _active[0]
        if sched is not None:
            me = getattr(sched.tl, 'actor', None)
            if me is not None:
                return sched, me
        return None, 'main'

    def acquire(self, blocking=True, timeout=-1):
        sched, me = self._me()
        while self.owner is not None:
            if sched is None or not blocking:
                if not blocking:
                    return False
                raise Deadlock('lock %s is held by %r while no scheduler is running' % (self.name, self.owner))
            sched.block(me, self)
        self.owner = me
        self.acquisitions += 1
        return True

    def release(self):
        if self.owner is None:
            raise RuntimeError('release unlocked lock')
        self.owner = None
        sched = _active[0]
        if sched is not None:
            sched.lock_released(self)

    def locked(self):
        return self.owner is not None

    __enter__ = acquire

    def __exit__(self, *exc):
        self.release()


class Scheduler(object):
    def __init__(self, n, preempts=(), codes=None, join_timeout=900.0):
        self.n = n
        self.cv = threading.Condition()
        self.state = [READY] * n
        self.waiting = [None] * n
        self.current = None
        self.count = 0                 # yield points reached so far
        self.preempts = {}
        for pos, target in preempts:
            self.preempts.setdefault(int(pos), int(target))
        self.codes = codes or {}       # code object -> frozenset(line numbers) or None (= every line)
        self.switches = []             # [position, from, to, where] for every hand-over caused by a pre-emption
        self.forced = []               # hand-overs caused by blocking / finishing
        self.traced_points = 0         # yield points that were line events inside Pony code
        self.traced_switches = 0       # pre-emptions taken at such points
        self.deadlock = False
        self.deadlocked = []           # [actor, text] for actors aborted by deadlock detection
        self.tl = threading.local()
        self.join_timeout = join_timeout
        self.thread_errors = []

    # ---- running ------------------------------------------------------------------------
    def run(self, bodies):
        """bodies: one callable per actor (called as body(actor_index)); returns when all are done"""
        assert len(bodies) == self.n
        threads = []
        for i, body in enumerate(bodies):
            t = threading.Thread(target=self._thread_main, args=(i, body), name='c22-actor-%d' % i)
            t.daemon = True
            threads.append(t)
        _active[0] = self
        try:
            for t in threads:
                t.start()
            with self.cv:
                self.current = 0
                self.cv.notify_all()
            for t in threads:
                t.join(self.join_timeout)
                if t.is_alive():
                    raise HarnessHang('actor thread %s did not finish (states %r, current %r)'
                                      % (t.name, self.state, self.current))
        finally:
            _active[0] = None
        if self.thread_errors:
            raise self.thread_errors[0]

    def _thread_main(self, me, body):
        self.tl.actor = me
        with self.cv:
            while self.current != me:
                self.cv.wait()
        if self.codes:
            sys.settrace(self._global_trace)
        try:
            body(me)
        except Deadlock as e:
            self.deadlocked.append([me, str(e)])
        except BaseException as e:       # a bug in the harness body (op errors are caught inside the body)
            self.thread_errors.append(e)
        finally:
            sys.settrace(None)
            self._finish(me)

    # ---- hand-over ----------------------------------------------------------------------
    def _handoff(self, me, target):
        with self.cv:
            self.current = target
            self.cv.notify_all()
            while self.current != me:
                self.cv.wait()

    def _pick(self, exclude=None):
        for i in range(self.n):
            if i != exclude and self.state[i] == READY:
                return i
        return None

    def point(self, where='op', traced=False):
        """a yield point reached by the running actor"""
        me = self.tl.actor
        pos = self.count
        self.count = pos + 1
        if traced:
            self.traced_points += 1
        k = self.preempts.get(pos)
        if k is None:
            return
        others = [i for i in range(self.n) if i != me and self.state[i] == READY]
        if not (0 <= k < len(others)):
            return
        target = others[k]
        self.switches.append([pos, me, target, where])
        if traced:
            self.traced_switches += 1
        self._handoff(me, target)

    def block(self, me, lock):
        """the running actor cannot take `lock`: mark it blocked and run somebody else"""
        self.state[me] = BLOCKED
        self.waiting[me] = lock
        nxt = self._pick(exclude=me)
        if nxt is None:
            self.deadlock = True
            self.state[me] = READY
            self.waiting[me] = None
            raise Deadlock('actor %d waits for %s held by %r and nobody else can run' % (me, lock.name, lock.owner))
        self.forced.append([self.count, me, nxt, 'blocked on ' + lock.name])
        self._handoff(me, nxt)
        if self.deadlock:
            self.state[me] = READY
            self.waiting[me] = None
            raise Deadlock('actor %d was still waiting for %s when every other actor had finished' % (me, lock.name))

    def lock_released(self, lock):
        for i in range(self.n):
            if self.state[i] == BLOCKED and self.waiting[i] is lock:
                self.state[i] = READY
                self.waiting[i] = None

    def _finish(self, me):
        with self.cv:
            self.state[me] = DONE
            nxt = self._pick()
            if nxt is None:
                blocked = [i for i in range(self.n) if self.state[i] == BLOCKED]
                if blocked:
                    self.deadlock = True       # wake them; each raises Deadlock and finishes
                    nxt = blocked[0]
            if nxt is not None:
                self.forced.append([self.count, me, nxt, 'finished'])
            self.current = nxt if nxt is not None else -1
            self.cv.notify_all()

    # ---- tracing ------------------------------------------------------------------------
    def _global_trace(self, frame, event, arg):
        if event == 'call' and frame.f_code in self.codes:
            return self._local_trace
        return None

    def _local_trace(self, frame, event, arg):
        if event == 'line':
            code = frame.f_code
            lines = self.codes[code]
            lineno = frame.f_lineno
            if lines is None or lineno in lines:
                self.point('%s:%d' % (code.co_name, lineno), True)
        return self._local_trace
