"""C25 part 2: string indexing / slicing on the non-SQLite code paths.

The same grid as the SQLite part (string length 0..6 x bounds -8..8 / omitted / None x constant / parameter / column modes) is
translated by pony's REAL MySQL and Oracle providers (the generic SQLBuilder.STRING_SLICE / StringMixin.__getitem__ path) and by
the PostgreSQL provider (its dedicated branches) over the stub drivers; the statement is executed by the fake DB-API driver of
vlib/c02_lib.py, i.e. evaluated by vlib/sqlemu.py under that dialect's substr / length / greatest / CASE semantics (personality
tables transcribed from the PostgreSQL 16, MariaDB 10.11 / MySQL 8.0 and Oracle manuals), and pony's own result conversion runs.
The result is compared with Python's s[i:j] / s[i] (index out of range: unspecified).  On Oracle '' is NULL (documented by pony), so
'' and None are identified there.
"""
from vlib import c02_lib

DIALECTS = ('mysql', 'oracle', 'postgres')
PATH = {'mysql': 'generic', 'oracle': 'generic', 'postgres': 'postgresql'}

_worlds = {}


class World(object):
    def __init__(self, dialect):
        from pony.orm import Database, Optional, PrimaryKey
        self.dialect = dialect
        self.pool = c02_lib.FakePool(dialect)
        db = Database()

        class E(db.Entity):
            id = PrimaryKey(int)
            s = Optional(str)
            a = Optional(int)
            b = Optional(int)
        db.bind(c02_lib.provider_class(dialect), pony_pool_mockup=self.pool)
        db.generate_mapping(check_tables=False)
        self.db, self.E = db, E
        t = E._table_
        self.table = t if isinstance(t, str) else t[-1]
        self.cols = [E.id.columns[0], E.s.columns[0], E.a.columns[0], E.b.columns[0]]

    def set_rows(self, rows):
        self.pool.tables = {self.table: (self.cols, [tuple(r) for r in rows])}
        del self.pool.statements[:]


def world(dialect):
    w = _worlds.get(dialect)
    if w is None:
        w = _worlds[dialect] = World(dialect)
    return w


def _bound_src(mode, val, name, col):
    if mode == 'omit':
        return ''
    if mode == 'const':
        return repr(val)
    if mode == 'param':
        return name
    if mode == 'col':
        return 'x.' + col
    raise ValueError(mode)


class Refused(Exception):
    """the emulator cannot judge the statement (kind = 'unmodelled') or the modelled server / grammar refuses it"""
    def __init__(self, kind, detail, sql):
        Exception.__init__(self, '%s: %s' % (kind, detail))
        self.kind, self.detail, self.sql = kind, detail, sql


def _run(w, src, params):
    from pony.orm import select, db_session
    try:
        with db_session:
            got = dict(select(src, {'E': w.E}, params)[:])
    except c02_lib.EmuFailure as e:
        raise Refused(e.kind, e.detail, w.pool.statements[0]['sql'] if w.pool.statements else None)
    rec = w.pool.statements[0]
    return got, rec['sent'] or rec['sql']


def run_slice(dialect, rows, smode, sval, tmode, tval):
    """rows: [(n, s, a, b)] -> (query text, sql, [(n, s, start, stop, got, expected)])"""
    w = world(dialect)
    w.set_rows(rows)
    src = '((x.id, x.s[%s:%s]) for x in E)' % (_bound_src(smode, sval, 'i', 'a'), _bound_src(tmode, tval, 'j', 'b'))
    got, sql = _run(w, src, {'i': sval, 'j': tval})
    out = []
    for (n, s, a, b) in rows:
        start = None if smode == 'omit' else (a if smode == 'col' else sval)
        stop = None if tmode == 'omit' else (b if tmode == 'col' else tval)
        out.append((n, s, start, stop, got.get(n, '<missing row>'), s[start:stop]))
    return src, sql, out


def run_index(dialect, rows, mode, val):
    w = world(dialect)
    w.set_rows(rows)
    src = '((x.id, x.s[%s]) for x in E)' % _bound_src(mode, val, 'i', 'a')
    got, sql = _run(w, src, {'i': val})
    out = []
    for (n, s, a, b) in rows:
        idx = a if mode == 'col' else val
        if idx is None:
            continue
        try:
            exp = s[idx]
        except IndexError:
            continue          # unspecified
        out.append((n, s, idx, got.get(n, '<missing row>'), exp))
    return src, sql, out


def same(dialect, got, exp):
    if dialect == 'oracle':
        return (got or None) == (exp or None)       # '' is NULL in Oracle (documented)
    return got == exp


def nontrivial_bound(v, n):
    return v is None or v < 0 or v > n


def check_cell(ctx, dialect, cell, rows_one, rows_col, pony_error):
    """one grid cell on one dialect; rows_*: the SQLite part's row lists [(n, s, a, b)]"""
    path = PATH[dialect]
    if cell[0] == 'slice':
        _, smode, sv, tmode, tv = cell
        uses_col = 'col' in (smode, tmode)
        rows = rows_col if uses_col else rows_one
        if uses_col and smode != 'col':
            rows = [r for r in rows if r[2] is None]
        if uses_col and tmode != 'col':
            rows = [r for r in rows if r[3] is None]
        base = {'kind': 'slice', 'dialect': dialect, 'smode': smode, 'start': sv, 'tmode': tmode, 'stop': tv}
        try:
            src, sql, res = run_slice(dialect, rows, smode, sv, tmode, tv)
        except Refused as e:
            return _refused(ctx, dict(base, strings=sorted(set(r[1] for r in rows))), e, dialect)
        except Exception as e:
            return pony_error(ctx, dict(base, strings=sorted(set(r[1] for r in rows))), e)
        for (n, s, start, stop, got, exp) in res:
            case = {'kind': 'slice', 'dialect': dialect, 's': s, 'smode': smode, 'start': start, 'tmode': tmode, 'stop': stop}
            nt = (smode != 'omit' and nontrivial_bound(start, len(s))) or (tmode != 'omit' and nontrivial_bound(stop, len(s)))
            ctx.case(key=case, nontrivial=nt, classes=['dialect:' + dialect, 'path:' + path, 'slice'],
                     sample={'dialect': dialect, 'query': src, 'sql': sql.split('\n'), 's': s, 'start': start, 'stop': stop, 'got': got}
                     if n % 11 == 5 else None)
            if not same(dialect, got, exp):
                ctx.fail(case, '%s (%s path): %s with s=%r start=%r stop=%r returned %r, Python gives %r\n%s'
                         % (dialect, path, src, s, start, stop, got, exp, sql))
    else:
        _, mode, iv = cell
        rows = [r for r in rows_col if r[3] is None] if mode == 'col' else rows_one
        base = {'kind': 'index', 'dialect': dialect, 'mode': mode, 'index': iv}
        try:
            src, sql, res = run_index(dialect, rows, mode, iv)
        except Refused as e:
            return _refused(ctx, dict(base, strings=sorted(set(r[1] for r in rows))), e, dialect)
        except Exception as e:
            return pony_error(ctx, dict(base, strings=sorted(set(r[1] for r in rows))), e)
        for (n, s, idx, got, exp) in res:
            case = {'kind': 'index', 'dialect': dialect, 's': s, 'mode': mode, 'index': idx}
            ctx.case(key=case, nontrivial=idx < 0 or idx == len(s) - 1, classes=['dialect:' + dialect, 'path:' + path, 'index'],
                     sample={'dialect': dialect, 'query': src, 'sql': sql.split('\n'), 's': s, 'index': idx, 'got': got}
                     if n % 5 == 2 else None)
            if not same(dialect, got, exp):
                ctx.fail(case, '%s (%s path): %s with s=%r index=%r returned %r, Python gives %r\n%s'
                         % (dialect, path, src, s, idx, got, exp, sql))


def _refused(ctx, case, e, dialect):
    if e.kind in ('unmodelled', 'collation'):
        ctx.inconclusive += 1
        ctx.count('unmodelled:' + dialect)
        return
    ctx.fail(dict(case, refused=e.kind),
             '%s: the statement pony sends is refused (%s): %s\n%s' % (dialect, e.kind, e.detail, e.sql))


def replay(case):
    """-> message or None"""
    dialect = case['dialect']
    if case['kind'] == 'slice':
        strings = [case['s']] if 's' in case else case['strings']
        sv, tv = case['start'], case['stop']
        rows = [(k + 1, s, sv, tv) for k, s in enumerate(strings)]
        try:
            src, sql, res = run_slice(dialect, rows, case['smode'], sv, case['tmode'], tv)
        except Refused as e:
            if e.kind in ('unmodelled', 'collation'):
                return None
            return '%s: the statement pony sends is refused (%s): %s\n%s' % (dialect, e.kind, e.detail, e.sql)
        except (TypeError, NotImplementedError):
            return None
        except Exception as e:
            from pony.orm.core import TranslationError
            if isinstance(e, TranslationError):
                return None
            return 'unexpected %s: %s' % (type(e).__name__, e)
        for (n, s, start, stop, got, exp) in res:
            if not same(dialect, got, exp):
                return '%s (%s path): %s with s=%r start=%r stop=%r returned %r, Python gives %r\n%s' % (
                    dialect, PATH[dialect], src, s, start, stop, got, exp, sql)
        return None
    strings = [case['s']] if 's' in case else case['strings']
    rows = [(k + 1, s, case['index'], None) for k, s in enumerate(strings)]
    try:
        src, sql, res = run_index(dialect, rows, case['mode'], case['index'])
    except Refused as e:
        if e.kind in ('unmodelled', 'collation'):
            return None
        return '%s: the statement pony sends is refused (%s): %s\n%s' % (dialect, e.kind, e.detail, e.sql)
    except Exception as e:
        return 'unexpected %s: %s' % (type(e).__name__, e)
    for (n, s, idx, got, exp) in res:
        if not same(dialect, got, exp):
            return '%s (%s path): %s with s=%r index=%r returned %r, Python gives %r\n%s' % (
                dialect, PATH[dialect], src, s, idx, got, exp, sql)
    return None
