"""C01, date part: date / datetime attribute +- timedelta (literal in the query text or parameter) in projections and
filters, compared with Python's own date arithmetic (date +- timedelta uses the .days of the normalised timedelta only)."""
import datetime
from hypothesis import strategies as st

D0 = datetime.date(2020, 1, 1)


@st.composite
def cases(draw):
    rows = []
    for i in range(draw(st.integers(1, 4))):
        d = D0 + datetime.timedelta(days=draw(st.integers(-400, 400)))
        dt = datetime.datetime(2020, 1, 1) + datetime.timedelta(days=draw(st.integers(-400, 400)), seconds=draw(st.sampled_from([0, 1, 59, 3600, 5400, 43200, 86399])))
        rows.append([d.isoformat(), dt.isoformat(' ')])
    td = datetime.timedelta(days=draw(st.sampled_from([0, 0, 1, 1, 2, 30, 400])), seconds=draw(st.sampled_from([0, 0, 1, 60, 3600, 7200, 5400, 43200, 86399])))
    if td == datetime.timedelta(0):
        td = datetime.timedelta(days=1)
    return {'kind': 'dates', 'rows': rows, 'attr': draw(st.sampled_from(['d', 'dt'])), 'sign': draw(st.sampled_from(['+', '-'])),
            'td': [td.days, td.seconds], 'form': draw(st.sampled_from(['literal', 'param'])),
            'position': draw(st.sampled_from(['projection', 'filter'])), 'limit_row': draw(st.integers(0, 3)),
            'limit_off': draw(st.sampled_from([0, 1, -1, 1, -1]))}


def judge(case):
    from pony.orm import Database, Required, PrimaryKey, db_session, select
    from pony.orm.core import TranslationError
    db = Database()

    class T(db.Entity):
        id = PrimaryKey(int)
        d = Required(datetime.date)
        dt = Required(datetime.datetime)
    db.bind('sqlite', ':memory:')
    db.generate_mapping(create_tables=True)
    rows = [(datetime.date.fromisoformat(d), datetime.datetime.fromisoformat(dt)) for d, dt in case['rows']]
    td = datetime.timedelta(days=case['td'][0], seconds=case['td'][1])
    attr, sign = case['attr'], case['sign']
    tdsrc = 'timedelta(days=%d, seconds=%d)' % (td.days, td.seconds) if case['form'] == 'literal' else 'td'
    expr = 't.%s %s %s' % (attr, sign, tdsrc)

    def py(base):
        return base + td if sign == '+' else base - td
    exp = {i + 1: py(r[0] if attr == 'd' else r[1]) for i, r in enumerate(rows)}
    try:
        try:
            with db_session:
                for i, (d, dt) in enumerate(rows):
                    T(id=i + 1, d=d, dt=dt)
            with db_session:
                genv = {'T': T, 'timedelta': datetime.timedelta}
                if case['position'] == 'projection':
                    src = '(t.id, %s) for t in T' % expr
                    got = dict(select(src, genv, {'td': td})[:])
                    for i in sorted(exp):
                        if got.get(i) != exp[i]:
                            return 'select(%s) with td=%r: row %d holding %s gives %r, Python gives %r' % (
                                src, td, i, rows[i - 1][0 if attr == 'd' else 1], got.get(i), exp[i])
                else:
                    limit = exp[1 + case['limit_row'] % len(rows)]
                    if case.get('limit_off') and attr == 'dt':
                        limit = limit + datetime.timedelta(seconds=case['limit_off'])
                    src = 't.id for t in T if %s >= limit' % expr
                    got = sorted(select(src, genv, {'td': td, 'limit': limit})[:])
                    want = sorted(i for i in exp if exp[i] >= limit)
                    if got != want:
                        return 'select(%s) with td=%r limit=%r over %r returned ids %r, Python gives %r' % (src, td, limit, rows, got, want)
        except (TranslationError, NotImplementedError, TypeError):
            return None
        return None
    finally:
        db.disconnect()
