"""C34 reference decision model (no pony import): what the declared access rules grant.

The permission subsystem of pony is undocumented, so this model encodes only what the property statement fixes:

* a rule is *registered* for (entity, permission) when the permission is among the rule's permissions and the entity
  is among the entities named in `set_perms_for` or a subclass of one of them;
* a rule *excludes* an entity when the entity or one of its base classes was passed to `rule.exclude`, and excludes an
  attribute when that attribute was passed to `rule.exclude`;
* entity level   : some registered rule with rule.groups <= groups(user) that does not exclude the entity
                   (role / label requirements speak about an object; without an object they are vacuous);
* object level   : some rule registered for the object's class with rule.groups <= groups(user),
                   rule.roles <= roles(user, obj), rule.labels <= labels(obj), that does not exclude the object's class;
* attribute level: side(attr) = some rule registered for attr.entity with rule.groups <= groups(user) that excludes
                   neither attr.entity nor attr.  Non-relationship attribute: exactly side(attr).  Relationship
                   attribute: only   side(attr) and side(reverse) => granted   and   granted => side(attr) or side(reverse)
                   (the two readings of "minus ... exclusions on the reverse side"); the in-between is not asserted;
* can_view = view or edit; can_edit / can_create / can_delete = the permission of that name;
* groups(user)  = {'anybody'} + everything the applicable group getters return (None: nothing, str: one name);
  roles(user,o) = {'self'} if user is o, + getters; labels(o) = getters; user None: groups {'anybody'}, no roles;
* the providers are consulted afresh in every db_session: however the previous db_session ended (normally, by an
  exception in its body, by a failing flush, by a commit that fails on leaving it, after an explicit rollback), a new
  db_session answers for the groups / roles / labels the getters return NOW (cfg['epochs'] + effective()).
"""

PERMS = ['view', 'edit', 'create', 'delete']
CAN = {'can_view': ['view', 'edit'], 'can_edit': ['edit'], 'can_create': ['create'], 'can_delete': ['delete']}
GROUPS = ['g1', 'g2', 'g3']
ROLES = ['owner', 'editor', 'self']
LABELS = ['pub', 'draft']

ENTITIES = ['P', 'D', 'SD', 'T']
BASES = {'P': [], 'D': [], 'SD': ['D'], 'T': []}            # all bases
SUBCLASSES = {'P': [], 'D': ['SD'], 'SD': [], 'T': []}      # all subclasses
DOC_CLASSES = ('D', 'SD')                                   # classes that carry DocMixin

# attribute -> (declaring entity, reverse attribute or None, excludable (not part of the primary key))
ATTRS = {
    'P.id': ('P', None, False), 'P.name': ('P', None, True), 'P.note': ('P', None, True),
    'P.docs': ('P', 'D.owner', True), 'P.best': ('P', 'T.fan', True),
    'D.id': ('D', None, False), 'D.title': ('D', None, True), 'D.body': ('D', None, True),
    'D.owner': ('D', 'P.docs', True), 'D.tags': ('D', 'T.docs', True), 'D.classtype': ('D', None, True),
    'SD.extra': ('SD', None, True),
    'T.id': ('T', None, False), 'T.label': ('T', None, True),
    'T.docs': ('T', 'D.tags', True), 'T.fan': ('T', 'P.best', True),
}
ATTR_NAMES = sorted(ATTRS)
EXCLUDABLE = [a for a in ATTR_NAMES if ATTRS[a][2]]
REL_ATTRS = [a for a in ATTR_NAMES if ATTRS[a][1]]


def names(value):
    """what a getter's return value contributes: None nothing, a str one name, otherwise every element"""
    if value is None:
        return set()
    if isinstance(value, str):
        return {value}
    return set(value)


def expand(entity_names):
    out = set()
    for e in entity_names:
        out.add(e)
        out.update(SUBCLASSES[e])
    return out


class Ref(object):
    def __init__(self, cfg):
        self.cfg = cfg
        self.rules = []
        for r in cfg['rules']:
            self.rules.append({
                'entities': expand(r['entities']), 'perms': set(r['perms']),
                'groups': set(r['groups']), 'roles': set(r['roles']), 'labels': set(r['labels']),
                'xe': expand(r['excl_entities']), 'xa': set(r['excl_attrs'])})
        self.objects = object_keys(cfg)

    # ---- providers ------------------------------------------------------------------------------
    def obj_class(self, okey):
        kind, n = okey.split(':')
        if kind == 'D':
            return 'SD' if self.cfg['docs'][int(n) - 1]['sub'] else 'D'
        return kind

    def groups(self, ui):
        u = self.cfg['users'][ui]
        if u['kind'] == 'none':
            return {'anybody'}
        g = {'anybody'} | names(u.get('g1'))
        if u['kind'] == 'plain':
            g |= names(u.get('g2'))
        return g

    def roles(self, ui, okey):
        u = self.cfg['users'][ui]
        if u['kind'] == 'none':
            return set()
        out = set()
        if u['kind'] == 'entity' and okey == 'P:%d' % (u['person'] + 1):
            out.add('self')
        out |= names(self.cfg['roles1'].get('%d|%s' % (ui, okey)))
        if u['kind'] == 'plain' and self.obj_class(okey) in DOC_CLASSES:
            out |= names(self.cfg['roles2'].get('%d|%s' % (ui, okey)))
        return out

    def labels(self, okey):
        out = names(self.cfg['labels1'].get(okey))
        if self.obj_class(okey) in DOC_CLASSES:
            out |= names(self.cfg['labels2'].get(okey))
        return out

    # ---- decisions ------------------------------------------------------------------------------
    def registered(self, entity, perm):
        return [r for r in self.rules if entity in r['entities'] and perm in r['perms']]

    def entity_level(self, ui, perm, entity):
        g = self.groups(ui)
        return any(r['groups'] <= g and entity not in r['xe'] for r in self.registered(entity, perm))

    def object_level(self, ui, perm, okey, ignore_entity_exclusions=False):
        g = self.groups(ui)
        ro = self.roles(ui, okey)
        la = self.labels(okey)
        cls = self.obj_class(okey)
        for r in self.registered(cls, perm):
            if cls in r['xe'] and not ignore_entity_exclusions:
                continue
            if r['groups'] <= g and r['roles'] <= ro and r['labels'] <= la:
                return True
        return False

    def side(self, ui, perm, attr):
        entity = ATTRS[attr][0]
        g = self.groups(ui)
        return any(r['groups'] <= g and entity not in r['xe'] and attr not in r['xa']
                   for r in self.registered(entity, perm))

    def bounds_perm(self, ui, perm, target, variant=None):
        """(lower, upper): lower => must be granted, not upper => must be denied"""
        kind, name = target
        if kind == 'E':
            v = self.entity_level(ui, perm, name)
            return v, v
        if kind == 'O':
            v = self.object_level(ui, perm, name, ignore_entity_exclusions=(variant == 'obj_ignores_entity_exclusions'))
            return v, v
        rev = ATTRS[name][1]
        fwd = self.side(ui, perm, name)
        if rev is None:
            return fwd, fwd
        back = self.side(ui, perm, rev)
        upper = fwd or back
        if variant == 'reverse_loop_over_forward_rules':
            upper = upper or self.forward_rule_passes_reverse_test(ui, perm, name)
        return (fwd and back), upper

    def bounds(self, ui, fn, target, variant=None):
        perms = CAN.get(fn) or [fn]
        lo = up = False
        for p in perms:
            l, u = self.bounds_perm(ui, p, target, variant)
            lo = lo or l
            up = up or u
        return lo, up

    def forward_rule_passes_reverse_test(self, ui, perm, attr):
        """signature of the reverse-side loop defect: the reverse entity has some rule for the permission and a rule
        registered for the FORWARD entity satisfies the test that was meant for the reverse side's rules"""
        entity, rev, _ = ATTRS[attr]
        if rev is None:
            return False
        rev_entity = ATTRS[rev][0]
        if not self.registered(rev_entity, perm):
            return False
        g = self.groups(ui)
        return any(r['groups'] <= g and rev_entity not in r['xe'] and rev not in r['xa']
                   for r in self.registered(entity, perm))

    # ---- classification (generator health / non-triviality) -----------------------------------------------
    def classify(self, ui, perm, target):
        kind, name = target
        entity = name if kind == 'E' else (self.obj_class(name) if kind == 'O' else ATTRS[name][0])
        regs = self.registered(entity, perm)
        classes = []
        rel = kind == 'A' and ATTRS[name][1] is not None
        level = {'E': 'entity', 'O': 'object'}.get(kind) or ('relattr' if rel else 'attr')
        classes.append('level:' + level)
        lo, up = self.bounds_perm(ui, perm, target)
        if rel:
            classes.append('relattr:' + ('both_sides' if lo else 'one_side' if up else 'no_side'))
        else:
            classes.append(level + (':granted' if lo else ':denied'))
        g = self.groups(ui)
        group_ok = [r for r in regs if r['groups'] <= g]
        if kind in ('E', 'O') and not lo and any(entity in r['xe'] for r in group_ok):
            if kind == 'E' or self.object_level(ui, perm, name, ignore_entity_exclusions=True):
                classes.append(level + ':denied_only_by_entity_exclusion')
        if kind == 'A' and not rel and not lo and any(entity not in r['xe'] and name in r['xa'] for r in group_ok):
            classes.append('attr:denied_only_by_attr_exclusion')
        if kind == 'O':
            if any(r['roles'] for r in group_ok):
                classes.append('object:role_rule_in_play')
            if any(r['labels'] for r in group_ok):
                classes.append('object:label_rule_in_play')
            u = self.cfg['users'][ui]
            if (u['kind'] == 'entity' and name == 'P:%d' % (u['person'] + 1) and any('self' in r['roles'] for r in group_ok)
                    and 'self' not in names(self.cfg['roles1'].get('%d|%s' % (ui, name)))):
                classes.append('object:implicit_self_role_in_play')
            if lo and not any(r['groups'] <= g and not r['roles'] and not r['labels'] and entity not in r['xe']
                              for r in regs):
                classes.append('object:granted_through_roles_or_labels')
        return bool(regs), classes

    # ---- to_json closure -------------------------------------------------------------------------------------------
    def neighbours(self, okey, attr):
        """objects referenced from okey through relationship attribute attr ([] if attr is not an attribute of okey)"""
        cfg = self.cfg
        kind, n = okey.split(':')
        i = int(n) - 1
        entity = ATTRS[attr][0]
        cls = self.obj_class(okey)
        if entity != cls and entity not in BASES[cls]:
            return []
        if attr == 'P.docs':
            return ['D:%d' % (j + 1) for j, d in enumerate(cfg['docs']) if d['owner'] == i]
        if attr == 'P.best':
            return ['T:%d' % (k + 1) for k, t in enumerate(cfg['tags']) if t['fan'] == i]
        if attr == 'D.owner':
            return ['P:%d' % (cfg['docs'][i]['owner'] + 1)]
        if attr == 'D.tags':
            return ['T:%d' % (k + 1) for k in cfg['docs'][i]['tags']]
        if attr == 'T.docs':
            return ['D:%d' % (j + 1) for j, d in enumerate(cfg['docs']) if i in d['tags']]
        if attr == 'T.fan':
            f = cfg['tags'][i]['fan']
            return [] if f is None else ['P:%d' % (f + 1)]
        return []

    def closure(self, data, include):
        seen = []
        todo = list(data)
        while todo:
            o = todo.pop(0)
            if o in seen:
                continue
            seen.append(o)
            for a in include:
                if ATTRS[a][1]:
                    todo.extend(self.neighbours(o, a))
        return seen


END_MODES = ['normal', 'commit_error', 'body_error', 'flush_error', 'rollback_call']


def effective(cfg, epoch):
    """the configuration in force in epoch `epoch` (0 = as declared): same rules and objects; the users' group tables,
    the general role table and the general label table are those of cfg['epochs'][epoch - 1]"""
    if not epoch:
        return cfg
    ep = cfg['epochs'][epoch - 1]
    out = dict(cfg)
    users = []
    for ui, u in enumerate(cfg['users']):
        u = dict(u)
        if ui < len(ep['g']):
            u['g1'], u['g2'] = ep['g'][ui]
        users.append(u)
    out['users'] = users
    out['roles1'] = ep['roles1']
    out['labels1'] = ep['labels1']
    return out


def object_keys(cfg):
    return (['P:%d' % (i + 1) for i in range(cfg['people'])]
            + ['D:%d' % (i + 1) for i in range(len(cfg['docs']))]
            + ['T:%d' % (i + 1) for i in range(len(cfg['tags']))])


def targets(cfg):
    return ([['E', e] for e in ENTITIES] + [['A', a] for a in ATTR_NAMES] + [['O', o] for o in object_keys(cfg)])


def normalise(cfg):
    """make a generated / hand-written configuration well-formed (indices in range, one fan per person)"""
    cfg['people'] = max(1, int(cfg['people']))
    np_, nt = cfg['people'], len(cfg['tags'])
    for d in cfg['docs']:
        d['owner'] = d['owner'] % np_
        d['tags'] = sorted({t % nt for t in d['tags']}) if nt else []
    used = set()
    for t in cfg['tags']:
        if t['fan'] is not None:
            t['fan'] = t['fan'] % np_
            if t['fan'] in used:
                t['fan'] = None
            else:
                used.add(t['fan'])
    for u in cfg['users']:
        if u['kind'] == 'entity':
            u['person'] = u.get('person', 0) % np_
    cfg.setdefault('epochs', [])
    return cfg
