"""C36 harness: real os.fork() histories against pony, observed through recording connection objects.

Process tree of one case:   H (hypothesis / replay process)
                              `- P  "parent" of the history (forked from H so that H never holds pony session state)
                                  `- C  child (os.fork() at the generated fork point)
                                      `- G  grandchild (nested fork op)
Every forked process reports JSON through a pipe and leaves with os._exit (never returns into the caller).

Nothing in this module decides the property: it only executes a history and returns observations
(events per connection object with creator pid / current pid, op results, exceptions).  The judge is in
vlib/c36_judge.py.
"""
import os, sys, gc, json, time, signal, select, sqlite3, traceback, threading, errno

CHILD_TIMEOUT = 30.0     # watchdog inside C / G (seconds; generous: the machine may be heavily loaded)
PARENT_TIMEOUT = 150.0   # watchdog inside P
CASE_TIMEOUT = 180.0     # H waits this long for P
THREAD_STATES = ('thread_open_write', 'threads_queued_write')
THREAD_STATE_CHILD_TIMEOUT = 5.0   # 'thread_open_write' histories: a deadlock is proven by the stack, not by the time


# ------------------------------------------------------------------------------------------------
# recording sqlite3 connection
# ------------------------------------------------------------------------------------------------
EVENTS = []          # per process (inherited copy after fork; processes report only events after their mark)
_serial = [0]


def _ev(con, op, sql=None, real=True):
    EVENTS.append({'conn': con._c36_serial, 'creator': con._c36_creator, 'pid': os.getpid(), 'op': op,
                   'sql': sql, 'real': real})


class LogCursor(sqlite3.Cursor):
    def execute(self, sql, *args):
        _ev(self.connection, 'execute', sql)
        return sqlite3.Cursor.execute(self, sql, *args)

    def executemany(self, sql, *args):
        _ev(self.connection, 'executemany', sql)
        return sqlite3.Cursor.executemany(self, sql, *args)

    def executescript(self, sql):
        _ev(self.connection, 'executescript', sql)
        return sqlite3.Cursor.executescript(self, sql)


CONNECT_FAULT = {'armed': 0, 'fired': 0}     # per process: the next N connection attempts fail (fault injection)


class InjectedFault(Exception):
    """raised by the fake drivers of the pool part for an injected connection failure"""


class LogConnection(sqlite3.Connection):
    """sqlite3.Connection that records the pid that created it and the pid of every call that reaches SQLite.
    commit()/rollback() only reach SQLite when a transaction is open (python's sqlite3 skips them otherwise):
    `real` says whether the call issued a COMMIT / ROLLBACK statement."""

    def __init__(self, *args, **kwargs):
        if CONNECT_FAULT['armed'] > 0:           # the connection attempt fails before anything is opened
            CONNECT_FAULT['armed'] -= 1
            CONNECT_FAULT['fired'] += 1
            raise sqlite3.OperationalError('injected: unable to open database file')
        _serial[0] += 1
        self._c36_serial = '%d.%d' % (os.getpid(), _serial[0])
        self._c36_creator = os.getpid()
        sqlite3.Connection.__init__(self, *args, **kwargs)
        _ev(self, 'create')

    def cursor(self, *args, **kwargs):
        if not args and 'factory' not in kwargs:
            return sqlite3.Connection.cursor(self, LogCursor)
        return sqlite3.Connection.cursor(self, *args, **kwargs)

    def execute(self, sql, *args):
        _ev(self, 'execute', sql)
        return sqlite3.Connection.execute(self, sql, *args)

    def executemany(self, sql, *args):
        _ev(self, 'executemany', sql)
        return sqlite3.Connection.executemany(self, sql, *args)

    def executescript(self, sql):
        _ev(self, 'executescript', sql)
        return sqlite3.Connection.executescript(self, sql)

    def commit(self):
        _ev(self, 'commit', real=bool(self.in_transaction))
        return sqlite3.Connection.commit(self)

    def rollback(self):
        _ev(self, 'rollback', real=bool(self.in_transaction))
        return sqlite3.Connection.rollback(self)

    def close(self):
        try:
            intx = bool(self.in_transaction)
        except sqlite3.ProgrammingError:
            intx = False
        _ev(self, 'close', real=intx)      # real: close() with an open transaction rolls it back
        return sqlite3.Connection.close(self)


# ------------------------------------------------------------------------------------------------
# plumbing: fork + pipes + watchdog
# ------------------------------------------------------------------------------------------------
def _write_all(fd, data):
    view = memoryview(data)
    while view:
        n = os.write(fd, view)
        view = view[n:]


def _read_all(fd, timeout):
    """read until EOF or timeout; returns (bytes, timed_out)"""
    chunks = []
    deadline = time.time() + timeout
    while True:
        left = deadline - time.time()
        if left <= 0:
            return b''.join(chunks), True
        try:
            r, _, _ = select.select([fd], [], [], left)
        except InterruptedError:
            continue
        if not r:
            return b''.join(chunks), True
        try:
            b = os.read(fd, 65536)
        except InterruptedError:
            continue
        if not b:
            return b''.join(chunks), False
        chunks.append(b)


class Watchdog(BaseException):
    pass


def _where(frame):
    out = []
    f = frame
    while f is not None and len(out) < 12:
        out.append('%s:%s:%d' % (os.path.basename(f.f_code.co_filename), f.f_code.co_name, f.f_lineno))
        f = f.f_back
    return out


def _arm_watchdog(seconds, state):
    """SIGALRM raises Watchdog in the main thread; state['stack'] remembers where the process was blocked and
    whether that is a provable deadlock (a single-threaded process waiting, without a timeout, for a
    threading.Lock inside pony's SQLiteProvider.acquire_lock: nobody is left to release it)."""
    def handler(signum, frame):
        stack = _where(frame)
        state['stack'] = stack
        state['threads'] = threading.active_count()
        state['deadlock'] = (state['threads'] == 1 and any(':acquire_lock:' in s and s.startswith('sqlite.py') for s in stack))
        raise Watchdog()
    signal.signal(signal.SIGALRM, handler)
    signal.setitimer(signal.ITIMER_REAL, seconds)


def _disarm_watchdog():
    signal.setitimer(signal.ITIMER_REAL, 0)


def fork_and_report(body, timeout_state_seconds):
    """fork; in the child run body() -> JSON-able dict, write it to a pipe, os._exit.  Returns (pid, read_fd)."""
    r, w = os.pipe()
    sys.stdout.flush(); sys.stderr.flush()
    gc.freeze()          # keep the cyclic GC of the forked process away from inherited objects (copy-on-write faults)
    pid = os.fork()
    if pid == 0:
        code = 0
        try:
            gc.disable()     # short-lived process; finalisation of the recording objects is by reference count
            os.close(r)
            state = {}
            try:
                _arm_watchdog(timeout_state_seconds, state)
                rep = body()
            except Watchdog:
                rep = {'watchdog': True, 'stack': state.get('stack'), 'deadlock': state.get('deadlock', False),
                       'threads': state.get('threads')}
            except BaseException:
                rep = {'crash': traceback.format_exc()[-3000:]}
            finally:
                _disarm_watchdog()
            rep['pid'] = os.getpid()
            try:
                _write_all(w, json.dumps(rep, default=repr).encode())
            except BaseException:
                code = 3
        except BaseException:
            code = 4
        finally:
            os._exit(code)
    os.close(w)
    return pid, r


def collect(pid, fd, timeout):
    data, timed_out = _read_all(fd, timeout)
    os.close(fd)
    if timed_out:
        try:
            os.kill(pid, signal.SIGKILL)
        except OSError:
            pass
    try:
        os.waitpid(pid, 0)
    except OSError:
        pass
    if timed_out:
        return {'harness_timeout': True}
    if not data:
        return {'crash': 'no report from pid %d' % pid}
    return json.loads(data.decode())


def run_in_subprocess(body, timeout=CASE_TIMEOUT, inner_timeout=PARENT_TIMEOUT):
    """H side: run body() in a forked process group, kill the whole group afterwards."""
    def wrapped():
        os.setpgid(0, 0)
        return body()
    pid, fd = fork_and_report(wrapped, inner_timeout)
    try:
        os.setpgid(pid, pid)
    except OSError:
        pass
    rep = collect(pid, fd, timeout)
    try:
        os.killpg(pid, signal.SIGKILL)      # stragglers (a blocked child / grandchild)
    except OSError:
        pass
    return rep


# ------------------------------------------------------------------------------------------------
# SQLite histories through pony
# ------------------------------------------------------------------------------------------------
def _exc_info(e):
    return {'type': type(e).__name__, 'msg': str(e)[:300],
            'orig': type(getattr(e, 'original_exc', None)).__name__ if getattr(e, 'original_exc', None) is not None else None}


class SqliteWorld(object):
    """the pony objects of one case (built in P before the fork, inherited by C and G)"""

    def __init__(self, filename, sqlite_timeout=0.15):
        from pony import orm
        self.orm = orm
        self.db = db = orm.Database()

        class E(db.Entity):
            _table_ = 'e'
            id = orm.PrimaryKey(int, auto=True)
            name = orm.Required(str)
        self.E = E
        db.bind('sqlite', filename, create_db=True, factory=LogConnection, timeout=sqlite_timeout)
        db.generate_mapping(create_tables=True)
        self.session = None       # the manually entered db_session (open-session parent states)
        self.counter = 0

    # --- single operations; each returns a JSON-able record -------------------------------------
    def op(self, who, name, label=None):
        rec = {'who': who, 'op': name, 'label': label, 'mark': len(EVENTS), 'pid': os.getpid()}
        try:
            rec['result'] = getattr(self, 'do_' + name)(label)
            rec['ok'] = True
        except Watchdog:
            raise
        except Exception as e:
            rec['ok'] = False
            rec['exc'] = _exc_info(e)
        rec['end'] = len(EVENTS)
        if name == 'fail_connect':
            rec['fired'] = getattr(self, 'last_fault_fired', 0)
        return rec

    def _names(self):
        return sorted(e.name for e in self.E.select())

    def do_read(self, label):
        with self.orm.db_session:
            return self._names()

    def do_write(self, label):
        with self.orm.db_session:
            self.E(name=label)
            self.orm.flush()
            self.orm.commit()
        return label

    def do_getconn(self, label):
        with self.orm.db_session:
            con = self.db.get_connection()
            rows = con.execute('select name from e order by name').fetchall()
            return {'creator': getattr(con, '_c36_creator', None), 'pid': os.getpid(),
                    'names': sorted(r[0] for r in rows)}

    def do_fail_connect(self, label):
        """a read session during which the NEXT attempt to open a connection fails once (if no connection has to be
        opened -- pooled connection of this process, cached result -- nothing fails and this is a plain read)"""
        CONNECT_FAULT['armed'], CONNECT_FAULT['fired'] = 1, 0
        try:
            with self.orm.db_session:
                return self._names()
        finally:
            self.last_fault_fired = CONNECT_FAULT['fired']
            CONNECT_FAULT['armed'] = 0

    # a @db_session-decorated generator: its SessionCache lives in the wrapper between two steps
    def do_gen_start(self, label):
        world = self

        @self.orm.db_session
        def gen():
            cmd = None
            while True:
                names = world._names()
                if cmd is not None:
                    world.E(name=cmd)
                    world.orm.flush()
                world.orm.commit()        # the wrapper refuses to suspend with an open transaction
                cmd = yield names
        self.gen = gen()
        return next(self.gen)

    def do_gen_next(self, label):
        return next(self.gen)

    def do_gen_write(self, label):
        return self.gen.send(label)

    def do_disconnect(self, label):
        self.db.disconnect()
        return None

    def do_rollback(self, label):
        self.orm.rollback()
        return None

    def do_commit(self, label):
        self.orm.commit()
        return None

    def do_open(self, label):
        assert self.session is None
        s = self.orm.db_session
        s.__enter__()
        self.session = s
        return None

    def do_end_session(self, label):
        s, self.session = self.session, None
        if s is not None:
            s.__exit__(None, None, None)
        return None

    def do_abort_session(self, label):
        s, self.session = self.session, None
        if s is not None:
            try:
                s.__exit__(RuntimeError, RuntimeError('abort'), None)
            except Exception:
                pass
        return None

    def do_write_flush(self, label):       # inside the open session: uncommitted, flushed (BEGIN IMMEDIATE + INSERT)
        self.E(name=label)
        self.orm.flush()
        return label

    def do_write_noflush(self, label):     # inside the open session: only in pony's cache
        self.E(name=label)
        return label


def _sub_events(mark):
    return EVENTS[mark:]


def run_ops(world, who, ops, labels, records):
    """ops: list of op names or ['fork', [ops]]; labels: iterator of fresh labels for writes"""
    for op in ops:
        if isinstance(op, (list, tuple)) and op[0] == 'fork':
            sub = op[1]
            mark = len(EVENTS)
            gwho = who + 'G'

            def body(sub=sub, gwho=gwho, mark=mark):
                recs = []
                try:
                    run_ops(world, gwho, sub, labels, recs)
                finally:
                    pass
                return {'records': recs, 'events': _sub_events(mark)}
            ct = _child_timeout[0]
            signal.setitimer(signal.ITIMER_REAL, 2 * ct + 8)    # let the grandchild's own watchdog fire first
            pid, fd = fork_and_report(body, ct)
            rep = collect(pid, fd, ct + 5)
            signal.setitimer(signal.ITIMER_REAL, ct)
            records.append({'who': who, 'op': 'fork', 'sub': rep, 'sub_who': gwho, 'sub_pid': rep.get('pid', pid)})
        else:
            label = None
            if op in ('write', 'write_flush', 'write_noflush', 'gen_write'):
                label = '%s%d' % (who.lower(), next(labels))
            records.append(world.op(who, op, label))


class _Labels(object):
    """fresh labels; forked processes continue from the inherited counter with their own prefix, so no clash"""
    def __init__(self):
        self.n = 0

    def __next__(self):
        self.n += 1
        return self.n
    next = __next__


PARENT_STATES = ('disconnected', 'idle', 'open_read', 'open_write', 'open_dirty', 'after_commit')
GEN_STATE = 'gen_suspended'     # a @db_session generator of the parent is suspended (after a read) at the fork point


_WORLDS = {}


def get_world(workdir):
    """Built once per H process and left DISCONNECTED with no session state (pool.con is None), so that forking P
    from H is not itself a fork history; every P starts by emptying the table through its own new connection."""
    w = _WORLDS.get(workdir)
    if w is None:
        fn = os.path.join(workdir, 'c36_%d.sqlite' % os.getpid())
        for suffix in ('', '-journal', '-wal', '-shm'):
            try:
                os.unlink(fn + suffix)
            except OSError:
                pass
        w = _WORLDS[workdir] = SqliteWorld(fn)
        w.filename = fn
        # warm pony's per-Database SQL/translation caches once (inherited by every P), then leave no connection behind
        for name, label in (('write', 'warm'), ('read', None), ('getconn', None)):
            rec = w.op('H', name, label)
            assert rec['ok'], rec
        with w.orm.db_session:
            w.db.execute('delete from e')
        w.db.disconnect()
        del EVENTS[:]
    return w


MEMORY_DBS = {'memory': ':memory:', 'sharedmemory': ':sharedmemory:'}


def sqlite_history(case, world):
    """Runs in P.  Returns the observation dict."""
    del EVENTS[:]
    CONNECT_FAULT['armed'] = CONNECT_FAULT['fired'] = 0
    kind = case.get('db', 'file')
    if kind in MEMORY_DBS:
        # an in-memory database lives in its (never closed) connection: P itself has to open it, a world inherited from
        # H would already be a fork history
        world = SqliteWorld(MEMORY_DBS[kind])
        world.filename = None
    else:
        with world.orm.db_session:
            world.db.execute('delete from e')
    return _sqlite_history(case, world)


_child_timeout = [CHILD_TIMEOUT]


def _sqlite_history(case, world):
    fn = world.filename
    _child_timeout[0] = THREAD_STATE_CHILD_TIMEOUT if case['parent_state'] in THREAD_STATES else CHILD_TIMEOUT
    labels = _Labels()
    obs = {'pids': {'P': os.getpid()}, 'setup': [], 'child': None, 'parent_after': [], 'final': None}
    setup = obs['setup']
    # committed baseline
    setup.append(world.op('P', 'write', 'p0'))
    state = case['parent_state']
    if state == 'disconnected':
        setup.append(world.op('P', 'disconnect'))
    elif state == 'idle':
        pass
    elif state == 'open_read':
        setup.append(world.op('P', 'open'))
        setup.append(world.op('P', 'read_in'))
    elif state == 'open_write':
        setup.append(world.op('P', 'open'))
        setup.append(world.op('P', 'write_flush', 'pu'))
    elif state == 'open_dirty':
        setup.append(world.op('P', 'open'))
        setup.append(world.op('P', 'write_noflush', 'pu'))
    elif state == 'after_commit':
        setup.append(world.op('P', 'open'))
        setup.append(world.op('P', 'write_flush', 'pc'))
        setup.append(world.op('P', 'commit'))
    elif state == 'gen_suspended':
        setup.append(world.op('P', 'gen_start'))
    elif state in THREAD_STATES:
        # ANOTHER thread of the parent holds an open write transaction (and pony's SQLite transaction lock) at the fork
        ready, done = threading.Event(), threading.Event()
        thread_rec = {'who': 'PT', 'op': 'thread_write', 'label': 'tu', 'ok': None}

        def thread_body():
            try:
                with world.orm.db_session:
                    world.E(name='tu')
                    world.orm.flush()
                    ready.set()
                    done.wait(PARENT_TIMEOUT)
                thread_rec['ok'] = True
            except Exception as e:
                thread_rec['ok'] = False
                thread_rec['exc'] = _exc_info(e)
            finally:
                ready.set()
        thread = threading.Thread(target=thread_body)
        thread.daemon = True
        thread.start()
        ready.wait(PARENT_TIMEOUT)
        if thread_rec['ok'] is False:
            return dict(obs, harness_error='setup thread failed: %r' % (thread_rec,))
        thread_b = None
        if state == 'threads_queued_write':
            # ... and a SECOND thread is queued behind it: it starts a write session and waits inside pony for the first
            thread_b_rec = {'who': 'PB', 'op': 'thread_write', 'label': 'tb', 'ok': None}

            def thread_b_body():
                try:
                    with world.orm.db_session:
                        world.E(name='tb')
                        world.orm.flush()
                    thread_b_rec['ok'] = True
                except Exception as e:
                    thread_b_rec['ok'] = False
                    thread_b_rec['exc'] = _exc_info(e)
            thread_b = threading.Thread(target=thread_b_body)
            thread_b.daemon = True
            thread_b.start()
            # scheduling aid only (never part of the judgement): wait until the second thread is really queued
            t_end = time.time() + 3.0
            while time.time() < t_end and thread_b_rec['ok'] is None:
                lock = getattr(world.db.provider, 'pre_transaction_lock', None)
                if lock is not None and lock.locked():
                    break
                time.sleep(0.01)
            time.sleep(0.05)
            if thread_b_rec['ok'] is not None:
                return dict(obs, harness_error='second thread did not queue: %r' % (thread_b_rec,))
    else:
        raise ValueError(state)
    for rec in setup:
        if not rec['ok']:
            return dict(obs, harness_error='setup failed: %r' % (rec,))

    # ---- the fork point --------------------------------------------------------------------------
    go_r, go_w = os.pipe()
    mark = len(EVENTS)

    def child_body():
        os.close(go_w)
        if case['order'] == 'parent_first':
            signal.setitimer(signal.ITIMER_REAL, PARENT_TIMEOUT)
            _read_all(go_r, PARENT_TIMEOUT)     # wait until the parent finished its script
            signal.setitimer(signal.ITIMER_REAL, _child_timeout[0])     # the child's own watchdog starts now
        os.close(go_r)
        recs = []
        run_ops(world, 'C', case['child'], labels, recs)
        return {'records': recs, 'events': _sub_events(mark)}

    pid, fd = fork_and_report(child_body, _child_timeout[0])
    os.close(go_r)
    obs['pids']['C'] = pid

    def parent_script():
        recs = obs['parent_after']
        for op in case['parent_after']:
            if op in ('read', 'write'):
                if world.session is not None:
                    name = {'read': 'read_in', 'write': 'write_flush'}[op]
                else:
                    name = op
            else:
                name = op
            label = ('p%d' % next(labels)) if op in ('write', 'gen_write') else None
            rec = world.op('P', name, label)
            rec['in_session'] = world.session is not None or name == 'end_session'
            recs.append(rec)

    if case['order'] == 'parent_first':
        parent_script()
        os.close(go_w)
        obs['child'] = collect(pid, fd, 3 * CHILD_TIMEOUT + 10)
    else:
        obs['child'] = collect(pid, fd, 3 * CHILD_TIMEOUT + 10)
        os.close(go_w)
        parent_script()

    # ---- epilogue: the parent finishes its open session (commit) and reads everything in a new session -----
    fin = []
    if state == 'gen_suspended':
        try:
            world.gen.close()
        except Exception:
            pass
    if state in THREAD_STATES:
        done.set()
        thread.join(PARENT_TIMEOUT)
        obs['thread'] = thread_rec
        if thread_b is not None:
            thread_b.join(PARENT_TIMEOUT)
            obs['thread_b'] = thread_b_rec
    if world.session is not None:
        fin.append(world.op('P', 'end_session'))
        if not fin[-1]['ok']:
            world.op('P', 'abort_session')
    fin.append(world.op('P', 'read'))
    obs['final'] = fin
    obs['events'] = list(EVENTS)
    # independent look at the file (plain sqlite3, new connection)
    try:
        if fn is None:
            raise LookupError('in-memory database')
        c = sqlite3.connect(fn, timeout=1.0)
        obs['file_names'] = sorted(r[0] for r in c.execute('select name from e'))
        obs['integrity'] = c.execute('pragma integrity_check').fetchall()[0][0]
        c.close()
    except LookupError:
        obs['no_file'] = True
    except Exception as e:
        obs['file_error'] = repr(e)
    try:
        world.db.disconnect()
    except Exception:
        pass
    return obs


def _do_read_in(self, label):
    return self._names()
SqliteWorld.do_read_in = _do_read_in


# ------------------------------------------------------------------------------------------------
# generic Pool (pony.orm.dbapiprovider.Pool, inherited by the PostgreSQL / MySQL pools) and OraPool,
# driven directly with recording fake driver objects
# ------------------------------------------------------------------------------------------------
POOL_EVENTS = []
_pool_serial = [0]


def _pev(obj, op):
    POOL_EVENTS.append({'obj': obj.ident, 'kind': obj.kind, 'creator': obj.creator, 'pid': os.getpid(), 'op': op})


class RecBase(object):
    kind = '?'

    def __init__(self):
        _pool_serial[0] += 1
        self.ident = '%s%d.%d' % (self.kind, os.getpid(), _pool_serial[0])
        self.creator = os.getpid()
        _pev(self, 'create')

    def __del__(self):
        try:
            _pev(self, 'finalize')
        except Exception:
            pass


class RecConn(RecBase):
    """fake DB-API connection: every method call is an event (creator pid, calling pid)"""
    kind = 'con'

    def __init__(self, owner_pool=None):
        RecBase.__init__(self)
        self.owner_pool = owner_pool
        self.closed = False
        self.outputtypehandler = None

    def cursor(self):
        _pev(self, 'cursor')
        return RecCursor(self)

    def commit(self):
        _pev(self, 'commit')

    def rollback(self):
        _pev(self, 'rollback')

    def close(self):
        _pev(self, 'close')
        self.closed = True


class RecCursor(object):
    def __init__(self, con):
        self.con = con

    def execute(self, sql, *args):
        _pev(self.con, 'execute')

    def fetchone(self):
        return None

    def fetchall(self):
        return []


def _maybe_fail(where):
    if CONNECT_FAULT['armed'] > 0:
        CONNECT_FAULT['armed'] -= 1
        CONNECT_FAULT['fired'] += 1
        raise InjectedFault('injected: %s failed' % where)


class FakeDbapi(object):
    """fake DB-API module handed to Pool(dbapi_module, *args, **kwargs)"""
    def __init__(self):
        self.calls = []

    def connect(self, *args, **kwargs):
        self.calls.append((args, sorted(kwargs)))
        _maybe_fail('dbapi.connect')
        return RecConn()


class RecSessionPool(RecBase):
    """fake cx_Oracle.SessionPool"""
    kind = 'spool'

    def __init__(self, **kwargs):
        _maybe_fail('cx_Oracle.SessionPool')
        RecBase.__init__(self)
        self.kwargs = kwargs

    def acquire(self):
        _maybe_fail('SessionPool.acquire')
        _pev(self, 'acquire')
        return RecConn(owner_pool=self.ident)

    def release(self, con):
        _pev(self, 'release')
        _pev(con, 'release')

    def drop(self, con):
        _pev(self, 'drop')
        _pev(con, 'drop')


def load_oracle_provider():
    """import pony's Oracle provider on top of the stub cx_Oracle package (vlib/stubs, shared with other checks) whose
    SessionPool is replaced, in this process only, by the recording class"""
    stubs = os.path.join(os.path.dirname(os.path.abspath(__file__)), 'stubs')
    if stubs not in sys.path:
        sys.path.append(stubs)        # only inside this check's processes
    import cx_Oracle
    cx_Oracle.SessionPool = RecSessionPool      # attribute of the imported stub module object (file untouched)
    from pony.orm.dbproviders import oracle
    assert oracle.cx_Oracle is cx_Oracle
    return oracle


def make_pool(kind):
    if kind == 'generic':
        from pony.orm.dbapiprovider import Pool
        return Pool(FakeDbapi(), 'dsn', user='u')
    if kind == 'oracle':
        return load_oracle_provider().OraPool(user='u', password='p', dsn='d', min=1, max=2, increment=1)
    raise ValueError(kind)


def pool_history(case):
    """Runs in P.  case = {'pool': 'generic'|'oracle', 'ops': [...]} with ops in
    'connect', 'use', 'release', 'drop', 'disconnect', 'gc', ['fork', [ops]].
    The harness only releases/drops a connection that connect() returned IN THE SAME PROCESS
    (held is cleared right after each fork, like a child that abandons the inherited session state)."""
    del POOL_EVENTS[:]
    CONNECT_FAULT['armed'] = CONNECT_FAULT['fired'] = 0
    pool = make_pool(case['pool'])
    held = {}

    def run(who, ops, out):
        for op in ops:
            rec = {'who': who, 'op': op if isinstance(op, str) else 'fork', 'pid': os.getpid()}
            try:
                if not isinstance(op, str):
                    mark = len(POOL_EVENTS)
                    sub = op[1]
                    gwho = who + ('C' if who == 'P' else 'G')

                    def body(sub=sub, gwho=gwho, mark=mark):
                        held.clear()
                        recs = []
                        run(gwho, sub, recs)
                        return {'records': recs, 'events': POOL_EVENTS[mark:]}
                    pid, fd = fork_and_report(body, CHILD_TIMEOUT)
                    rec['sub'] = collect(pid, fd, CHILD_TIMEOUT + 3)
                    rec['sub_who'] = gwho
                elif op == 'fail_next':
                    CONNECT_FAULT['armed'], CONNECT_FAULT['fired'] = 1, 0    # the next driver-level connect of this process fails
                elif op == 'connect':
                    if 'con' in held:
                        rec['skipped'] = 'already holding a connection'
                    else:
                        rec['armed'] = CONNECT_FAULT['armed']
                        con, is_new = pool.connect()
                        held['con'] = con
                        rec['result'] = {'con': con.ident, 'creator': con.creator, 'is_new': bool(is_new),
                                         'owner_pool': con.owner_pool, 'closed': con.closed}
                elif op == 'use':
                    if 'con' in held:
                        held['con'].cursor().execute('select 1')
                        rec['result'] = held['con'].ident
                    else:
                        rec['skipped'] = 'no connection'
                elif op in ('release', 'drop'):
                    if 'con' in held:
                        con = held.pop('con')
                        getattr(pool, op)(con)
                        rec['result'] = con.ident
                        del con
                    else:
                        rec['skipped'] = 'no connection'
                elif op == 'disconnect':
                    if 'con' in held:
                        rec['skipped'] = 'holding a connection'
                    else:
                        pool.disconnect()
                elif op == 'gc':
                    gc.collect()       # only objects created after the last gc.freeze() are examined
                else:
                    raise ValueError(op)
                rec['ok'] = True
            except Watchdog:
                raise
            except Exception as e:
                rec['ok'] = False
                rec['exc'] = _exc_info(e)
                rec['injected'] = isinstance(e, InjectedFault)
                rec['tb'] = traceback.format_exc()[-600:]
            out.append(rec)

    records = []
    run('P', case['ops'], records)
    return {'pids': {'P': os.getpid()}, 'records': records, 'events': list(POOL_EVENTS)}
