"""Shared runner pieces: shard context, violation type, hypothesis wrappers.

A check module (checks/cNN.py) defines

    ID, LEVEL, RULE, ASSUMPTIONS         -- evidence text
    SHARDS = {'quick': n, 'thorough': m}  -- worker processes per tier
    MIN_EVALS = {'quick': a, 'thorough': b} (optional)
    def run(ctx)                          -- one shard of generated search
    def replay(case) -> str | None        -- re-execute one stored case without hypothesis;
                                             returns the violation message or None
    EXCLUSIONS = {name: fn(case, message) -> bool}   (optional; used only for *open* known findings)
"""
import os, sys, json, time, hashlib, traceback, collections

HOME = os.environ.get('VERIF_HOME') or os.path.dirname(os.path.dirname(os.path.abspath(__file__)))


class Violation(Exception):
    def __init__(self, case, message):
        Exception.__init__(self, message)
        self.case = case
        self.message = message


class StopRun(Exception):
    """wall-clock guard hit: stop generating (inconclusive for the remainder, never a violation)"""


class Inconclusive(Exception):
    """a single case cannot be judged (e.g. emulator meets something it does not model)"""


def canon(obj):
    return json.dumps(obj, sort_keys=True, default=repr, ensure_ascii=True)


def chash(obj):
    return hashlib.sha1(canon(obj).encode()).hexdigest()[:16]


def derive_seed(seed, *parts):
    h = hashlib.sha256(('%d|' % seed + '|'.join(str(p) for p in parts)).encode()).hexdigest()
    return int(h[:12], 16)


def load_known(prop):
    out = []
    paths = [os.path.join(HOME, 'known_findings.json')]
    if os.environ.get('VERIF_EXTRA_KNOWN'):      # development aid: proposed entries not yet committed
        paths.append(os.environ['VERIF_EXTRA_KNOWN'])
    for path in paths:
        if not os.path.exists(path):
            continue
        with open(path) as f:
            data = json.load(f)
        out.extend(e for e in data.get('findings', []) if e.get('property') == prop)
    return out


class Ctx(object):
    def __init__(self, check, tier, seed, shard, nshards, budget_s):
        self.check = check
        self.prop = check.ID
        self.tier = tier
        self.base_seed = seed
        self.shard = shard
        self.nshards = nshards
        self.seed = derive_seed(seed, check.ID, shard)
        self.t0 = time.time()
        self.deadline = self.t0 + budget_s
        self.evaluations = 0
        self.nontrivial = set()
        self.classes = collections.Counter()
        self.samples = []
        self.excluded = collections.Counter()
        self.inconclusive = 0
        self.rejected = 0
        self.violation = None
        self.extra = {}
        excl = getattr(check, 'EXCLUSIONS', {})
        self.exclusions = []
        for e in load_known(self.prop):
            if e.get('status') == 'open' and e.get('exclusion'):
                fn = excl.get(e['exclusion'])
                if fn is not None:
                    self.exclusions.append((e['id'], fn))
        self.workdir = os.path.join(HOME, '.work', '%d' % os.getpid())
        os.makedirs(self.workdir, exist_ok=True)

    # ---- sizing -------------------------------------------------------------------------
    def scale(self, quick, thorough):
        """per-shard budget (case count) for the tier"""
        return quick if self.tier == 'quick' else thorough

    def time_left(self):
        return self.deadline - time.time()

    def check_time(self):
        if time.time() > self.deadline:
            raise StopRun()

    # ---- accounting ---------------------------------------------------------------------
    def case(self, key=None, nontrivial=False, classes=(), sample=None):
        self.evaluations += 1
        if nontrivial:
            self.nontrivial.add(key if isinstance(key, str) and len(key) <= 16 else chash(key))
        for c in classes:
            self.classes[c] += 1
        if sample is not None and len(self.samples) < 6 and (nontrivial or len(self.samples) < 2):
            self.samples.append(sample)

    def count(self, cls, n=1):
        self.classes[cls] += n

    def excluded_by(self, case, message):
        for kid, fn in self.exclusions:
            try:
                hit = fn(case, message)
            except Exception:
                hit = False
            if hit:
                return kid
        return None

    def fail(self, case, message):
        """report a mismatch: counted and skipped if it falls under an open known finding,
        otherwise raised as a Violation (hypothesis then shrinks within un-excluded failures)"""
        kid = self.excluded_by(case, message)
        if kid is not None:
            self.excluded[kid] += 1
            return False
        raise Violation(case, message)

    # ---- hypothesis wrappers ------------------------------------------------------------
    def settings(self, max_examples, **kw):
        from hypothesis import settings, HealthCheck, Phase
        phases = kw.pop('phases', None)
        if phases is None:
            phases = (Phase.generate, Phase.target, Phase.shrink)
        return settings(max_examples=max_examples, database=None, deadline=None,
                        derandomize=False, report_multiple_bugs=False, phases=phases,
                        suppress_health_check=list(HealthCheck), print_blob=False, **kw)

    def run_test(self, fn, strategy_kwargs, max_examples, name='t', **kw):
        """fn(**drawn) is run under hypothesis given(**strategy_kwargs)."""
        import hypothesis
        from hypothesis import given
        ctx = self

        def wrapped(**drawn):
            ctx.check_time()
            return fn(**drawn)
        wrapped.__name__ = name
        test = hypothesis.seed(derive_seed(self.seed, name))(
            self.settings(max_examples, **kw)(given(**strategy_kwargs)(wrapped)))
        try:
            test()
        except Violation as v:
            self.violation = {'case': v.case, 'message': v.message}
        except StopRun:
            self.extra['stopped_by_wall_clock'] = True
        except BaseException as e:
            # hypothesis may wrap; look for a Violation in the chain
            v = _find_violation(e)
            if v is not None:
                self.violation = {'case': v.case, 'message': v.message}
            elif _find_stop(e):
                self.extra['stopped_by_wall_clock'] = True
            else:
                raise
        return self.violation is None

    def run_machine(self, machine_cls, max_examples, step_count, name='m', **kw):
        import hypothesis
        from hypothesis.stateful import run_state_machine_as_test
        st = self.settings(max_examples, stateful_step_count=step_count, **kw)
        try:
            run_state_machine_as_test(hypothesis.seed(derive_seed(self.seed, name))(machine_cls), settings=st)
        except Violation as v:
            self.violation = {'case': v.case, 'message': v.message}
        except StopRun:
            self.extra['stopped_by_wall_clock'] = True
        except BaseException as e:
            v = _find_violation(e)
            if v is not None:
                self.violation = {'case': v.case, 'message': v.message}
            elif _find_stop(e):
                self.extra['stopped_by_wall_clock'] = True
            else:
                raise
        return self.violation is None

    # ---- result -------------------------------------------------------------------------
    def result(self):
        return {
            'shard': self.shard, 'seed': self.seed,
            'evaluations': self.evaluations,
            'nontrivial': sorted(self.nontrivial),
            'classes': dict(self.classes),
            'samples': self.samples,
            'excluded': dict(self.excluded),
            'inconclusive': self.inconclusive,
            'rejected': self.rejected,
            'violation': self.violation,
            'extra': self.extra,
            'wall_s': time.time() - self.t0,
        }


def _chain(e):
    seen = set()
    stack = [e]
    while stack:
        x = stack.pop()
        if x is None or id(x) in seen:
            continue
        seen.add(id(x))
        yield x
        stack.append(getattr(x, '__cause__', None))
        stack.append(getattr(x, '__context__', None))
        for sub in getattr(x, 'exceptions', ()) or ():
            stack.append(sub)


def _find_violation(e):
    for x in _chain(e):
        if isinstance(x, Violation):
            return x
    return None


def _find_stop(e):
    for x in _chain(e):
        if isinstance(x, StopRun):
            return True
    return False
