"""C19 harness: session shapes, instrumented provider locks, deterministic thread hand-off, and the oracle
"connections and the SQLite transaction lock are always released".

script  = [session, ...]            (run one after the other in one thread)
session = {'kind': 'readonly'|'optimistic'|'immediate'|'serializable'|'ddl'|'ddl_api'|'rawconn'
                   |'multi'|'multi_rev'|'multi_immediate'   (one db_session writing to TWO Database objects)
                   |'ddl_multi' with 'mid': ['commit'|'rollback', ...]  (db_session(ddl=True) running 1-3 transactions),
           'end': 'commit'|'raise'|'rollback'|'commit_more', 'cold': bool}
plan    = fault chain for vlib.faultdb.Recorder
actors  = [script, ...]  + schedule = [int, ...]   (threads under a deterministic hand-off, one runnable at a time)
"""
import os, sys, shutil, threading
from vlib import faultdb

KINDS = ('readonly', 'optimistic', 'immediate', 'serializable', 'ddl', 'ddl_api', 'rawconn')
MULTI_KINDS = ('multi', 'multi_rev', 'multi_immediate')
DDL_MIDS = ([], ['commit'], ['rollback'], ['commit', 'commit'], ['commit', 'rollback'], ['rollback', 'commit'])
ENDS = ('commit', 'raise', 'rollback', 'commit_more')
SESSION_KW = {'readonly': {}, 'optimistic': {}, 'immediate': {'immediate': True}, 'serializable': {'serializable': True},
              'ddl': {'ddl': True}, 'ddl_multi': {'ddl': True}, 'rawconn': {}, 'multi': {}, 'multi_rev': {}, 'multi_immediate': {'immediate': True}}


def databases_needed(sessions):
    return 2 if any(s['kind'] in MULTI_KINDS for s in sessions) else 1


class BodyError(Exception):
    """raised on purpose by a session body ('end': 'raise')"""


class WouldBlock(BaseException):
    """a provider lock is not available and nobody who could release it can run: the caller would wait for ever.
    live_cycle: the lock is held by a session that is itself still running and waiting (two live sessions that take the
    locks of two databases in opposite order): an ordinary deadlock of the application, not a leaked lock"""
    live_cycle = False


# ---------------------------------------------------------------------------------------------- instrumented lock
class ILock(object):
    """drop-in for the threading.Lock objects of SQLiteProvider: remembers who holds it, never waits blindly"""

    def __init__(self, name, env):
        self.name = name
        self.env = env
        self.real = threading.Lock()
        self.holder = None            # thread ident
        self.holder_label = None      # which session of which thread took it
        self.bad_releases = []

    def acquire(self, blocking=True, timeout=-1):
        me = threading.get_ident()
        if self.real.acquire(False):
            self.holder, self.holder_label = me, self.env.label()
            return True
        if not blocking:
            return False
        sched = self.env.scheduler
        if sched is not None and sched.is_actor(me):
            while True:
                sched.block(self)             # hand over; raises WouldBlock when nobody else can run
                if self.real.acquire(False):
                    self.holder, self.holder_label = me, self.env.label()
                    return True
        raise WouldBlock('%s is held by %s (%s) and nobody is running who could release it'
                         % (self.name, 'this thread' if self.holder == me else 'another thread', self.holder_label))

    def release(self):
        me = threading.get_ident()
        if not self.real.locked():
            self.bad_releases.append('%s released while not held (%s)' % (self.name, self.env.label()))
            raise RuntimeError('release unlocked lock')
        if self.holder != me:
            self.bad_releases.append('%s released by %s while held by %s' % (self.name, self.env.label(), self.holder_label))
        self.holder = self.holder_label = None
        self.real.release()

    def locked(self):
        return self.real.locked()

    def __enter__(self):
        self.acquire()

    def __exit__(self, *a):
        self.release()


# ---------------------------------------------------------------------------------------------- deterministic hand-off
class Scheduler(object):
    """threads are real, but exactly one actor runs at a time; control moves only at yield points (between operations and
    between sessions) and when an actor would wait for a provider lock.  Choices come from a list of ints."""

    def __init__(self, n, choices):
        self.n = n
        self.choices = list(choices)
        self.pos = 0
        self.cv = threading.Condition()
        self.state = ['ready'] * n        # 'ready' | 'blocked' | 'done'
        self.waiting_for = [None] * n
        self.current = None
        self.idents = {}
        self.deadlock = None
        self.trace = []

    def is_actor(self, ident):
        return ident in self.idents

    def me(self):
        return self.idents[threading.get_ident()]

    def _runnable(self):
        out = []
        for i in range(self.n):
            if self.state[i] == 'ready':
                out.append(i)
            elif self.state[i] == 'blocked' and not self.waiting_for[i].locked():
                out.append(i)
        return out

    def _pick(self):
        """choose the next actor (cv held); None when nobody can run"""
        r = self._runnable()
        if not r:
            return None
        c = self.choices[self.pos] if self.pos < len(self.choices) else 0
        self.pos += 1
        return r[c % len(r)]

    def _switch(self, i):
        nxt = self._pick()
        if nxt is None:
            if any(s == 'blocked' for s in self.state):
                self.deadlock = [(j, self.waiting_for[j].name, self.waiting_for[j].holder_label)
                                 for j in range(self.n) if self.state[j] == 'blocked']
                self.current = 'deadlock'
                self.cv.notify_all()
            else:
                self.current = None
                self.cv.notify_all()
            return
        self.trace.append(nxt)
        self.current = nxt
        if self.state[nxt] == 'blocked':
            self.state[nxt] = 'ready'
            self.waiting_for[nxt] = None
        self.cv.notify_all()

    def _wait_turn(self, i):
        while self.current != i:
            if self.current == 'deadlock' and self.state[i] == 'blocked':
                lock = self.waiting_for[i]
                holder = self.idents.get(lock.holder)
                live = (holder is not None and holder != i and self.state[holder] == 'blocked'
                        and lock.env.labels.get(lock.holder) == lock.holder_label)
                self.state[i] = 'ready'
                self.waiting_for[i] = None
                # let the blocked actors fail one after the other
                self.current = i
                e = WouldBlock('%s is held by %s and every thread that is still running waits for it'
                               % (lock.name, lock.holder_label))
                e.live_cycle = live
                raise e
            self.cv.wait()

    def start(self, i):
        with self.cv:
            self.idents[threading.get_ident()] = i
            self.cv.notify_all()
            self._wait_turn(i)

    def begin(self):
        """called by the controlling thread once all actors wait"""
        with self.cv:
            self._switch(None)

    def yield_(self):
        i = self.me()
        with self.cv:
            self._switch(i)
            self._wait_turn(i)

    def block(self, lock):
        i = self.me()
        with self.cv:
            self.state[i] = 'blocked'
            self.waiting_for[i] = lock
            self._switch(i)
            self._wait_turn(i)

    def finish(self):
        i = self.me()
        with self.cv:
            self.state[i] = 'done'
            if self.current == i or self.current == 'deadlock':
                self.current = None
                self._switch(i)


# ---------------------------------------------------------------------------------------------- environment
def define_entities(db):
    from pony.orm import Required, Optional, PrimaryKey

    from pony.orm import Set

    class A(db.Entity):
        v = Required(int)
        rs = Set('R')

    class B(db.Entity):
        id = PrimaryKey(int)
        s = Optional(str)

    class R(db.Entity):          # holds a foreign key to A: used to see whether the database still refuses dangling references
        a = Required(A)
    return {'A': A, 'B': B, 'R': R}


SETUP_ROWS = ('insert into "A" ("v") values (1)', 'insert into "A" ("v") values (2)',
              'insert into "B" ("id", "s") values (1, \'x\')', 'insert into "R" ("a") values (1)')
_schema_script = []


def schema_script():
    """Pony's DDL text for the model (no session involved)"""
    if not _schema_script:
        from pony.orm import Database
        db = Database()
        define_entities(db)
        db.bind('sqlite', ':memory:')
        db.generate_mapping(check_tables=False, create_tables=False)
        _schema_script.append(db.schema.generate_create_script())
    return _schema_script[0]


def make_template(path):
    """schema from Pony's DDL text, rows inserted with plain sqlite3: no Pony session is involved in the setup"""
    import sqlite3
    for p in (path, path + '-journal'):
        if os.path.exists(p):
            os.remove(p)
    con = sqlite3.connect(path)
    con.executescript(schema_script())
    for sql in SETUP_ROWS:
        con.execute(sql)
    con.commit()
    con.close()
    return path


class Env(object):
    def __init__(self, template, path, plan=None, ndb=1, memory=False):
        """memory=True: one Database on ':memory:' (the provider then keeps its connection pooled even where it closes the
        connection of a file database, e.g. after a ddl session); schema and rows are put in through the raw connection"""
        import sqlite3
        from pony.orm import Database
        self.memory = memory
        self.scheduler = None
        self.labels = {}
        self.rec = faultdb.Recorder(plan)
        self.dbs, self.Es, self.paths = [], [], []
        self.locks = {}
        for i in range(ndb):
            p = path if i == 0 else '%s.%d' % (path, i + 1)
            db = Database()
            E = define_entities(db)
            if memory:
                p = ':memory:'
                db.bind('sqlite', p, factory=faultdb.make_factory(self.rec, tag=i), timeout=0)
                raw = db.provider.pool.con
                sqlite3.Connection.executescript(raw, schema_script())
                for sql in SETUP_ROWS:
                    sqlite3.Connection.execute(raw, sql)
            else:
                for q in (p, p + '-journal'):
                    if os.path.exists(q):
                        os.remove(q)
                shutil.copyfile(template, p)
                db.bind('sqlite', p, create_db=False, factory=faultdb.make_factory(self.rec, tag=i), timeout=0)
            db.generate_mapping(check_tables=False, create_tables=False)
            prov = db.provider
            for name in ('pre_transaction_lock', 'transaction_lock'):
                if hasattr(prov, name):                  # observation only: same protocol as threading.Lock
                    lname = name if i == 0 else 'db%d.%s' % (i + 1, name)
                    self.locks[lname] = ILock(lname, self)
                    setattr(prov, name, self.locks[lname])
            self.dbs.append(db)
            self.Es.append(E)
            self.paths.append(p)
        self.db, self.E, self.path = self.dbs[0], self.Es[0], self.paths[0]
        tls = [l for n, l in self.locks.items() if n.endswith('transaction_lock') and 'pre_' not in n]
        self.rec.probe = lambda: any(l.locked() for l in tls)
        self.history = []         # (label, outcome) of every session that ended, in order
        self.rec.start()

    def earlier(self):
        bad = ['%s -> %s' % (lab, out) for lab, out in self.history if out != 'ok']
        return ' [sessions that ended with an error before: %s]' % ('; '.join(bad[-3:]) if bad else 'none')

    def label(self):
        return self.labels.get(threading.get_ident(), 'harness')

    def set_label(self, text):
        self.labels[threading.get_ident()] = text

    def disarm(self):
        self.rec.next_entry = len(self.rec.plan)

    def cleanup_thread(self):
        """never judged: make sure no session state of this thread survives into the next run"""
        from pony.orm import core
        try:
            for cache in list(core.local.db2cache.values()):
                try:
                    cache.rollback()
                except BaseException:
                    pass
            core.local.db2cache.clear()
            core.local.db_session = None
            core.local.db_context_counter = 0
        except Exception:
            pass

    def disconnect_all(self):
        for db in self.dbs:
            try:
                if db.provider.pool.con is not None:
                    db.disconnect()
            except BaseException:
                pass

    def close(self):
        self.cleanup_thread()
        self.disconnect_all()
        for r in self.rec.conns:
            try:
                import sqlite3
                sqlite3.Connection.close(r.obj)
            except Exception:
                pass


# ---------------------------------------------------------------------------------------------- session bodies
def run_session(env, sess, serial, yield_=None):
    """executes one session shape; returns the exception that came out of it (None = ended normally)"""
    from pony.orm import db_session, commit, rollback, flush, select, count
    y = yield_ or (lambda: None)
    db, A, B = env.db, env.E['A'], env.E['B']
    kind, end = sess['kind'], sess.get('end', 'commit')
    try:
        if sess.get('cold'):
            for d in env.dbs:
                d.disconnect()   # outside any session: the next session has to connect
        if kind == 'ddl_api':
            db.drop_table('B', if_exists=True, with_all_data=True)
            y()
            db.create_tables()
            return None
        with db_session(**SESSION_KW[kind]):
            if kind == 'readonly':
                select(a for a in A)[:]
                y()
                count(b for b in B)
            elif kind in ('optimistic', 'immediate', 'serializable'):
                objs = select(a for a in A).order_by(A.id)[:]
                y()
                objs[0].v += 1
                A(v=10 + serial)
                y()
                flush()
                y()
                if end == 'commit_more':
                    commit()
                    y()
                    objs[-1].v += 1
                    y()
            elif kind in MULTI_KINDS:
                order = [1, 0] if kind == 'multi_rev' else [0, 1]
                first, second = env.Es[order[0]]['A'], env.Es[order[1]]['A']
                objs = select(a for a in first).order_by(first.id)[:]
                y()
                objs[0].v += 1
                first(v=10 + serial)
                y()
                second(v=30 + serial)
                y()
                flush()
                y()
                if end == 'commit_more':
                    commit()
                    y()
                    second(v=50 + serial)
                    objs[-1].v += 1
                    y()
            elif kind == 'ddl_multi':
                mids = list(sess.get('mid') or [])
                for ti in range(len(mids) + 1):
                    name = 'Scratch%d_%d' % (serial, ti)
                    db.execute('create table if not exists "%s" ("x" integer)' % name, {}, {})
                    y()
                    if ti < len(mids):
                        (commit if mids[ti] == 'commit' else rollback)()
                        y()
                for ti in range(len(mids) + 1):
                    db.execute('drop table if exists "Scratch%d_%d"' % (serial, ti), {}, {})
                y()
            elif kind == 'ddl':
                name = 'Scratch%d' % serial
                db.execute('create table if not exists "%s" ("x" integer)' % name, {}, {})
                y()
                if end == 'commit_more':
                    commit()
                    y()
                db.execute('drop table if exists "%s"' % name, {}, {})
                y()
            elif kind == 'rawconn':
                con = db.get_connection()
                y()
                cur = con.cursor()
                cur.execute('insert into "A" ("v") values (?)', (20 + serial,))
                y()
                if end == 'commit_more':
                    commit()
                    y()
                    con = db.get_connection()
                    con.cursor().execute('update "A" set "v" = "v" + 1 where "id" = 1')
                    y()
            if end == 'raise':
                raise BodyError()
            if end == 'rollback':
                rollback()
                y()
    except BodyError:
        return None
    except WouldBlock:
        raise
    except Exception as e:
        return e
    return None


class Sentinel(Exception):
    pass


def dangling_reference_refused(env):
    """a plain session that inserts a row referencing a row that does not exist must be refused by the database
    (foreign keys are enforced on every connection Pony hands out); returns a message or None"""
    from pony.orm import db_session
    for i, db in enumerate(env.dbs):
        try:
            with db_session(optimistic=True):
                db.execute('insert into "R" ("a") values (424242)', {}, {})
                raise Sentinel()
        except Sentinel:
            return ('a following plain session stored a row with a dangling reference (insert into "R" ("a") values (424242) '
                    'was not refused): foreign key enforcement is off on the connection it got from the pool of database %d' % i)
        except WouldBlock:
            raise
        except Exception as e:
            if type(e).__name__ != 'IntegrityError':
                return 'the dangling-reference probe failed with %s: %s' % (type(e).__name__, str(e)[:160])
    return None


def followup(env, vid):
    """a plain write session that must work on a healthy database"""
    from pony.orm import db_session
    with db_session(optimistic=True):       # a session object of its own, like a decorated function of an application
        for E in env.Es:
            E['A'](v=vid)


# ---------------------------------------------------------------------------------------------- oracle
def check_thread_state(env, where, final=False):
    """judged in the thread whose session just ended; returns a violation message or None"""
    me = threading.get_ident()
    for name, lock in sorted(env.locks.items()):
        if lock.bad_releases:
            return '%s: %s' % (where, lock.bad_releases[0])
        if lock.holder == me and lock.locked():
            return ('%s: provider.%s is still held by the thread whose session ended (taken in %s)'
                    % (where, name, lock.holder_label))
        if env.scheduler is None and lock.locked():
            return '%s: provider.%s is still held (taken in %s) although no session is active' % (where, name, lock.holder_label)
    pool_cons = [db.provider.pool.con for db in env.dbs]   # thread-local: this thread's pooled connections
    tid = env.rec.tid()
    for r in env.rec.conns:
        if r.used_after_close:
            return ('%s: connection #%d was used after it had been closed: %s; calls: %s'
                    % (where, r.serial, r.used_after_close[:3], ' '.join(env.rec.brief()[-14:])))
        if r.tid != tid:
            continue
        if r.close_calls > 1:
            return '%s: connection #%d was closed %d times; calls: %s' % (where, r.serial, r.close_calls, ' '.join(env.rec.brief()[-14:]))
        if r.never_handed_out or r.close_refused:
            continue
        if any(r.obj is pc for pc in pool_cons):
            if r.closed or not r.is_open():
                return "%s: the pool's current connection #%d is closed" % (where, r.serial)
            fk = foreign_keys_state(r.obj)
            if fk != 1:
                hit = [e for e in env.rec.indexed() if e['conn'] == r.serial and e['fault'] and (e['sql'] or '').startswith('PRAGMA')
                       and e['kind'] == 'execute' and not e['in_tx']]
                init = [e for e in hit if 'foreign_keys = true' in e['sql'] and e['fault'] == 'before']
                return ("%s: connection #%d stays in the pool with foreign key enforcement switched off (PRAGMA foreign_keys = %r, "
                        "every new connection starts with 1)%s; calls: %s"
                        % (where, r.serial, fk,
                           ' -- its initialisation was interrupted by the injected fault at call %s (%s)' % (init[0]['i'], init[0]['sql'])
                           if init and not any('foreign_keys = false' in (e['sql'] or '') for e in env.rec.indexed() if e['conn'] == r.serial) else '',
                           ' '.join(env.rec.brief()[-16:])))
        elif not r.closed:
            return ('%s: connection #%d is neither the pool\'s current connection nor closed (leaked open); calls: %s'
                    % (where, r.serial, ' '.join(env.rec.brief()[-14:])))
    return None


def locked_out(env, exc, label):
    """a session into which no fault was injected and which dies of SQLite's 'database is locked' / 'database table is
    locked' was shut out by another session of the same process: Pony's provider lock is there to make it WAIT until that
    session's transaction has really ended (with timeout=0 SQLite reports the conflict at once instead of retrying)"""
    if exc is None or isinstance(exc, WouldBlock) or faultdb.is_injected(exc):
        return None
    if any(r.close_refused for r in env.rec.conns):
        return None        # a connection the plan refused to close may still hold its file lock: not Pony's doing
    if any(e['fault'] == 'after' and (e['sql'] or '').startswith('BEGIN') for e in env.rec.indexed()):
        return None        # the plan reported a BEGIN as failed although it was performed: nobody can know about that transaction
    text = str(exc).lower()
    if 'database is locked' in text or 'table is locked' in text:
        hint = ''
        faults = [e for e in env.rec.indexed() if e['fault']]
        if faults and faults[-1]['kind'] == 'commit' and faults[-1]['fault'] == 'before' and faults[-1]['tid'] != env.rec.tid():
            hint = (' (the injected fault made the COMMIT of another thread fail at call %s: that thread gave the provider lock '
                    'back before it had rolled its transaction back)' % faults[-1]['i'])
        return ('%s failed with %s: %s -- it was not made to wait for another session of this process whose transaction had '
                'not ended yet%s;%s calls: %s' % (label, type(exc).__name__, str(exc)[:120], hint, env.earlier(),
                                               ' '.join('%s@t%d' % (b, e['tid']) for b, e in
                                                        list(zip(env.rec.brief(), env.rec.indexed()))[-16:])))
    return None


def foreign_keys_state(con):
    """PRAGMA foreign_keys read through the raw connection (base-class call: not logged, never a fault point)"""
    import sqlite3
    try:
        row = sqlite3.Connection.execute(con, 'PRAGMA foreign_keys').fetchone()
        return row[0] if row is not None else None
    except sqlite3.Error as e:
        return 'unreadable: %s' % e


def internal_failure(env, exc, label):
    """a session that dies of an AssertionError inside Pony although no fault was injected into IT (the plan is exhausted
    or the error is not an injected one) failed because of what an earlier session left behind"""
    if isinstance(exc, AssertionError) and not faultdb.is_injected(exc) and any(out != 'ok' for _, out in env.history):
        return ('%s failed with an internal AssertionError: %s;%s calls: %s'
                % (label, str(exc)[:160], env.earlier(), ' '.join(env.rec.brief()[-14:])))
    return None


def release_refused(env):
    """connections whose close() the plan refused are closed by the harness (the driver gave up on them)"""
    import sqlite3
    for r in env.rec.conns:
        if r.close_refused and not r.closed:
            try:
                sqlite3.Connection.close(r.obj)
            except Exception:
                pass
            r.closed = True


def run_in_thread(fn, name):
    """run fn() in a new thread; returns ('ok', result) | ('error', exc) | ('hang', None).  The join timeout only turns a
    hang into 'inconclusive' -- blocking on a provider lock never hangs, the instrumented lock raises WouldBlock instead."""
    box = {}

    def target():
        try:
            box['result'] = ('ok', fn())
        except BaseException as e:
            box['result'] = ('error', e)
    t = threading.Thread(target=target, name=name)
    t.daemon = True
    t.start()
    t.join(300)
    return box.get('result', ('hang', None))


def followups(env, stats=None):
    """write sessions after everything else ended: same thread, then another thread.  Returns message / None /
    'inconclusive: ...'"""
    env.disarm()
    release_refused(env)
    env.set_label('follow-up session in the same thread')
    try:
        followup(env, 900001)
    except WouldBlock as e:
        return 'a following write session in the same thread would block for ever: %s' % e
    except Exception as e:
        return ('a following write session in the same thread failed with %s: %s;%s calls: %s'
                % (type(e).__name__, str(e)[:200], env.earlier(), ' '.join(env.rec.brief()[-14:])))
    msg = check_thread_state(env, 'after the follow-up session in the same thread')
    if msg:
        return msg
    try:
        msg = dangling_reference_refused(env)
    except WouldBlock as e:
        return 'a following session in the same thread would block for ever: %s' % e
    if msg:
        return msg + ';' + env.earlier() + ' calls: ' + ' '.join(env.rec.brief()[-14:])
    if env.memory:
        return None            # a second thread would get an empty in-memory database of its own

    def other():
        env.set_label('follow-up session in another thread')
        try:
            followup(env, 900002)
            return check_thread_state(env, 'after the follow-up session in another thread')
        finally:
            env.cleanup_thread()
            env.disconnect_all()
    kind, res = run_in_thread(other, 'followup')
    if kind == 'hang':
        return 'inconclusive: the follow-up thread did not finish'
    if kind == 'error':
        if isinstance(res, WouldBlock):
            return 'a following write session in another thread would block for ever: %s' % res
        return ('a following write session in another thread failed with %s: %s;%s calls: %s'
                % (type(res).__name__, str(res)[:200], env.earlier(), ' '.join(env.rec.brief()[-14:])))
    return res


def run_script_case(template, path, script, plan, info=None, memory=False):
    """single-thread case: returns violation message / 'inconclusive: ...' / None; info receives the call log facts"""
    env = Env(template, path, plan, 1 if memory else databases_needed(script), memory=memory)
    try:
        for si, sess in enumerate(script):
            env.set_label('session %d (%s, end=%s%s)' % (si, sess['kind'], sess.get('end', 'commit'), ', cold' if sess.get('cold') else ''))
            try:
                exc = run_session(env, sess, si)
            except WouldBlock as e:
                return 'session %d would block for ever: %s' % (si, e)
            msg = internal_failure(env, exc, 'session %d (%s)' % (si, sess['kind']))
            env.history.append((env.label(), 'ok' if exc is None else type(exc).__name__))
            if msg:
                return msg
            if info is not None:
                info.setdefault('outcomes', []).append(None if exc is None else type(exc).__name__)
                if exc is not None and not faultdb.is_injected(exc) and not isinstance(exc, RuntimeError):
                    info.setdefault('natural_errors', []).append('%s: %s' % (type(exc).__name__, str(exc)[:100]))
            msg = check_thread_state(env, 'after session %d (%s, end=%s%s) which ended with %s'
                                     % (si, sess['kind'], sess.get('end', 'commit'), ', cold' if sess.get('cold') else '',
                                        'no error' if exc is None else '%s: %s' % (type(exc).__name__, str(exc)[:80])))
            if msg:
                return msg
        if info is not None:
            info['calls'] = [dict(e) for e in env.rec.indexed()]
            info['fired'] = list(env.rec.fired)
        return followups(env)
    finally:
        env.close()


def run_actors_case(template, path, actors, schedule, plan, info=None):
    """2-3 threads under the deterministic hand-off; returns violation message / 'inconclusive: ...' / None"""
    env = Env(template, path, plan, databases_needed([s for a in actors for s in a]))
    try:
        sched = Scheduler(len(actors), schedule)
        env.scheduler = sched
        results = [None] * len(actors)

        def inside_call(entry):
            # schedule point INSIDE the DB-API call that ends a transaction: the call has been entered by Pony but is not
            # performed yet, and another actor may run now (as if the COMMIT / ROLLBACK took its time)
            if entry['kind'] in ('commit', 'rollback') and entry['i'] is not None and sched.is_actor(threading.get_ident()) \
                    and sched.state[sched.me()] == 'ready' and sched.current == sched.me():
                sched.yield_()
        env.rec.on_call = inside_call

        def actor(i):
            sched.start(i)
            try:
                for si, sess in enumerate(actors[i]):
                    lab = 'thread %d session %d (%s, end=%s)' % (i, si, sess['kind'], sess.get('end', 'commit'))
                    env.set_label(lab)
                    try:
                        exc = run_session(env, sess, 10 * i + si, sched.yield_)
                    except WouldBlock as e:
                        if not e.live_cycle:
                            results[i] = '%s would block for ever: %s' % (lab, e)
                            return
                        exc = e          # deadlock between two live sessions: this one gives up, like a deadlock victim
                        if info is not None:
                            info['live_deadlocks'] = info.get('live_deadlocks', 0) + 1
                    msg = internal_failure(env, exc, lab) or locked_out(env, exc, lab)
                    env.history.append((lab, 'ok' if exc is None else type(exc).__name__))
                    if msg:
                        results[i] = msg
                        return
                    msg = check_thread_state(env, 'after %s which ended with %s'
                                             % (lab, 'no error' if exc is None else '%s: %s' % (type(exc).__name__, str(exc)[:80])))
                    if msg:
                        results[i] = msg
                        return
                    if exc is not None and info is not None and not faultdb.is_injected(exc) and not isinstance(exc, WouldBlock):
                        info.setdefault('natural_errors', []).append('%s: %s' % (type(exc).__name__, str(exc)[:100]))
                    sched.yield_()
            except WouldBlock as e:
                results[i] = 'thread %d would block for ever: %s' % (i, e)
            except BaseException as e:
                results[i] = 'harness: thread %d raised %s: %s' % (i, type(e).__name__, e)
            finally:
                try:
                    env.cleanup_thread()
                    env.disconnect_all()         # the thread goes away: give its pooled connections back properly
                finally:
                    sched.finish()
        threads = [threading.Thread(target=actor, args=(i,), name='actor%d' % i) for i in range(len(actors))]
        for t in threads:
            t.daemon = True
            t.start()
        # wait until every actor is parked at its start, then hand over to the first one
        with sched.cv:
            while len(sched.idents) < len(actors):
                sched.cv.wait()
        sched.begin()
        for t in threads:
            t.join(300)
            if t.is_alive():
                return 'inconclusive: an actor thread did not finish'
        env.scheduler = None
        if info is not None:
            info['calls'] = [dict(e) for e in env.rec.indexed()]
            info['fired'] = list(env.rec.fired)
            info['trace'] = list(sched.trace)
        for r in results:
            if r:
                return r
        # every connection made by an actor thread must be closed by now (each thread disconnected at its end)
        for r in env.rec.conns:
            if r.tid != env.rec.tid() and not (r.closed or r.never_handed_out or r.close_refused):
                return 'connection #%d of thread %d was never closed (leaked open)' % (r.serial, r.tid)
        return followups(env)
    finally:
        env.scheduler = None
        env.close()
