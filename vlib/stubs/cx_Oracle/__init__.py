"""Stub of cx_Oracle: names only (see ../README.txt)."""
version = '8.3.0 (stub)'
apilevel = '2.0'
threadsafety = 2
paramstyle = 'named'

class Warning(Exception): pass
class Error(Exception): pass
class InterfaceError(Error): pass
class DatabaseError(Error): pass
class DataError(DatabaseError): pass
class OperationalError(DatabaseError): pass
class IntegrityError(DatabaseError): pass
class InternalError(DatabaseError): pass
class ProgrammingError(DatabaseError): pass
class NotSupportedError(DatabaseError): pass


class _DbType(object):
    def __init__(self, name):
        self.name = name

    def __repr__(self):
        return '<cx_Oracle.%s>' % self.name

STRING = _DbType('STRING')
FIXED_CHAR = _DbType('FIXED_CHAR')
NUMBER = _DbType('NUMBER')
TIMESTAMP = _DbType('TIMESTAMP')
DATETIME = _DbType('DATETIME')
INTERVAL = _DbType('INTERVAL')
BINARY = _DbType('BINARY')
BLOB = _DbType('BLOB')
CLOB = _DbType('CLOB')
NCLOB = _DbType('NCLOB')
ROWID = _DbType('ROWID')
NATIVE_FLOAT = _DbType('NATIVE_FLOAT')


class LOB(object):
    def read(self):
        return b''


class SessionPool(object):
    def __init__(self, *args, **kwargs):
        raise OperationalError('stub cx_Oracle: no server in this sandbox')


def connect(*args, **kwargs):
    raise OperationalError('stub cx_Oracle: no server in this sandbox')


def makedsn(*args, **kwargs):
    return 'stub'
