"""Stand-in for Bottle used by checks/c18.py (Bottle is not installed in this sandbox).

Implements only what pony/orm/integration/bottle_plugin.py imports or relies on
(https://bottlepy.org/docs/dev/plugindev.html, https://bottlepy.org/docs/dev/api.html):

* `HTTPResponse` is an exception class that views may raise to return a response (this is what `redirect()` does);
  `HTTPError` is a subclass of `HTTPResponse` (this is what `abort()` raises).
* a plugin with `api = 2` is installed with `app.install(plugin)`; when a route is built, the route callback is
  replaced by `plugin.apply(callback, route)` (route is the Route object); the result is what is called per request.
* per request the (wrapped) callback is called; a raised HTTPResponse (including HTTPError) is the response;
  other exceptions propagate (catchall=False behaviour).

Nothing else of Bottle is modelled.
"""


class BottleException(Exception):
    pass


class HTTPResponse(BottleException):
    default_status = 200

    def __init__(self, body='', status=None, **headers):
        BottleException.__init__(self, body, status)
        self.body = body
        self.status = status if status is not None else self.default_status
        self.headers = headers


class HTTPError(HTTPResponse):
    default_status = 500

    def __init__(self, status=None, body=None, exception=None, traceback=None, **headers):
        HTTPResponse.__init__(self, body, status, **headers)
        self.exception = exception
        self.traceback = traceback


def abort(code=500, text='Unknown Error.'):
    raise HTTPError(code, text)


def redirect(url, code=303):
    raise HTTPResponse('', status=code, Location=url)


class Route(object):
    def __init__(self, app, rule, method, callback):
        self.app = app
        self.rule = rule
        self.method = method
        self.callback = callback
        self._call = None

    def _make_callback(self):
        callback = self.callback
        for plugin in reversed(self.app.plugins):
            if hasattr(plugin, 'apply'):
                callback = plugin.apply(callback, self)
            else:
                callback = plugin(callback)
        return callback

    def call(self, *args, **kwargs):
        if self._call is None:
            self._call = self._make_callback()
        return self._call(*args, **kwargs)


class Bottle(object):
    def __init__(self, catchall=False):
        self.catchall = catchall
        self.plugins = []
        self.routes = {}

    def install(self, plugin):
        if hasattr(plugin, 'setup'):
            plugin.setup(self)
        self.plugins.append(plugin)
        return plugin

    def route(self, path, method='GET', callback=None):
        def deco(cb):
            self.routes[path] = Route(self, path, method, cb)
            return cb
        return deco(callback) if callback is not None else deco

    def handle(self, path):
        """one request: returns the response object (the view's return value or the raised HTTPResponse);
        any other exception propagates"""
        try:
            return self.routes[path].call()
        except HTTPResponse as response:
            return response
