"""Stand-in for Flask used by checks/c18.py (Flask is not installed in this sandbox).

Implements only the documented request life-cycle contract that pony/flask/__init__.py relies on
(https://flask.palletsprojects.com/en/latest/api/  Flask.before_request / Flask.teardown_request,
 https://flask.palletsprojects.com/en/latest/reqcontext/ "Callbacks and Errors"):

* `flask.request` is a proxy to the request object of the request being handled; arbitrary attributes
  can be set on it and live for that request only; touching it outside a request raises RuntimeError.
* functions registered with `app.before_request` run, in registration order, before the view; if one returns a
  non-None value the view is skipped and that value is the response.
* functions registered with `app.teardown_request` run, in reverse registration order, when the request context is
  popped -- always, also when a before_request function or the view raised.  Each is called with ONE argument: the
  unhandled exception object, or None when there was none.  Their return values are ignored.
* an unhandled exception propagates to the caller after the teardown (PROPAGATE_EXCEPTIONS / testing behaviour).

Nothing else of Flask is modelled (no error handlers, no HTTPException handling, no after_request).
"""

_request_stack = []


class Request(object):
    """plain attribute bag, one per request"""


class _RequestProxy(object):
    def _current(self):
        if not _request_stack:
            raise RuntimeError('Working outside of request context.')
        return _request_stack[-1]

    def __getattr__(self, name):
        return getattr(self._current(), name)

    def __setattr__(self, name, value):
        setattr(self._current(), name, value)

    def __delattr__(self, name):
        delattr(self._current(), name)


request = _RequestProxy()


class Flask(object):
    def __init__(self, import_name='app'):
        self.import_name = import_name
        self.before_request_funcs = []
        self.teardown_request_funcs = []
        self.view_functions = {}

    def before_request(self, f):
        self.before_request_funcs.append(f)
        return f

    def teardown_request(self, f):
        self.teardown_request_funcs.append(f)
        return f

    def add_url_rule(self, rule, endpoint=None, view_func=None):
        self.view_functions[rule] = view_func

    def route(self, rule):
        def deco(f):
            self.add_url_rule(rule, view_func=f)
            return f
        return deco

    def handle_request(self, rule):
        """one request, start to finish (the stand-in for Flask.wsgi_app)"""
        _request_stack.append(Request())
        error = None
        try:
            try:
                rv = None
                for f in self.before_request_funcs:
                    rv = f()
                    if rv is not None:
                        break
                if rv is None:
                    rv = self.view_functions[rule]()
                return rv
            except BaseException as e:
                error = e
                raise
        finally:
            try:
                for f in reversed(self.teardown_request_funcs):
                    f(error)
            finally:
                _request_stack.pop()
