"""Stub of psycopg2.extensions."""
ISOLATION_LEVEL_AUTOCOMMIT = 0
ISOLATION_LEVEL_READ_COMMITTED = 1
ISOLATION_LEVEL_REPEATABLE_READ = 2
ISOLATION_LEVEL_SERIALIZABLE = 3
TRANSACTION_STATUS_IDLE = 0


class connection(object):
    pass


class cursor(object):
    pass


def register_type(*args, **kwargs):
    pass


def register_adapter(*args, **kwargs):
    pass


def new_type(*args, **kwargs):
    return object()


def new_array_type(*args, **kwargs):
    return object()


def adapt(x):
    return x
