"""Stub of psycopg2: names only (see ../README.txt)."""
__version__ = '2.9.9 (stub)'
apilevel = '2.0'
threadsafety = 2
paramstyle = 'pyformat'

class Warning(Exception): pass
class Error(Exception):
    pgcode = None
    pgerror = None
class InterfaceError(Error): pass
class DatabaseError(Error): pass
class DataError(DatabaseError): pass
class OperationalError(DatabaseError): pass
class IntegrityError(DatabaseError): pass
class InternalError(DatabaseError): pass
class ProgrammingError(DatabaseError): pass
class NotSupportedError(DatabaseError): pass


def Binary(x):
    return bytes(x)


def connect(*args, **kwargs):
    raise OperationalError('stub psycopg2: no server in this sandbox')

from . import extensions, extras   # noqa: E402
