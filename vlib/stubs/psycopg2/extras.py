"""Stub of psycopg2.extras."""


def register_uuid(*args, **kwargs):
    pass


def register_default_json(*args, **kwargs):
    pass


def register_default_jsonb(*args, **kwargs):
    pass


class Json(object):
    def __init__(self, adapted, dumps=None):
        self.adapted = adapted
