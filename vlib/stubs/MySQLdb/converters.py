"""Stub of MySQLdb.converters."""
conversions = {}
