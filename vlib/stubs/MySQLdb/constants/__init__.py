"""Stub of MySQLdb.constants."""
from . import FIELD_TYPE, FLAG, CLIENT   # noqa: F401
