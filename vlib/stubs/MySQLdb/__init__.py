"""Stub of MySQLdb: names only (see ../README.txt)."""
__version__ = '2.2.0 (stub)'
version_info = (2, 2, 0, 'final', 0)
apilevel = '2.0'
threadsafety = 1
paramstyle = 'format'

class Warning(Exception): pass
class Error(Exception): pass
class InterfaceError(Error): pass
class DatabaseError(Error): pass
class DataError(DatabaseError): pass
class OperationalError(DatabaseError): pass
class IntegrityError(DatabaseError): pass
class InternalError(DatabaseError): pass
class ProgrammingError(DatabaseError): pass
class NotSupportedError(DatabaseError): pass


def string_literal(s, encoders=None):
    if isinstance(s, bytes):
        s = s.decode('utf8')
    s = str(s)
    for a, b in (('\\', '\\\\'), ("'", "\\'"), ('\0', '\\0'), ('\n', '\\n'), ('\r', '\\r'), ('"', '\\"'), ('\x1a', '\\Z')):
        s = s.replace(a, b)
    return ("'" + s + "'").encode('utf8')


def connect(*args, **kwargs):
    raise OperationalError(2002, 'stub MySQLdb: no server in this sandbox')

Connect = connection = connect
from . import converters, constants   # noqa: E402
