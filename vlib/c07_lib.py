"""C07 helpers: attribute specs, JSON encoding of values for replay files, hypothesis strategies,
the live SQLite write / fresh-read / select / ==-parameter evaluation, and the pure codec round trips.

Nothing here imports pony at module import time (the runner imports the check module before PYTHONPATH
matters for evidence merging); pony is imported inside the functions.
"""
import os, sys, json, uuid, datetime, decimal
from decimal import Decimal
from datetime import date, time, timedelta

dt_datetime = datetime.datetime

KINDS = ['bool', 'int', 'float', 'decimal', 'str', 'longstr', 'bytes', 'date', 'time', 'datetime',
         'timedelta', 'uuid', 'json', 'intarray', 'strarray', 'floatarray']

# one wide entity = one attribute per slot (a slot may be dropped, see strategies)
SLOTS = ['bool', 'int', 'int', 'int', 'float', 'decimal', 'decimal', 'str', 'str', 'longstr', 'bytes', 'date',
         'time', 'time', 'datetime', 'datetime', 'timedelta', 'timedelta', 'uuid', 'json',
         'intarray', 'strarray', 'floatarray']

EMPTY_VALUE_KINDS = ('str', 'longstr', 'json', 'intarray', 'strarray', 'floatarray')   # Optional => NOT NULL + empty default
PARAM_KINDS = ('bool', 'int', 'decimal', 'str', 'longstr', 'bytes', 'date', 'time', 'datetime', 'timedelta', 'uuid',
               'json', 'intarray', 'strarray')      # exactly comparable (float and float arrays are not)

DECIMAL_PS = [None, (5, 2), (1, 1), (10, 4), (15, 5), (18, 6), (28, 10)]   # None = Pony default (12, 2)
WIDE_CONTEXT = decimal.Context(prec=80)
FLOAT_DAYS_LIMIT = 65536      # 2**16 days: above it one ulp of a double counting days exceeds one microsecond


# ------------------------------------------------------------------------------------------------
# JSON encoding of python values (replay files, case identity)

def enc(kind, v):
    if v is None:
        return None
    if kind == 'bool': return bool(v)
    if kind == 'int': return int(v)
    if kind == 'float': return repr(float(v))
    if kind == 'decimal': return str(v)
    if kind in ('str', 'longstr'): return str(v)
    if kind == 'bytes': return bytes(v).hex()
    if kind == 'date': return v.isoformat()
    if kind == 'time': return v.isoformat()
    if kind == 'datetime': return v.isoformat(' ')
    if kind == 'timedelta': return [v.days, v.seconds, v.microseconds]
    if kind == 'uuid': return v.hex
    if kind == 'json': return plain(v)
    if kind in ('intarray', 'strarray'): return list(v)
    if kind == 'floatarray': return [repr(x) if isinstance(x, float) else x for x in v]
    raise ValueError(kind)


def dec(kind, e):
    if e is None:
        return None
    if kind == 'bool': return bool(e)
    if kind == 'int': return int(e)
    if kind == 'float': return float(e)
    if kind == 'decimal': return Decimal(e)
    if kind in ('str', 'longstr'): return e
    if kind == 'bytes': return bytes.fromhex(e)
    if kind == 'date': return date.fromisoformat(e)
    if kind == 'time': return time.fromisoformat(e)
    if kind == 'datetime': return dt_datetime.fromisoformat(e)
    if kind == 'timedelta': return timedelta(days=e[0], seconds=e[1], microseconds=e[2])
    if kind == 'uuid': return uuid.UUID(hex=e)
    if kind == 'json': return e
    if kind in ('intarray', 'strarray'): return list(e)
    if kind == 'floatarray': return [float(x) if isinstance(x, str) else x for x in e]
    raise ValueError(kind)


def plain(v):
    """deep copy without Pony's change-tracking wrappers (TrackedDict/TrackedList are dict/list subclasses)"""
    if isinstance(v, dict):
        return {k: plain(x) for k, x in v.items()}
    if isinstance(v, list):
        return [plain(x) for x in v]
    if isinstance(v, tuple):
        return tuple(plain(x) for x in v)
    return v


def same(a, b):
    """equal value AND equal type, recursively through dict/list (floats by ==, so -0.0 equals 0.0)"""
    if type(a) is not type(b):
        return False
    if isinstance(a, dict):
        return a.keys() == b.keys() and all(same(a[k], b[k]) for k in a)
    if isinstance(a, (list, tuple)):
        return len(a) == len(b) and all(same(x, y) for x, y in zip(a, b))
    return a == b


class Snap(object):
    """a value as one session saw it: deep plain copy + name of the outer type"""
    __slots__ = ('value', 'tname')

    def __init__(self, v):
        self.value = plain(v)
        self.tname = type(v).__name__

    def show(self):
        return '%r (%s)' % (self.value, self.tname)


# ------------------------------------------------------------------------------------------------
# attribute declarations

def spec_to_json(spec):
    d = {'kind': spec['kind'], 'opts': spec['opts'], 'cls': spec['cls'], 'nullable': spec['nullable'],
         'v1': enc(spec['kind'], spec['v1'])}
    if spec.get('lazy') is not None:
        d['lazy'] = bool(spec['lazy'])
    if 'v2' in spec:
        d['v2'] = enc(spec['kind'], spec['v2'])
        if spec.get('v2_mode'):
            d['v2_mode'] = spec['v2_mode']
    return d


def spec_from_json(d):
    spec = {'kind': d['kind'], 'opts': dict(d.get('opts') or {}), 'cls': d.get('cls', 'Optional'),
            'nullable': bool(d.get('nullable', False)), 'v1': dec(d['kind'], d['v1'])}
    if d.get('lazy') is not None:
        spec['lazy'] = bool(d['lazy'])
    if 'v2' in d:
        spec['v2'] = dec(d['kind'], d['v2'])
        if d.get('v2_mode'):
            spec['v2_mode'] = d['v2_mode']
    return spec


def make_attr(spec):
    from pony.orm import Required, Optional, LongStr, Json
    from pony.orm.ormtypes import IntArray, StrArray, FloatArray
    kind, opts = spec['kind'], spec['opts']
    cls = Required if spec['cls'] == 'Required' else Optional
    args, kw = (), {}
    if kind == 'bool': t = bool
    elif kind == 'int':
        t = int
        if opts.get('size') is not None: kw['size'] = opts['size']
        if opts.get('unsigned'): kw['unsigned'] = True
    elif kind == 'float':
        t = float
        if 'tolerance' in opts: kw['tolerance'] = opts['tolerance']     # None = exact comparison
    elif kind == 'decimal':
        t = Decimal
        if opts.get('precision') is not None: args = (opts['precision'], opts['scale'])
    elif kind == 'str':
        t = str
        if opts.get('max_len') is not None: args = (opts['max_len'],)
        if opts.get('autostrip') is False: kw['autostrip'] = False
    elif kind == 'longstr':
        t = LongStr
        if opts.get('autostrip') is False: kw['autostrip'] = False
    elif kind == 'bytes': t = bytes
    elif kind == 'date': t = date
    elif kind in ('time', 'datetime', 'timedelta'):
        t = {'time': time, 'datetime': dt_datetime, 'timedelta': timedelta}[kind]
        if opts.get('precision') is not None: args = (opts['precision'],)
    elif kind == 'uuid': t = uuid.UUID
    elif kind == 'json': t = Json
    elif kind == 'intarray': t = IntArray
    elif kind == 'strarray': t = StrArray
    elif kind == 'floatarray': t = FloatArray
    else: raise ValueError(kind)
    if spec['nullable'] and cls is Optional and kind in EMPTY_VALUE_KINDS:
        kw['nullable'] = True
    if spec.get('lazy') is not None:
        kw['lazy'] = bool(spec['lazy'])      # lazy=True: the column is loaded by its own SELECT on first access
    return cls(t, *args, **kw)


def decimal_scale(opts):
    return opts['scale'] if opts.get('precision') is not None else 2


def decimal_precision(opts):
    return opts['precision'] if opts.get('precision') is not None else 12


def int_bounds(opts):
    size, unsigned = opts.get('size'), bool(opts.get('unsigned'))
    if size is None: size = 32        # IntConverter.init: unsized int is validated as 32 bit
    return (0, 2 ** size - 1) if unsigned else (-2 ** (size - 1), 2 ** (size - 1) - 1)


# ------------------------------------------------------------------------------------------------
# the non-trivial rule (value not representable unchanged in the naive SQL type: fraction, non-ASCII,
# precision/size boundary, extreme)

def nontrivial(kind, opts, v):
    if v is None: return False
    if kind == 'bool': return False
    if kind == 'int':
        lo, hi = int_bounds(opts)
        return v in (lo, lo + 1, hi - 1, hi) or abs(v) >= 2 ** 31
    if kind == 'float':
        return v != v or v in (float('inf'), float('-inf')) or v != int(v) or abs(v) >= 2.0 ** 53 or repr(v) == '-0.0'
    if kind == 'decimal':
        if not v.is_finite(): return True
        t = v.as_tuple()
        frac = max(0, -t.exponent)
        return frac >= decimal_scale(opts) and v != v.to_integral_value() or len(t.digits) >= decimal_precision(opts) \
            or t.exponent > 0
    if kind in ('str', 'longstr'):
        return v == '' or any(ord(c) > 127 or ord(c) < 32 or c in '\'"%\\' for c in v) or v != v.strip() \
            or (opts.get('max_len') is not None and len(v) == opts['max_len'])
    if kind == 'bytes':
        if v == b'' or b'\x00' in v: return True
        try: v.decode('utf8')
        except UnicodeDecodeError: return True
        return False
    if kind == 'date':
        return v.year < 1000 or v.year >= 9000 or (v.month, v.day) in ((2, 29), (12, 31), (1, 1))
    if kind == 'time':
        return v.microsecond != 0 or v in (time(0, 0, 0), time(23, 59, 59))
    if kind == 'datetime':
        return v.microsecond != 0 or v.year < 1000 or v.year >= 9000
    if kind == 'timedelta':
        return v.microseconds != 0 or v.days < 0 or abs(v.days) >= 10000
    if kind == 'uuid': return True
    if kind == 'json':
        def deep(x, depth):
            if isinstance(x, dict):
                return depth > 0 or any(deep(k, 1) or deep(y, depth + 1) for k, y in x.items())
            if isinstance(x, list):
                return depth > 0 or any(deep(y, depth + 1) for y in x)
            if isinstance(x, str): return any(ord(c) > 127 or ord(c) < 32 or c in '\'"\\' for c in x)
            if isinstance(x, float): return True
            if isinstance(x, bool) or x is None: return True
            if isinstance(x, int): return abs(x) >= 2 ** 53
            return True
        return deep(v, 0) or (isinstance(v, (dict, list)) and len(v) == 0)
    if kind == 'intarray':
        return len(v) == 0 or any(abs(x) >= 2 ** 31 for x in v)
    if kind == 'strarray':
        return len(v) == 0 or any(nontrivial('str', {}, x) for x in v)
    if kind == 'floatarray':
        return len(v) == 0 or any(isinstance(x, float) and nontrivial('float', {}, x) for x in v)
    return False


# ------------------------------------------------------------------------------------------------
# hypothesis strategies

def _float_near(v, variant, n):
    import math
    if v != v:
        return 0.0
    if v in (float('inf'), float('-inf')):
        return math.copysign(1.7976931348623157e308, v)
    if variant == 0: return v                                   # the same value assigned again
    if variant in (1, 2):                                       # n doubles up / down
        r = v
        for _ in range(n):
            r = math.nextafter(r, float('inf') if variant == 1 else float('-inf'))
    elif variant == 3: r = v * (1.0 + n * 2.0 ** -52)           # a few ulps, relative
    elif variant == 4: r = v * (1.0 - n * 1e-15)                # relative change of 1e-15 .. 4e-15
    elif variant == 5: r = v * (1.0 + n * 1e-9)                 # relative change of 1e-9 .. 4e-9
    elif variant == 6: r = v + n * 1e-12 if abs(v) < 1e3 else v * (1.0 + 1e-13)
    else: r = -v                                                # sign flip (0.0 <-> -0.0 included)
    if r != r or r in (float('inf'), float('-inf')):
        return v
    return r


def neighbour(kind, opts, cls, v, variant, n):
    """a value of the same declaration that differs from v by a minimal amount (variant 0: not at all);
    deterministic in (variant, n), which hypothesis draws"""
    if kind == 'bool':
        return v if variant == 0 else not v
    if kind == 'int':
        lo, hi = int_bounds(opts)
        r = v + n if variant % 2 else v - n
        if variant == 0: r = v
        return r if lo <= r <= hi else (v - n if lo <= v - n else v + n if v + n <= hi else v)
    if kind == 'float':
        return _float_near(v, variant, n)
    if kind == 'decimal':
        if variant == 0 or not v.is_finite(): return v
        p, s = decimal_precision(opts), decimal_scale(opts)
        step = Decimal(10) ** -(s + (1 if variant == 7 else 0)) * n       # variant 7: below the scale
        r = WIDE_CONTEXT.add(v, step) if variant % 2 else WIDE_CONTEXT.subtract(v, step)
        if len(r.quantize(Decimal(10) ** -s, context=WIDE_CONTEXT).as_tuple().digits) > p:
            r = WIDE_CONTEXT.subtract(v, step) if v > 0 else WIDE_CONTEXT.add(v, step)
        if len(r.quantize(Decimal(10) ** -s, context=WIDE_CONTEXT).as_tuple().digits) > p:
            return v
        return r
    if kind in ('str', 'longstr'):
        max_len = opts.get('max_len')
        size = 60 if kind == 'longstr' else 16
        if max_len is not None: size = min(size, max_len)
        if variant == 0: return v
        if variant == 1 and v: r = v.swapcase()
        elif variant == 2 and len(v) > 1: r = v[:-1]
        elif len(v) < size: r = v + 'aZ\xe9 0'[variant % 5] if variant != 6 else 'b' + v
        elif v: r = v[:-1] + ('a' if v[-1] != 'a' else 'b')
        else: r = v
        strip = opts.get('autostrip', True)
        if cls == 'Required' and (r.strip() if strip else r) == '': return v
        if len(r.strip() if strip else r) > size: return v
        return r
    if kind == 'bytes':
        if variant == 0: return v
        if variant % 2 and v: return v[:-1] + bytes([v[-1] ^ (1 << (n - 1))])
        if variant == 2 and v: return v[:-1]
        return v + bytes([n - 1])
    if kind == 'date':
        if variant == 0: return v
        try: return v + timedelta(days=n if variant % 2 else -n)
        except OverflowError: return v - timedelta(days=n) if variant % 2 else v + timedelta(days=n)
    if kind in ('time', 'datetime', 'timedelta'):
        if variant == 0: return v
        prec = opts.get('precision')
        unit = 10 ** (6 - (6 if prec is None else prec)) if variant < 6 else 1     # variants 6, 7: below the precision
        step = timedelta(microseconds=unit * n) * (1 if variant % 2 else -1)
        if kind == 'time':
            us = ((v.hour * 60 + v.minute) * 60 + v.second) * 10 ** 6 + v.microsecond + step // timedelta(microseconds=1)
            us %= 86400 * 10 ** 6
            return time(us // (3600 * 10 ** 6), us // (60 * 10 ** 6) % 60, us // 10 ** 6 % 60, us % 10 ** 6)
        try: return v + step
        except OverflowError: return v - step
    if kind == 'uuid':
        if variant == 0: return v
        return uuid.UUID(int=(v.int + (n if variant % 2 else -n)) % 2 ** 128)
    if kind == 'json':
        v = plain(v)
        if variant == 0: return v
        done = []

        def bump(x):        # change the first float / int / str leaf found (depth first) by a minimal amount
            if done: return x
            if isinstance(x, dict):
                return {k: bump(y) for k, y in x.items()}
            if isinstance(x, list):
                return [bump(y) for y in x]
            if isinstance(x, bool) or x is None: return x
            if isinstance(x, float):
                r = _float_near(x, 1 + variant % 2, n)
                if r != x: done.append(1)
                return r
            if isinstance(x, int) and variant < 6: done.append(1); return x + n
            if isinstance(x, str) and variant < 4: done.append(1); return x + 'a'
            return x
        r = bump(v)
        if done: return r
        if isinstance(v, list): return v + [n]
        r = dict(v)
        if '~' in r: del r['~']
        else: r['~'] = n
        return r
    if kind in ('intarray', 'strarray', 'floatarray'):
        v = list(v)
        if variant == 0: return v
        item = {'intarray': n, 'strarray': 'a' * n, 'floatarray': n * 0.1}[kind]
        if not v or variant == 2: return v + [item]
        if variant == 3: return v[:-1]
        if variant == 4: return v[::-1] if v[::-1] != v else v + [item]
        last = v[-1]
        if kind == 'intarray': last = last + (n if variant % 2 else -n) if type(last) is int else item
        elif kind == 'strarray': last = last + 'a'
        else: last = _float_near(float(last), 1 + variant % 2, n)
        return v[:-1] + [last]
    return v


TEXT_STORED_KINDS = ('date', 'time', 'datetime', 'json', 'intarray', 'strarray', 'floatarray')   # kept as text by SQLite


def text_form(kind, opts, v, style):
    """an independent textual rendering of a value (ISO forms for the temporal types, truncated to the declared
    precision; compact JSON; str() otherwise); style varies the spelling"""
    if v is None:
        return None
    prec = opts.get('precision')
    prec = 6 if prec is None else prec

    def us(x):
        return x - x % 10 ** (6 - prec)
    if kind == 'date':
        return '%04d-%02d-%02d' % (v.year, v.month, v.day)
    if kind == 'time':
        base, m = '%02d:%02d:%02d' % (v.hour, v.minute, v.second), us(v.microsecond)
        if style == 1 or (style != 2 and m): return '%s.%06d' % (base, m)
        return base
    if kind == 'datetime':
        base = '%04d-%02d-%02d %02d:%02d:%02d' % (v.year, v.month, v.day, v.hour, v.minute, v.second)
        m = us(v.microsecond)
        if style == 2: return base.replace(' ', 'T') + ('.%06d' % m if m else '')
        if style == 3 and not m: return base
        return '%s.%06d' % (base, m)
    if kind in ('json', 'intarray', 'strarray', 'floatarray'):
        try:
            if style == 1: return json.dumps(plain(v))
            return json.dumps(plain(v), separators=(',', ':'), sort_keys=True, ensure_ascii=style == 2)
        except (TypeError, ValueError):
            return None
    if kind == 'bool':
        return str(int(v)) if style % 2 else str(v)
    if kind == 'bytes':
        return v.hex() if style % 2 else v.decode('latin1')
    if kind == 'uuid':
        return v.hex if style % 2 else str(v)
    if kind == 'timedelta':
        return repr(v.total_seconds() / 86400.0) if style % 2 else str(v)
    if kind == 'float':
        return repr(v)
    return str(v)


def echo_text(spec, sib, style):
    """make the text attribute `spec` hold the textual form of the sibling's value(s), when it fits the declaration"""
    opts = spec['opts']
    max_len = opts.get('max_len')
    size = 300 if max_len is None else max_len
    strip = opts.get('autostrip', True)

    def fits(t):
        if t is None or any(0xd800 <= ord(c) <= 0xdfff for c in t):
            return False
        return 0 < len(t.strip() if strip else t) <= size
    t1 = text_form(sib['kind'], sib['opts'], sib['v1'], style)
    done = False
    if fits(t1):
        spec['v1'] = t1
        done = True
    if 'v2' in sib or 'v2' in spec:
        t2 = text_form(sib['kind'], sib['opts'], sib.get('v2', sib['v1']), style)
        if fits(t2):
            spec['v2'] = t2
            spec.pop('v2_mode', None)
            done = True
    if done:
        spec['echo'] = sib['kind']


_strategy_cache = {}


def _strategies():
    """hypothesis strategies (built once per process; no flatmap: value strategies are cached per declaration)"""
    if _strategy_cache:
        return _strategy_cache
    from hypothesis import strategies as st

    def with_extremes(base, extremes, p=3):
        """mostly `base`, about 1/p of the draws from the explicit list of extremes"""
        if not extremes:
            return base
        return st.one_of([st.sampled_from(extremes)] + [base] * (p - 1))

    text_chars = st.characters(codec='utf-8')     # every code point except surrogates, NUL included

    @st.composite
    def decimals(draw, p, s, beyond):
        ip = draw(st.one_of(st.integers(0, 10 ** (p - s) - 1), st.sampled_from([0, 10 ** (p - s) - 1])))
        extra = draw(st.integers(1, 3)) if beyond else 0
        k = draw(st.integers(0, s)) + extra
        fp = draw(st.one_of(st.integers(0, 10 ** k - 1), st.sampled_from([0, 10 ** k - 1, 5 * 10 ** (k - 1) if k else 0])))
        sign = '-' if draw(st.booleans()) else ''
        text = '%s%d' % (sign, ip) if k == 0 else '%s%d.%0*d' % (sign, ip, k, fp)
        d = Decimal(text)
        if len(d.quantize(Decimal(10) ** -s, context=WIDE_CONTEXT).as_tuple().digits) > p:
            # rounding to the scale would carry into one digit more than the declared precision: outside the domain
            d = Decimal('%s0.%0*d' % (sign, k, fp))
        if draw(st.integers(0, 9)) == 0:
            d = d.normalize(WIDE_CONTEXT)      # e.g. Decimal('1E+2'): same number, positive exponent (never rounded)
        return d

    json_leaf = st.one_of(st.none(), st.booleans(), st.integers(-2 ** 70, 2 ** 70), st.integers(-100, 100),
                          st.floats(allow_nan=False, allow_infinity=False),
                          st.text(text_chars, max_size=6))
    json_any = st.recursive(json_leaf, lambda ch: st.one_of(
        st.lists(ch, max_size=3), st.dictionaries(st.text(text_chars, max_size=4), ch, max_size=3)), max_leaves=6)
    json_top = st.one_of(st.lists(json_any, max_size=3),
                         st.dictionaries(st.text(text_chars, max_size=4), json_any, max_size=3))

    def value_strategy(spec):
        kind, opts = spec['kind'], spec['opts']
        if kind == 'bool':
            return st.booleans()
        if kind == 'int':
            lo, hi = int_bounds(opts)
            ext = sorted(set(x for x in (lo, lo + 1, -1, 0, 1, hi - 1, hi) if lo <= x <= hi))
            return with_extremes(st.integers(lo, hi), ext)
        if kind == 'float':
            ext = [0.0, -0.0, 5e-324, -5e-324, 2.2250738585072014e-308, 1.7976931348623157e308, -1.7976931348623157e308,
                   float('inf'), float('-inf'), 0.1, 1e15 + 0.3, 2.0 ** 53 + 2, 1e-7, 123456789.123456789]
            return with_extremes(st.floats(allow_nan=False), ext, p=4)
        if kind == 'decimal':
            p, s = decimal_precision(opts), decimal_scale(opts)
            return st.one_of([decimals(p, s, True)] + [decimals(p, s, False)] * 6)
        if kind in ('str', 'longstr'):
            max_len = opts.get('max_len')
            size = 60 if kind == 'longstr' else 16
            if max_len is not None: size = min(size, max_len)
            strip = opts.get('autostrip', True)
            ext = [x for x in ['', ' ', "'", '"', '%', '\x00', 'a\x00b', u'\xe9', u'\U0001f600', ' a ', 'a' * size,
                               u'Ж' * size, '\t\n', "O'Neil", '%s', ':p1', '?', u'　']
                   if len(x.strip() if strip else x) <= size]
            base = with_extremes(st.text(text_chars, max_size=size), ext, p=4)
            if spec['cls'] == 'Required':
                base = base.filter(lambda x: (x.strip() if strip else x) != '')
            return base
        if kind == 'bytes':
            return with_extremes(st.binary(max_size=24), [b'', b'\x00', b'\xff\xfe\x00', bytes(range(256)), b'abc',
                                                           u'\xe9'.encode('utf8'), b"'"], p=4)
        if kind == 'date':
            return with_extremes(st.dates(), [date(1, 1, 1), date(9999, 12, 31), date(999, 12, 31), date(1000, 1, 1),
                                              date(2000, 2, 29), date(1970, 1, 1), date(100, 3, 1)], p=4)
        if kind == 'time':
            return with_extremes(st.times(), [time(0, 0, 0), time(23, 59, 59, 999999), time(23, 59, 59),
                                              time(12, 0, 0, 1), time(1, 2, 3, 500000), time(0, 0, 0, 999)], p=4)
        if kind == 'datetime':
            return with_extremes(st.datetimes(), [dt_datetime(1, 1, 1), dt_datetime(1, 1, 1, 0, 0, 0, 1),
                                                  dt_datetime(9999, 12, 31, 23, 59, 59, 999999),
                                                  dt_datetime(999, 12, 31, 23, 59, 59), dt_datetime(1970, 1, 1),
                                                  dt_datetime(2000, 2, 29, 12, 0, 0, 500000)], p=4)
        if kind == 'timedelta':
            lim = timedelta(days=FLOAT_DAYS_LIMIT - 1, seconds=86399, microseconds=999999)
            small = st.timedeltas(min_value=-lim, max_value=lim)
            tiny = st.timedeltas(min_value=timedelta(days=-3), max_value=timedelta(days=3))
            huge = st.timedeltas()          # up to +-999999999 days: beyond what float days can hold exactly
            ext = st.sampled_from([timedelta(0), timedelta(microseconds=1), timedelta(microseconds=-1), lim, -lim,
                                   timedelta(days=1), timedelta(seconds=-1), timedelta(hours=838, minutes=59, seconds=59)])
            return st.one_of([ext] * 2 + [tiny] * 2 + [huge] + [small] * 5)
        if kind == 'uuid':
            return with_extremes(st.uuids(), [uuid.UUID(int=0), uuid.UUID(int=2 ** 128 - 1), uuid.UUID(int=1)], p=5)
        if kind == 'json':
            return json_top
        if kind == 'intarray':
            return st.lists(with_extremes(st.integers(-2 ** 63, 2 ** 63 - 1), [0, -1, 2 ** 63 - 1, -2 ** 63, 2 ** 31]),
                            max_size=4)
        if kind == 'strarray':
            return st.lists(with_extremes(st.text(text_chars, max_size=6), ['', ' a ', "'", '"', ',', '\x00', '[]']),
                            max_size=4)
        if kind == 'floatarray':
            return st.lists(with_extremes(st.floats(allow_nan=False), [0.0, -0.0, 5e-324, 1.7976931348623157e308, 0.1,
                                                                         float('inf')], p=4), max_size=4)
        raise ValueError(kind)

    def options(kind):
        if kind == 'int':
            out = []
            for size in (None, 8, 16, 24, 32, 64):
                for unsigned in (False, True):
                    if size == 64 and unsigned: continue          # SQLite provider: no unsigned 64
                    o = {}
                    if size is not None: o['size'] = size
                    if unsigned: o['unsigned'] = True
                    out.append(o)
            return out
        if kind == 'decimal':
            return [{} if ps is None else {'precision': ps[0], 'scale': ps[1]} for ps in DECIMAL_PS]
        if kind == 'str':
            out = []
            for max_len in (None, 1, 7, 255):
                for autostrip in (True, True, True, False):
                    o = {}
                    if max_len is not None: o['max_len'] = max_len
                    if not autostrip: o['autostrip'] = False
                    out.append(o)
            return out
        if kind == 'longstr':
            return [{}, {}, {}, {'autostrip': False}]
        if kind in ('time', 'datetime', 'timedelta'):
            return [{}] + [{'precision': p} for p in (0, 1, 3, 5, 6)]
        if kind == 'float':
            return [{}, {}, {}, {}, {'tolerance': None}, {'tolerance': 1e-6}]
        return [{}]

    value_cache = {}

    def cached_values(kind, opts, cls, nullable):
        key = (kind, json.dumps(opts, sort_keys=True), cls, nullable)
        vs = value_cache.get(key)
        if vs is None:
            vs = value_strategy({'kind': kind, 'opts': opts, 'cls': cls, 'nullable': nullable})
            if nullable:
                vs = st.one_of([st.none()] + [vs] * 19)
            value_cache[key] = vs
        return vs

    opts_strategy = {kind: st.sampled_from(options(kind)) for kind in KINDS}
    one_in_four = st.integers(0, 3)

    @st.composite
    def spec_strategy(draw, kind):
        opts = dict(draw(opts_strategy[kind]))
        cls = 'Required' if draw(one_in_four) == 0 else 'Optional'
        nullable = cls == 'Optional' and (kind not in EMPTY_VALUE_KINDS or draw(one_in_four) == 0)
        spec = {'kind': kind, 'opts': opts, 'cls': cls, 'nullable': nullable}
        k = draw(keep)
        if k >= 6:
            spec['lazy'] = k < 9        # 3 in 10 lazy=True, 1 in 10 an explicit lazy=False (LongStr is lazy by default)
        vs = cached_values(kind, opts, cls, nullable)
        spec['v1'] = draw(vs)
        mode = draw(one_in_four)        # 0: no second value, 1-2: an independent one, 3: a minimal change of the first
        if mode in (1, 2) or (mode == 3 and spec['v1'] is None):
            spec['v2'] = draw(vs)
        elif mode == 3:
            spec['v2'] = neighbour(kind, opts, cls, spec['v1'], draw(st.integers(0, 7)), draw(st.integers(1, 4)))
            spec['v2_mode'] = 'near'
        return spec

    keep = st.integers(0, 9)
    slot_strategies = {kind: spec_strategy(kind) for kind in KINDS}

    @st.composite
    def wide_example(draw):
        specs = []
        for kind in SLOTS:
            if draw(keep) < 2:      # slot dropped (0 is the shrink target: failures shrink to few attributes)
                continue
            specs.append(draw(slot_strategies[kind]))
        # text attributes that hold the textual form of a sibling attribute's value (same row, other column type):
        # '2021-03-04' next to date(2021, 3, 4), '[1,2]' next to an IntArray, '1.50' next to a Decimal ...
        for i, spec in enumerate(specs):
            if spec['kind'] not in ('str', 'longstr') or draw(one_in_four) >= 2:
                continue
            others = [j for j, o in enumerate(specs) if o['kind'] not in ('str', 'longstr')]
            others += [j for j in others if specs[j]['kind'] in TEXT_STORED_KINDS] * 2
            if not others:
                continue
            sib = specs[draw(st.sampled_from(others))]
            style = draw(st.integers(0, 3))
            echo_text(spec, sib, style)
        return {'specs': specs, 'upd_same': draw(st.booleans()), 'file_db': draw(st.integers(0, 15)) == 15}

    _strategy_cache.update({'st': st, 'wide_example': wide_example, 'spec_strategy': spec_strategy,
                            'value_strategy': value_strategy, 'json_top': json_top, 'text_chars': text_chars})
    return _strategy_cache


# ------------------------------------------------------------------------------------------------
# live evaluation on SQLite

class Rejected(Exception):
    """Pony refused the input with ValueError/TypeError (allowed by the property: counted, not judged)"""
    def __init__(self, phase, exc):
        Exception.__init__(self, '%s: %s: %s' % (phase, type(exc).__name__, exc))
        self.phase, self.exc = phase, exc


class Unattributed(Exception):
    """an unexpected exception that cannot be tied to one attribute of a wide entity"""
    def __init__(self, stage, phase, exc):
        Exception.__init__(self, '%s/%s: %s: %s' % (stage, phase, type(exc).__name__, exc))
        self.stage, self.phase, self.exc = stage, phase, exc


def build(specs, filename=None):
    from pony.orm import Database, PrimaryKey
    db = Database()
    attrs = {'id': PrimaryKey(int)}
    for i, s in enumerate(specs):
        attrs['a%d' % i] = make_attr(s)
    E = type('E', (db.Entity,), attrs)
    if filename:
        db.bind('sqlite', filename, create_db=True)
    else:
        db.bind('sqlite', ':memory:')
    db.generate_mapping(create_tables=True)
    return db, E


REFUSALS = (ValueError, TypeError)


def evaluate(specs, upd_same=False, filename=None):
    """Write one row, read it back.  Returns (evaluated, outcomes):
    evaluated = [(i, stage, seen_snap)], outcomes = [dict(i, stage, check, message, seen, got_type, got_repr, got_str)].
    stage 'create': the value passed to the constructor; stage 'update': the value assigned afterwards
    (in the same session if upd_same, else in a later session)."""
    from pony.orm import db_session, flush, select
    db, E = build(specs, filename)
    names = ['a%d' % i for i in range(len(specs))]
    outcomes, evaluated = [], []

    def reconnect():
        if filename:
            db.disconnect()      # a file database: the fresh session also gets a fresh connection

    def mismatch(i, stage, check, seen, got, message):
        outcomes.append({'i': i, 'stage': stage, 'check': check, 'message': message, 'seen': seen,
                         'got_type': type(got).__name__ if check != 'param' else None,
                         'got_repr': repr(plain(got)), 'got_str': str(got)})

    def describe(i):
        s = specs[i]
        return '%s(%s%s%s%s)' % (s['cls'], s['kind'], ''.join(', %s=%r' % kv for kv in sorted(s['opts'].items())),
                                 ', nullable=True' if s['nullable'] and s['kind'] in EMPTY_VALUE_KINDS else '',
                                 ', lazy=%r' % s['lazy'] if s.get('lazy') is not None else '')

    def read_back(stage, expected):
        """expected: {i: Snap seen by the writing session after flush}"""
        # (1) a fresh session reads E[pk].attr
        reconnect()
        with db_session:
            try:
                obj = E[1]
            except Exception as e:
                raise Unattributed(stage, 'fresh session E[1]', e)
            for i, seen in sorted(expected.items()):
                try:
                    got = Snap(getattr(obj, names[i]))
                except Exception as e:
                    mismatch(i, stage, 'fresh', seen, e, '%s: after flush the writing session saw %s; reading the attribute in a '
                             'fresh session raised %s: %s' % (describe(i), seen.show(), type(e).__name__, e))
                    continue
                evaluated.append((i, stage, seen))
                if not (same(seen.value, got.value) and seen.tname == got.tname):
                    outcomes.append({'i': i, 'stage': stage, 'check': 'fresh', 'seen': seen, 'got_type': got.tname,
                                     'got_repr': repr(got.value), 'got_str': str(got.value),
                                     'message': '%s: after flush the writing session saw %s but a fresh session reads %s'
                                                % (describe(i), seen.show(), got.show())})
        # (2) select((x.id, x.attr, ...) for x in E) returns the same values
        idx = sorted(expected)
        rows = None
        with db_session:
            try:
                src = '(x.id, %s) for x in E' % ', '.join('x.' + names[i] for i in idx)
                rows = select(src, {'E': E}, {})[:]
            except Exception as e:
                if len(idx) > 1:
                    raise Unattributed(stage, 'select', e)
                i = idx[0]
                mismatch(i, stage, 'select', expected[i], e, '%s: after flush the writing session saw %s; select(x.attr for x in E) '
                         'raised %s: %s' % (describe(i), expected[i].show(), type(e).__name__, e))
            if rows is not None:
                if len(rows) != 1 or rows[0][0] != 1:
                    raise Unattributed(stage, 'select', AssertionError('expected one row with id 1, got %r' % (rows,)))
                for i, v in zip(idx, rows[0][1:]):
                    seen, got = expected[i], Snap(v)
                    if not same(seen.value, got.value):
                        outcomes.append({'i': i, 'stage': stage, 'check': 'select', 'seen': seen, 'got_type': got.tname,
                                         'got_repr': repr(got.value), 'got_str': str(got.value),
                                         'message': '%s: after flush the writing session saw %s but select(x.attr for x in E) '
                                                    'returns %s' % (describe(i), seen.show(), got.show())})
        # (3) the value as an == query parameter finds the row (exactly comparable types only)
        for i in idx:
            kind, seen = specs[i]['kind'], expected[i]
            if kind not in PARAM_KINDS:
                continue
            v = seen.value
            if kind == 'json' and not isinstance(v, dict):
                continue        # Pony compares whole Json values with dict parameters only (lists: IncomparableTypesError)
            if kind in ('intarray', 'strarray') and (not v or any(type(x) is bool for x in v)):
                continue        # the type of an empty list parameter cannot be inferred
            with db_session:
                try:
                    found = select('x.id for x in E if x.%s == v' % names[i], {'E': E}, {'v': v})[:]
                except Exception as e:
                    mismatch(i, stage, 'param', seen, e, '%s: after flush the writing session saw %s; select(x for x in E if '
                             'x.attr == <that value>) raised %s: %s' % (describe(i), seen.show(), type(e).__name__, e))
                    outcomes[-1]['got_type'] = type(e).__name__
                    continue
            if list(found) != [1]:
                outcomes.append({'i': i, 'stage': stage, 'check': 'param', 'seen': seen, 'got_type': None,
                                 'got_repr': repr(list(found)), 'got_str': 'no row',
                                 'message': '%s: after flush the writing session saw %s but select(x.id for x in E if '
                                            'x.attr == <that value>) returns %r instead of the row'
                                            % (describe(i), seen.show(), list(found))})

    try:
        kw = {n: s['v1'] for n, s in zip(names, specs)}
        upd = {i: s['v2'] for i, s in enumerate(specs) if 'v2' in s}
        with db_session:
            try:
                obj = E(id=1, **kw)
            except REFUSALS as e:
                raise Rejected('constructor', e)
            try:
                flush()
            except REFUSALS as e:
                raise Rejected('flush after create', e)
            except Exception as e:
                raise Unattributed('create', 'flush', e)
            seen1 = _seen_after_flush(obj, names, range(len(names)), 'create')
            seen2 = {}
            if upd_same and upd:
                seen2 = _assign(obj, names, upd, flush)
        if upd_same:
            final = dict(seen1)
            final.update(seen2)
            # the created values that were not overwritten are judged as stage 'create', the others as 'update'
            unchanged = {i: s for i, s in final.items() if i not in seen2}
            if unchanged:
                read_back('create', unchanged)
            if seen2:
                read_back('update', seen2)
        else:
            read_back('create', seen1)
            if upd:
                reconnect()
                with db_session:
                    try:
                        obj = E[1]
                    except Exception as e:
                        raise Unattributed('update', 'load E[1]', e)
                    seen2 = _assign(obj, names, upd, flush)
                read_back('update', seen2)
    finally:
        try:
            db.disconnect()
        except Exception:
            pass
        if filename and os.path.exists(filename):
            os.remove(filename)
    return evaluated, outcomes


def _assign(obj, names, upd, flush):
    for i, v in sorted(upd.items()):
        try:
            setattr(obj, names[i], v)
        except REFUSALS as e:
            raise Rejected('assignment', e)
    try:
        flush()
    except REFUSALS as e:
        raise Rejected('flush after update', e)
    except Exception as e:
        raise Unattributed('update', 'flush', e)
    return _seen_after_flush(obj, names, sorted(upd), 'update')


def _seen_after_flush(obj, names, indexes, stage):
    # reading an attribute whose value is None after an INSERT makes Pony re-fetch the whole row and compare it with
    # what the session holds; a column that does not read back unchanged then raises UnrepeatableReadError for the
    # row, which cannot be tied to the attribute being read -> the caller judges every attribute on its own
    out = {}
    for i in indexes:
        try:
            out[i] = Snap(getattr(obj, names[i]))
        except Exception as e:
            raise Unattributed(stage, 'reading a%d in the writing session after flush' % i, e)
    return out


def case_of(spec, upd_same, file_db, outcome=None, before=None, after=None):
    case = spec_to_json(spec)
    if before or after:
        # the other attributes of the entity, in declaration order (needed when the failure depends on a sibling column)
        case['with'] = {'before': [spec_to_json(s) for s in before or []], 'after': [spec_to_json(s) for s in after or []]}
    case['upd_same'] = bool(upd_same)
    case['file_db'] = bool(file_db)
    if outcome is not None:
        case['stage'] = outcome['stage']
        case['check'] = outcome['check']
        seen = outcome.get('seen')
        if seen is not None:
            try:
                case['seen'] = enc(spec['kind'], seen.value)
            except Exception:
                case['seen'] = None
            case['seen_type'] = seen.tname
        case['got'] = {'type': outcome.get('got_type'), 'repr': outcome.get('got_repr'), 'str': outcome.get('got_str')}
    return case


# ------------------------------------------------------------------------------------------------
# pure codec round trips (helpers of the providers that cannot run live here)

STUBS = os.path.join(os.path.dirname(os.path.abspath(__file__)), 'stubs')
_codec_env = {}


def codec_env():
    """import the MySQL / Oracle / PostgreSQL provider modules over stub driver packages (no server, no driver
    in this sandbox) and pick the pure conversion helpers Pony wires into them"""
    if _codec_env:
        return _codec_env
    added = False
    if STUBS not in sys.path:
        sys.path.insert(0, STUBS)
        added = True
    try:
        import pony.orm.dbproviders.mysql as my
        import pony.orm.dbproviders.oracle as ora
        import pony.orm.dbproviders.postgres as pg
    finally:
        if added:
            sys.path.remove(STUBS)
    from pony.orm import dbapiprovider
    from pony.orm.ormtypes import Json
    from pony import converting
    from pony.utils import datetime2timestamp, timestamp2datetime
    provider = my.MySQLProvider.__new__(my.MySQLProvider)
    conv = provider.get_pool().kwargs['conv']          # the conversion table Pony hands to the MySQL driver
    from MySQLdb.constants import FIELD_TYPE
    _codec_env.update(
        my=my, ora=ora, pg=pg,
        timedelta2str=converting.timedelta2str, str2timedelta=converting.str2timedelta,
        datetime2timestamp=datetime2timestamp, timestamp2datetime=timestamp2datetime,
        mysql_encode_timedelta=conv[timedelta], mysql_decode_time=conv[FIELD_TYPE.TIME],
        mysql_decode_datetime=conv[FIELD_TYPE.DATETIME], mysql_decode_timestamp=conv[FIELD_TYPE.TIMESTAMP],
        mysql_time=my.MySQLTimeConverter(None, time), ora_time=ora.OraTimeConverter(None, time),
        ora_bool=ora.OraBoolConverter(None, bool), ora_date=ora.OraDateConverter(None, date),
        ora_json=ora.OraJsonConverter(None, Json), gen_json=dbapiprovider.JsonConverter(None, Json),
        gen_uuid=dbapiprovider.UuidConverter(None, uuid.UUID), pg_uuid=pg.PGUuidConverter(None, uuid.UUID),
        ora_to_decimal=ora.to_decimal, ora_to_int_or_decimal=ora.to_int_or_decimal)
    return _codec_env


def _trunc_us(us, fsp):
    return us - us % (10 ** (6 - fsp))


def _frac(us, fsp):
    return '' if fsp == 0 else '.' + ('%06d' % us)[:fsp]


CODECS = ['timedelta_str', 'mysql_time_text', 'mysql_timedelta_param', 'timestamp', 'mysql_datetime_text', 'mysql_time_attr',
          'ora_time', 'uuid_bytes', 'json_text', 'ora_number', 'ora_bool']


def codec_check(name, value):
    """value is JSON (see the strategies in checks/c07.py).  Returns (nontrivial, sample, message or None)."""
    env = codec_env()
    if name == 'timedelta_str':
        # str2timedelta is the inverse of timedelta2str (interval literal / MySQL TIME text)
        td = dec('timedelta', value['td'])
        text = env['timedelta2str'](td)
        back = env['str2timedelta'](text)
        bad = None if back == td and type(back) is timedelta else \
            'str2timedelta(timedelta2str(%r)) = str2timedelta(%r) = %r' % (td, text, back)
        return td.days < 0 or td.microseconds != 0, {'td': repr(td), 'text': text}, bad
    if name == 'mysql_timedelta_param':
        # the encoder Pony registers for timedelta parameters, read back by the decoder it registers for TIME columns
        td = dec('timedelta', value['td'])
        lit = env['mysql_encode_timedelta'](td)
        text = lit.decode('utf8') if isinstance(lit, bytes) else lit
        inner = text[1:-1] if text[:1] == "'" and text[-1:] == "'" else text
        back = env['mysql_decode_time'](inner)
        bad = None if back == td else 'MySQL timedelta parameter %r is sent as %s and decodes to %r' % (td, text, back)
        return td.days < 0 or td.microseconds != 0, {'td': repr(td), 'literal': text}, bad
    if name == 'mysql_time_text':
        # MySQL sends TIME(fsp) values as [-]HH:MM:SS[.f{fsp}]; Pony decodes them with str2timedelta
        td, fsp = dec('timedelta', value['td']), value['fsp']
        neg = td < timedelta(0)
        a = abs(td)
        want = timedelta(days=a.days, seconds=a.seconds, microseconds=_trunc_us(a.microseconds, fsp))
        total = want.days * 86400 + want.seconds
        text = '%s%02d:%02d:%02d%s' % ('-' if neg else '', total // 3600, total // 60 % 60, total % 60,
                                       _frac(want.microseconds, fsp))
        if neg: want = -want
        back = env['mysql_decode_time'](text)
        bad = None if back == want else 'MySQL TIME text %r decodes to %r, expected %r' % (text, back, want)
        return neg or want.microseconds != 0, {'text': text, 'decoded': repr(back)}, bad
    if name == 'timestamp':
        d = dec('datetime', value['dt'])
        text = env['datetime2timestamp'](d)
        back = env['timestamp2datetime'](text)
        bad = None if back == d and type(back) is dt_datetime else \
            'timestamp2datetime(datetime2timestamp(%r)) = timestamp2datetime(%r) = %r' % (d, text, back)
        return d.microsecond != 0 or d.year < 1000, {'dt': repr(d), 'text': text}, bad
    if name == 'mysql_datetime_text':
        # MySQL sends DATETIME(fsp) / TIMESTAMP(fsp) as YYYY-MM-DD HH:MM:SS[.f{fsp}]; Pony decodes with mysql.str2datetime
        d, fsp = dec('datetime', value['dt']), value['fsp']
        want = d.replace(microsecond=_trunc_us(d.microsecond, fsp))
        text = '%04d-%02d-%02d %02d:%02d:%02d%s' % (want.year, want.month, want.day, want.hour, want.minute, want.second,
                                                   _frac(want.microsecond, fsp))
        back = env['mysql_decode_datetime'](text)
        back2 = env['mysql_decode_timestamp'](text)
        bad = None if back == want and back2 == want else \
            'MySQL DATETIME text %r decodes to %r, expected %r' % (text, back, want)
        return want.microsecond != 0 or want.year < 1000, {'text': text, 'decoded': repr(back)}, bad
    if name == 'mysql_time_attr':
        # a `time` attribute on MySQL: the driver hands Pony the TIME column as text -> str2timedelta -> MySQLTimeConverter.sql2py
        t, fsp = dec('time', value['t']), value['fsp']
        want = t.replace(microsecond=_trunc_us(t.microsecond, fsp))
        text = '%02d:%02d:%02d%s' % (want.hour, want.minute, want.second, _frac(want.microsecond, fsp))
        back = env['mysql_time'].sql2py(env['mysql_decode_time'](text))
        bad = None if back == want and type(back) is time else \
            'MySQL TIME text %r for a time attribute converts to %r, expected %r' % (text, back, want)
        return want.microsecond != 0, {'text': text, 'converted': repr(back)}, bad
    if name == 'ora_time':
        t = dec('time', value['t'])
        db = env['ora_time'].py2sql(t)
        back = env['ora_time'].sql2py(db)
        bad = None if back == t and type(back) is time else \
            'OraTimeConverter.sql2py(py2sql(%r)) = sql2py(%r) = %r' % (t, db, back)
        return t.microsecond != 0, {'t': repr(t), 'db': repr(db)}, bad
    if name == 'uuid_bytes':
        u = dec('uuid', value['u'])
        c = env['gen_uuid']
        db = c.py2sql(u)
        back = c.sql2py(db)
        back_pg = env['pg_uuid'].sql2py(env['pg_uuid'].py2sql(u))
        bad = None if back == u and type(back) is uuid.UUID and back_pg == u else \
            'UuidConverter.sql2py(py2sql(%r)) = %r (PostgreSQL variant: %r)' % (u, back, back_pg)
        return True, {'u': str(u), 'db': repr(db)}, bad
    if name == 'json_text':
        v = value['j']
        msgs = []
        for label in ('gen_json', 'ora_json'):
            c = env[label]
            text = c.val2dbval(v)
            back = c.dbval2val(text)
            if not same(back, v):
                msgs.append('%s: dbval2val(val2dbval(%r)) = dbval2val(%r) = %r' % (label, v, text, back))
        return nontrivial('json', {}, v), {'j': v}, '; '.join(msgs) or None
    if name == 'ora_number':
        # cx_Oracle hands NUMBER columns over as text (output_type_handler); the session's decimal separator may be ','
        d = dec('decimal', value['d'])
        text = format(d, 'f')
        if value.get('comma'): text = text.replace('.', ',')
        back = env['ora_to_decimal'](text)
        msgs = []
        if not (back == d and type(back) is Decimal):
            msgs.append('oracle.to_decimal(%r) = %r, expected %r' % (text, back, d))
        back2 = env['ora_to_int_or_decimal'](text)
        want_type = Decimal if ('.' in text or ',' in text) else int
        if not (back2 == d and type(back2) is want_type):
            msgs.append('oracle.to_int_or_decimal(%r) = %r, expected %r' % (text, back2, d))
        return d != d.to_integral_value(), {'text': text, 'decoded': repr(back)}, '; '.join(msgs) or None
    if name == 'ora_bool':
        b = bool(value['b'])
        c = env['ora_bool']
        back = c.sql2py(c.py2sql(b))
        bad = None if back is b else 'OraBoolConverter.sql2py(py2sql(%r)) = %r' % (b, back)
        return False, {'b': b}, bad
    raise ValueError(name)
