"""C28 helpers: program generator, abstract->concrete resolver (pure Python, never imports pony) and the step
interpreter that is applied unchanged to the plain copy and to the tracked value.

A *case* is JSON:
    {'kind': 'json'|'json_lazy'|'int'|'str'|'float',   attribute type under test
     'origin': 'loaded'|'flushed'|'created',            status of the object when the program starts
     'readonly': bool,
     'doc': initial value (dict/list for Json, flat list for arrays),
     'prog': [abstract op, ...]}

Abstract ops name an operation and carry *selectors* (integers taken modulo whatever exists when the op is reached),
so every generated program is executable and shrinkable.  `resolve(case)` runs the program on a plain deep copy
(the reference: pure Python semantics of dict/list) and returns the concrete steps (explicit paths, indexes, keys,
argument values), the expected value at every reload point and at the end, pseudo-source text for messages, and
root-cause flags used by the exclusion predicates of known findings.  `apply_step` executes one concrete step against
any holder object (plain `Holder` or a Pony entity instance).
"""
import copy, json

ATTR = {'json': 'j', 'json_lazy': 'jl', 'int': 'ia', 'str': 'sa', 'float': 'fa'}
ARRAY_KINDS = ('int', 'str', 'float')
SESSION_OPS = ('flush', 'commit', 'reload', 'touch')
AUG_OPS = ('iadd', 'imul', 'ior')
LIST_OPS = ('l_setitem', 'l_setslice', 'l_delitem', 'l_delslice', 'append', 'extend', 'insert', 'l_pop', 'remove',
            'sort', 'reverse', 'l_clear', 'iadd', 'imul')
DICT_OPS = ('d_setitem', 'd_delitem', 'update', 'setdefault', 'd_pop', 'popitem', 'd_clear', 'ior')
READS_ANY = ('len', 'iter', 'contains', 'eq', 'ne', 'copy', 'copy_mod', 'deepcopy_mod', 'repr', 'bool', 'dumps',
             'getattr', 'to_dict', 'ctor', 'getitem')
READS_LIST = ('slice', 'index', 'count', 'sorted', 'reversed', 'add', 'mul', 'unpack')
READS_DICT = ('get', 'keys', 'values', 'items', 'or')
ITER_KINDS = ('list', 'tuple', 'gen', 'iter')
PAIR_KINDS_UPDATE = ('dict', 'list', 'tuple', 'gen', 'kwargs', 'dict+kwargs')
PAIR_KINDS_IOR = ('dict', 'list', 'tuple', 'gen')
# hand-over of a (tracked) container read from one slot into another slot; a slot is (object, Json/array attribute)
HOW_L = ('append', 'insert', 'l_setitem', 'extend', 'l_setslice', 'iadd')
HOW_D = ('d_setitem', 'update', 'update_kwargs', 'update_pairs', 'setdefault', 'ior')
HOW_KINDS = ('list', 'tuple', 'gen')
PEER_VARIANTS = ('obj', 'attr', 'both')      # other object same attribute / same object other Json attribute / both differ
SIBLING = {'j': 'jl', 'jl': 'j'}


def slot_specs(case):
    """[(object key, attribute name)]: slot 0 is the attribute under test of object 'a'; slot 1 (optional) is the peer"""
    attr = ATTR[case['kind']]
    specs = [('a', attr)]
    peer = case.get('peer')
    if peer:
        v = peer['variant']
        if case['kind'] in ARRAY_KINDS: v = 'obj'
        specs.append(('b' if v in ('obj', 'both') else 'a', attr if v == 'obj' else SIBLING[attr]))
    return specs


def slot_names(specs):
    return ['%s.%s' % ('obj' if o == 'a' else 'b', a) for o, a in specs]


class Holder(object):
    """plain stand-in for the entity instance: the reference value lives in an ordinary attribute"""


def fresh(v):
    """a copy that is a tree: unlike copy.deepcopy it does not preserve sharing inside v (hypothesis may hand out the
    same empty container object twice inside one generated value)"""
    if isinstance(v, dict):
        return {k: fresh(x) for k, x in v.items()}
    if isinstance(v, list):
        return [fresh(x) for x in v]
    if isinstance(v, tuple):
        return tuple(fresh(x) for x in v)
    return v


def canon(v):
    """canonical JSON text: distinguishes true/1/1.0, ignores dict order"""
    return json.dumps(v, sort_keys=True, ensure_ascii=True, allow_nan=False)


def plain(v):
    """dict/list subclasses -> plain dict/list, recursively (does not call any Pony method)"""
    if isinstance(v, dict):
        return {k: plain(x) for k, x in v.items()}
    if isinstance(v, (list, tuple)):
        return [plain(x) for x in v]
    return v


def sort_keys_rec(v):
    """what a JSON round trip with sorted keys does to the order of a document"""
    if isinstance(v, dict):
        return {k: sort_keys_rec(v[k]) for k in sorted(v)}
    if isinstance(v, list):
        return [sort_keys_rec(x) for x in v]
    return v


def containers(root):
    """preorder list of (path, container) of a tree-shaped document"""
    out = []

    def walk(path, c):
        out.append((path, c))
        if isinstance(c, dict):
            for k, v in c.items():
                if isinstance(v, (dict, list)):
                    walk(path + [k], v)
        else:
            for i, v in enumerate(c):
                if isinstance(v, (dict, list)):
                    walk(path + [i], v)
    if isinstance(root, (dict, list)):
        walk([], root)
    return out


def has_container(v):
    if isinstance(v, (dict, list)):
        return True
    return False


def any_container_inside(items):
    return any(isinstance(x, (dict, list)) for x in items)


def make_iter(kind, items):
    items = fresh(items)
    if kind == 'list':
        return items
    if kind == 'tuple':
        return tuple(items)
    if kind == 'gen':
        return (x for x in items)
    if kind == 'iter':
        return iter(items)
    raise ValueError(kind)


def make_pairs(kind, pairs):
    pairs = [(k, fresh(v)) for k, v in pairs]
    if kind == 'dict':
        return dict(pairs)
    if kind == 'list':
        return pairs
    if kind == 'tuple':
        return tuple(pairs)
    if kind == 'gen':
        return ((k, v) for k, v in pairs)
    raise ValueError(kind)


def _slice(s):
    return slice(s[0], s[1], s[2])


# ------------------------------------------------------------------------------------------------------------
# the interpreter: the SAME function is applied to the plain holder and to the Pony object
# ------------------------------------------------------------------------------------------------------------

class Env(object):
    def __init__(self, slots, by_value=False):
        self.slots = list(slots)   # [(holder, attribute name)]; holder is a plain Holder or a Pony entity instance
        self.by_value = by_value   # reference side only: a container handed over to another slot is stored as a copy
        self.aliases = {}          # alias number -> container bound to the local name x<number>
        self.use(0)

    def use(self, k):
        self.holder, self.attr = self.slots[k]

    def root_of(self, k):
        h, a = self.slots[k]
        return getattr(h, a)

    def root(self):
        return getattr(self.holder, self.attr)

    def locate(self, ref):
        if 'alias' in ref:
            return self.aliases[ref['alias']]
        c = self.root()
        for k in ref['path']:
            c = c[k]
        return c


def apply_step(step, env):
    """execute one concrete step; session steps are handled by the caller"""
    do = step['do']
    if do == 'handover':
        return do_handover(step, env)
    env.use(step.get('on', 0))
    if do == 'alias':
        env.aliases[step['name']] = env.locate(step['t'])
        return
    if do == 'assign':
        setattr(env.holder, env.attr, fresh(step['val']))
        return
    if do in AUG_OPS:
        if do == 'iadd':
            arg = make_iter(step['kind'], step['vals'])
        elif do == 'imul':
            arg = step['n']
        else:
            arg = make_pairs(step['kind'], step['pairs'])
        via = step['via']
        if via == 'local':
            x = env.locate(step['t'])
            if do == 'iadd': x += arg
            elif do == 'imul': x *= arg
            else: x |= arg
        elif via == 'attr':                      # obj.j += arg
            x = getattr(env.holder, env.attr)
            if do == 'iadd': x += arg
            elif do == 'imul': x *= arg
            else: x |= arg
            setattr(env.holder, env.attr, x)
        else:                                    # parent[key] += arg
            path = step['t']['path']
            parent = env.locate({'path': path[:-1]})
            key = path[-1]
            if do == 'iadd': parent[key] += arg
            elif do == 'imul': parent[key] *= arg
            else: parent[key] |= arg
        return
    t = env.locate(step['t'])
    if do == 'read':
        return do_read(step, t, env)
    if do == 'l_setitem': t[step['i']] = fresh(step['val'])
    elif do == 'l_setslice': t[_slice(step['s'])] = make_iter(step['kind'], step['vals'])
    elif do == 'l_delitem': del t[step['i']]
    elif do == 'l_delslice': del t[_slice(step['s'])]
    elif do == 'append': t.append(fresh(step['val']))
    elif do == 'extend': t.extend(make_iter(step['kind'], step['vals']))
    elif do == 'insert': t.insert(step['i'], fresh(step['val']))
    elif do == 'l_pop':
        if step['i'] is None: t.pop()
        else: t.pop(step['i'])
    elif do == 'remove': t.remove(fresh(step['val']))
    elif do == 'sort':
        if step['key'] == 'repr': t.sort(key=repr, reverse=step['rev'])
        elif step['rev']: t.sort(reverse=True)
        else: t.sort()
    elif do == 'reverse': t.reverse()
    elif do in ('l_clear', 'd_clear'): t.clear()
    elif do == 'd_setitem': t[step['key']] = fresh(step['val'])
    elif do == 'd_delitem': del t[step['key']]
    elif do == 'update':
        kind = step['kind']
        pairs = step['pairs']
        if kind == 'kwargs':
            t.update(**make_pairs('dict', pairs))
        elif kind == 'dict+kwargs':
            h = len(pairs) // 2
            t.update(make_pairs('dict', pairs[:h]), **make_pairs('dict', pairs[h:]))
        else:
            t.update(make_pairs(kind, pairs))
    elif do == 'setdefault':
        r = t.setdefault(step['key'], fresh(step['val']))
        then = step.get('then')
        if then is not None:
            if then[0] == 'append': r.append(fresh(then[1]))
            else: r[then[1]] = fresh(then[2])
    elif do == 'd_pop':
        if step['default']: t.pop(step['key'], fresh(step['val']))
        else: t.pop(step['key'])
    elif do == 'popitem': t.popitem()
    else:
        raise ValueError('unknown step %r' % (step,))


def do_handover(step, env):
    """put a container that belongs to the value of one slot into the value of another slot.  On the Pony side the
    live tracked container is passed, exactly as user code would (`b.j['k'] = a.j['l']`).  On the reference side
    (env.by_value) a copy is stored: the value of a Json/array attribute is a document of its own row, two attribute
    values cannot share structure, so later changes made through one slot never show in the other."""
    env.use(step['src']['on'])
    v = env.locate({'path': step['src']['path']})
    if env.by_value:
        v = fresh(v)
    env.use(step['on'])
    how = step['how']
    if how == 'assign':
        setattr(env.holder, env.attr, v)
        return
    t = env.locate(step['t'])
    kind = step.get('kind', 'list')
    it = [v] if kind == 'list' else (v,) if kind == 'tuple' else (x for x in [v])
    key = step.get('key')
    if how == 'append': t.append(v)
    elif how == 'insert': t.insert(step['i'], v)
    elif how == 'l_setitem': t[step['i']] = v
    elif how == 'extend': t.extend(it)
    elif how == 'l_setslice': t[step['i']:step['i']] = it
    elif how == 'iadd':
        x = t
        x += it
    elif how == 'd_setitem': t[key] = v
    elif how == 'update': t.update({key: v})
    elif how == 'update_kwargs': t.update(**{key: v})
    elif how == 'update_pairs': t.update([(key, v)])
    elif how == 'setdefault': t.setdefault(key, v)
    elif how == 'ior':
        x = t
        x |= {key: v}
    else:
        raise ValueError('unknown hand-over %r' % (step,))


def do_read(step, t, env):
    """operations that only read.  Results are discarded: the property only says they must not mark the object."""
    w = step['what']
    if w == 'len': len(t)
    elif w == 'iter':
        for _ in t: pass
    elif w == 'contains': fresh(step['val']) in t
    elif w == 'eq': t == fresh(step['val'])
    elif w == 'ne': t != fresh(step['val'])
    elif w == 'copy': t.copy()
    elif w == 'copy_mod':
        c = t.copy()
        if isinstance(c, dict): c['__new__'] = 1
        else: c.append(1)
    elif w == 'deepcopy_mod':
        c = copy.deepcopy(t)
        for _, sub in containers(c):
            if isinstance(sub, dict): sub['__new__'] = [1]
            else: sub.append({'n': 1})
    elif w == 'repr': repr(t); str(t)
    elif w == 'bool': bool(t)
    elif w == 'dumps': json.dumps(t)
    elif w == 'getattr': getattr(env.holder, env.attr)
    elif w == 'to_dict':
        f = getattr(env.holder, 'to_dict', None)
        if f is not None: f(with_lazy=True)
    elif w == 'ctor':
        dict(t) if isinstance(t, dict) else list(t)
        tuple(t); set(map(repr, t))
    elif w == 'getitem': t[step['k']]
    elif w == 'slice': t[_slice(step['s'])]
    elif w == 'index': t.index(fresh(step['val']))
    elif w == 'count': t.count(fresh(step['val']))
    elif w == 'sorted': sorted(t, key=repr)
    elif w == 'reversed': list(reversed(t))
    elif w == 'add': t + fresh(step['vals'])
    elif w == 'mul': t * step['n']
    elif w == 'unpack':
        a, *b = t
    elif w == 'get':
        if step['default']: t.get(step['key'], fresh(step['val']))
        else: t.get(step['key'])
    elif w == 'keys': list(t.keys()); step['key'] in t.keys()
    elif w == 'values': list(t.values())
    elif w == 'items': list(t.items())
    elif w == 'or': t | make_pairs('dict', step['pairs'])
    else:
        raise ValueError('unknown read %r' % (w,))


# ------------------------------------------------------------------------------------------------------------
# abstract program -> concrete steps, on the plain copy
# ------------------------------------------------------------------------------------------------------------

def _ref_src(name, ref):
    if 'alias' in ref:
        return 'x%d' % ref['alias']
    return name + ''.join('[%r]' % (k,) for k in ref['path'])


def _iter_src(kind, vals):
    if kind == 'list': return repr(vals)
    if kind == 'tuple': return repr(tuple(vals))
    if kind == 'gen': return '(v for v in %r)' % (vals,)
    return 'iter(%r)' % (vals,)


def _pairs_src(kind, pairs):
    pairs = [tuple(p) for p in pairs]
    if kind == 'dict': return repr(dict(pairs))
    if kind == 'list': return repr(pairs)
    if kind == 'tuple': return repr(tuple(pairs))
    return '(p for p in %r)' % (pairs,)


def _slice_src(s):
    a, b, c = s
    txt = '%s:%s' % ('' if a is None else a, '' if b is None else b)
    if c is not None: txt += ':%s' % c
    return txt


def _handover_src(names, step):
    v = _ref_src(names[step['src']['on']], {'path': step['src']['path']})
    how = step['how']
    if how == 'assign':
        return '%s = %s' % (names[step['on']], v)
    t = _ref_src(names[step['on']], step['t'])
    kind = step.get('kind', 'list')
    it = '[%s]' % v if kind == 'list' else '(%s,)' % v if kind == 'tuple' else '(v for v in [%s])' % v
    key = step.get('key')
    return {'append': '%s.append(%s)' % (t, v), 'insert': '%s.insert(%r, %s)' % (t, step.get('i'), v),
            'l_setitem': '%s[%r] = %s' % (t, step.get('i'), v), 'extend': '%s.extend(%s)' % (t, it),
            'l_setslice': '%s[%r:%r] = %s' % (t, step.get('i'), step.get('i'), it), 'iadd': 'x = %s; x += %s' % (t, it),
            'd_setitem': '%s[%r] = %s' % (t, key, v), 'update': '%s.update({%r: %s})' % (t, key, v),
            'update_kwargs': '%s.update(**{%r: %s})' % (t, key, v), 'update_pairs': '%s.update([(%r, %s)])' % (t, key, v),
            'setdefault': '%s.setdefault(%r, %s)' % (t, key, v), 'ior': 'x = %s; x |= {%r: %s}' % (t, key, v)}[how]


def step_src(names, step):
    if isinstance(names, str):
        names = ['obj.' + names]
    do = step['do']
    if do == 'handover':
        return _handover_src(names, step)
    attr = names[step.get('on', 0)]
    if do in SESSION_OPS:
        if do == 'touch': return 'obj.n = %r' % step['n']
        if do == 'reload': return '# commit, new db_session, objects fetched again'
        return do + '()'
    if do == 'alias':
        return 'x%d = %s' % (step['name'], _ref_src(attr, step['t']))
    if do == 'assign':
        return '%s = %r' % (attr, step['val'])
    t = _ref_src(attr, step['t'])
    if do in AUG_OPS:
        sym = {'iadd': '+=', 'imul': '*=', 'ior': '|='}[do]
        if do == 'iadd': arg = _iter_src(step['kind'], step['vals'])
        elif do == 'imul': arg = repr(step['n'])
        else: arg = _pairs_src(step['kind'], step['pairs'])
        if step['via'] == 'local' and 'alias' not in step['t']:
            return 'x = %s; x %s %s' % (t, sym, arg)
        return '%s %s %s' % (t, sym, arg)
    if do == 'read':
        extra = {k: v for k, v in step.items() if k not in ('do', 't', 'what')}
        return 'read:%s(%s%s)' % (step['what'], t, ', %r' % (extra,) if extra else '')
    if do == 'l_setitem': return '%s[%r] = %r' % (t, step['i'], step['val'])
    if do == 'l_setslice': return '%s[%s] = %s' % (t, _slice_src(step['s']), _iter_src(step['kind'], step['vals']))
    if do == 'l_delitem': return 'del %s[%r]' % (t, step['i'])
    if do == 'l_delslice': return 'del %s[%s]' % (t, _slice_src(step['s']))
    if do == 'append': return '%s.append(%r)' % (t, step['val'])
    if do == 'extend': return '%s.extend(%s)' % (t, _iter_src(step['kind'], step['vals']))
    if do == 'insert': return '%s.insert(%r, %r)' % (t, step['i'], step['val'])
    if do == 'l_pop': return '%s.pop(%s)' % (t, '' if step['i'] is None else step['i'])
    if do == 'remove': return '%s.remove(%r)' % (t, step['val'])
    if do == 'sort':
        args = []
        if step['key']: args.append('key=repr')
        if step['rev']: args.append('reverse=True')
        return '%s.sort(%s)' % (t, ', '.join(args))
    if do == 'reverse': return '%s.reverse()' % t
    if do in ('l_clear', 'd_clear'): return '%s.clear()' % t
    if do == 'd_setitem': return '%s[%r] = %r' % (t, step['key'], step['val'])
    if do == 'd_delitem': return 'del %s[%r]' % (t, step['key'])
    if do == 'update':
        kind, pairs = step['kind'], step['pairs']
        if kind == 'kwargs': return '%s.update(**%r)' % (t, dict(map(tuple, pairs)))
        if kind == 'dict+kwargs':
            h = len(pairs) // 2
            return '%s.update(%r, **%r)' % (t, dict(map(tuple, pairs[:h])), dict(map(tuple, pairs[h:])))
        return '%s.update(%s)' % (t, _pairs_src(kind, pairs))
    if do == 'setdefault':
        s = '%s.setdefault(%r, %r)' % (t, step['key'], step['val'])
        then = step.get('then')
        if then is not None:
            s += '.append(%r)' % (then[1],) if then[0] == 'append' else '[%r] = %r' % (then[1], then[2])
        return s
    if do == 'd_pop':
        return '%s.pop(%r%s)' % (t, step['key'], ', %r' % (step['val'],) if step['default'] else '')
    if do == 'popitem': return '%s.popitem()' % t
    return repr(step)


def _subtree_ids(c):
    return set(id(x) for _, x in containers(c))


def _pick_key(t, op):
    """existing key chosen by selector, or the op's own key"""
    keys = list(t.keys())
    if op.get('exist') and keys:
        return keys[op.get('i', 0) % len(keys)]
    return op['key']


def _index(n, i):
    """an existing index of a sequence of length n, negative form when the selector is negative"""
    k = i % n
    return k - n if i < 0 else k


def _array_item(kind, v):
    return v


def resolve(case):
    """run the abstract program on plain copies.  Pure Python; never touches Pony."""
    kind = case['kind']
    is_array = kind in ARRAY_KINDS
    specs = slot_specs(case)
    names = slot_names(specs)
    nslots = len(specs)
    docs0 = [sort_keys_rec(fresh(case['doc']))]
    if nslots > 1:
        docs0.append(sort_keys_rec(fresh(case['peer']['doc'])))
    holders = {}
    slots = []
    for (o, a), d in zip(specs, docs0):
        h = holders.setdefault(o, Holder())
        setattr(h, a, fresh(d))
        slots.append((h, a))
    env = Env(slots, by_value=True)
    keep = []                  # keeps every container alive so that id() values are never reused
    alias_objs = []            # model object of alias k (None once invalidated by a reload)
    alias_slot = []            # slot whose value alias k was taken from
    alias_stale = []           # alias k was taken before `parent[key] op= ...` re-bound a subtree containing it
    inserted = set()           # ids of containers inserted by earlier steps
    unwrapped = set()          # ids of containers that entered through a non-list iterable of extend / slice assignment
    unwrapped_aug = set()      # ids of containers that entered through an inherited in-place operator (x += .., obj.j |= ..)
    handed = set()             # ids of containers that entered through a hand-over from another slot
    handed_flushed = set()     # ... and whose hand-over has since been written by a flush/commit
    steps, src, snapshots = [], [], []
    flags = {'aug_local': False, 'unwrapped_item': False, 'stale_alias': False}
    classes = set()
    effective = 0
    nested_effective = 0
    skipped = 0
    order_sensitive = False
    reads = 0

    def roots():
        return [env.root_of(k) for k in range(nslots)]

    def all_conts():
        out = []
        for r in roots():
            out.extend(containers(r))
        return out

    def slot_of(op):
        return op.get('on', 0) % nslots

    def choose(op, want, slot=None):
        root = env.root_of(slot_of(op) if slot is None else slot)
        conts = containers(root)
        keep.extend(c for _, c in conts)
        pref = op.get('pref', 'any')
        sel = op.get('sel', 0)
        if pref == 'alias':
            ks = [k for k, a in enumerate(alias_objs) if a is not None and (want is None or isinstance(a, want))
                  and (slot is None or alias_slot[k] == slot)]      # a hand-over never targets the slot it reads from
            if ks:
                k = ks[sel % len(ks)]
                return {'alias': k}, alias_objs[k]
        cands = [(p, c) for p, c in conts if want is None or isinstance(c, want)]
        if pref == 'new':
            newer = [(p, c) for p, c in cands if id(c) in inserted]
            if newer: cands = newer
        elif pref == 'deep':
            deeper = [(p, c) for p, c in cands if p]
            if deeper: cands = deeper
        if not cands:
            return None, None
        p, c = cands[sel % len(cands)]
        return {'path': list(p)}, c

    for op in case['prog']:
        name = op['op']
        step = None
        if name in SESSION_OPS:
            step = {'do': name}
            if name == 'touch': step['n'] = op['n']
        elif name == 'alias':
            ref, c = choose(op, {'list': list, 'dict': dict}.get(op.get('want')))
            if ref is not None and 'path' in ref:
                step = {'do': 'alias', 't': ref, 'name': len(alias_objs)}
        elif name == 'assign':
            step = {'do': 'assign', 'val': sort_keys_rec(fresh(op['val']))}
        elif name == 'handover':
            if nslots > 1:
                s_slot = op.get('from', 1) % nslots
                d_slot = 1 - s_slot
                sconts = containers(env.root_of(s_slot))
                if is_array or op.get('whole_src'):
                    sconts = sconts[:1]
                spath, sobj = sconts[op.get('src_sel', 0) % len(sconts)]
                step = {'do': 'handover', 'on': d_slot, 'src': {'on': s_slot, 'path': list(spath)}}
                if is_array or op.get('whole'):
                    step['how'] = 'assign'
                else:
                    ref, t = choose(op, {'list': list, 'dict': dict}.get(op.get('want')), slot=d_slot)
                    if ref is None:
                        ref, t = choose(op, None, slot=d_slot)
                    step['t'] = ref
                    if isinstance(t, list):
                        how = op.get('how_l', 'append')
                        if how == 'l_setitem' and len(t) == 0: how = 'append'
                        step['how'] = how
                        if how == 'l_setitem': step['i'] = _index(len(t), op.get('i', 0))
                        elif how in ('insert', 'l_setslice'): step['i'] = op.get('i', 0)
                        if how in ('extend', 'l_setslice', 'iadd'): step['kind'] = op.get('kind', 'list')
                    else:
                        step['how'] = op.get('how_d', 'd_setitem')
                        step['key'] = _pick_key(t, op)
        elif name == 'read':
            ref, t = choose(op, None)
            w = op['what']
            if isinstance(t, dict) and w in READS_LIST: w = READS_DICT[op.get('i', 0) % len(READS_DICT)]
            if isinstance(t, list) and w in READS_DICT: w = READS_LIST[op.get('i', 0) % len(READS_LIST)]
            if is_array and w == 'deepcopy_mod': w = 'copy_mod'
            step = {'do': 'read', 't': ref, 'what': w}
            if w in ('contains', 'count'):
                step['val'] = op['key'] if isinstance(t, dict) else op['val']
            elif w in ('eq', 'ne'):
                step['val'] = fresh(t) if op.get('exist') else op['val']
            elif w == 'getitem':
                if len(t) == 0: step['what'] = 'len'
                elif isinstance(t, dict): step['k'] = list(t.keys())[op.get('i', 0) % len(t)]
                else: step['k'] = _index(len(t), op.get('i', 0))
            elif w == 'slice': step['s'] = [op.get('a'), op.get('b'), op.get('step')]
            elif w == 'index':
                if len(t) == 0: step['what'] = 'len'
                else: step['val'] = fresh(t[op.get('i', 0) % len(t)])
            elif w == 'add': step['vals'] = op['vals']
            elif w == 'mul': step['n'] = op['n']
            elif w == 'unpack':
                if len(t) == 0: step['what'] = 'len'
            elif w == 'get':
                step['key'] = _pick_key(t, op); step['default'] = bool(op.get('default')); step['val'] = op['val']
            elif w == 'keys': step['key'] = op['key']
            elif w == 'or': step['pairs'] = op['pairs']
        elif name == 'mut' or name in LIST_OPS or name in DICT_OPS:
            outer = op
            if name == 'mut':       # polymorphic: the target is chosen first, then the variant that fits its type
                ref, t = choose(op, None)
                op = op['l'] if isinstance(t, list) else op['d']
                name = op['op']
            else:
                ref, t = choose(op, list if name in LIST_OPS else dict)
            if ref is not None:
                step = _resolve_mutation(name, op, ref, t, is_array)
                if step is not None and step['do'] == 'popitem' and len(t) > 1:
                    order_sensitive = True
            op = outer
        else:
            raise ValueError('unknown op %r' % (op,))
        if step is None:
            skipped += 1
            continue
        if nslots > 1 and step['do'] not in SESSION_OPS and 'on' not in step:
            step['on'] = slot_of(op)
            if 't' in step and 'alias' in step['t']:        # a step through an alias acts on the slot the alias came from
                step['on'] = alias_slot[step['t']['alias']]

        do = step['do']
        classes.add('op:' + (do if do != 'read' else 'read'))
        if do in SESSION_OPS:
            steps.append(step); src.append(step_src(names, step))
            if do in ('flush', 'commit'):
                handed_flushed |= handed
            if do == 'reload':
                for h, a in slots:
                    setattr(h, a, sort_keys_rec(fresh(getattr(h, a))))
                env.aliases = {}
                alias_objs[:] = [None] * len(alias_objs)
                unwrapped.clear()
                unwrapped_aug.clear()
                handed.clear()
                handed_flushed.clear()
                snapshots.append([fresh(r) for r in roots()])
            continue

        env.use(step.get('on', 0))
        conts_before = all_conts()
        ids_before = set(id(c) for _, c in conts_before)
        before = canon(roots())
        target = None
        if 't' in step:
            target = alias_objs[step['t']['alias']] if 'alias' in step['t'] else env.locate(step['t'])
        target_attached = target is not None and id(target) in ids_before
        target_sub = _subtree_ids(target) if target is not None else set()
        parent_before = None
        if do in AUG_OPS and step['via'] == 'item':
            parent_before = env.locate({'path': step['t']['path'][:-1]})

        apply_step(step, env)

        conts_after = all_conts()
        keep.extend(c for _, c in conts_after)
        ids_after = set(id(c) for _, c in conts_after)
        changed = canon(roots()) != before
        new_ids = ids_after - ids_before
        steps.append(step); src.append(step_src(names, step))

        if do == 'alias':
            alias_objs.append(env.aliases[step['name']]); alias_stale.append(False); alias_slot.append(step.get('on', 0))
            classes.add('alias_taken')
            continue
        if do == 'read':
            reads += 1
            if changed:
                raise AssertionError('harness: read step changed the model: %r' % (step,))
            if 'path' in step['t'] and step['t']['path']: classes.add('read_nested')
            continue
        inserted |= new_ids
        if do == 'handover':
            handed |= new_ids
            classes.add('handover')
            classes.add('handover:' + step['how'])
            if step['src']['path']: classes.add('handover_nested_source')
        if changed:
            effective += 1
            depth = len(step['t']['path']) if ('t' in step and 'path' in step['t']) else 0
            via_alias = 't' in step and 'alias' in step['t']
            if depth >= 1 or via_alias: nested_effective += 1
            classes.add('depth:%d' % min(depth, 3) if not via_alias else 'via_alias')
            if step.get('on', 0) == 1: classes.add('mutated_peer_slot')
        # --- root-cause flags (model-side analysis only) ---
        # `mutated`: the container whose mutating method Python invokes last (for parent[key] op= v that is the parent)
        mutated = target
        if do in AUG_OPS:
            classes.add('aug:' + step['via'])
            if step['via'] == 'local' and changed and target_attached:
                flags['aug_local'] = True
            if step['via'] == 'item':
                mutated = parent_before
                if id(mutated) not in unwrapped:
                    # Python re-binds parent[key] to the same object; an implementation that re-binds a copy
                    # detaches every alias taken earlier into that subtree (and re-wraps the subtree)
                    for k, a in enumerate(alias_objs):
                        if a is not None and id(a) in target_sub: alias_stale[k] = True
                    unwrapped.difference_update(target_sub)
                    unwrapped_aug.difference_update(target_sub)
            elif new_ids and target_attached:
                # list.__iadd__ / dict.__ior__ run on the tracked container itself: what they insert is stored as is
                unwrapped_aug |= new_ids
        if 't' in step and 'alias' in step['t'] and changed and target_attached and alias_stale[step['t']['alias']]:
            flags['stale_alias'] = True
        if mutated is not None and id(mutated) in unwrapped:
            unwrapped |= new_ids
            if changed: flags['unwrapped_item'] = True
        if mutated is not None and id(mutated) in unwrapped_aug:
            unwrapped_aug |= new_ids
            if changed: flags['aug_local'] = True
        if do in ('extend', 'l_setslice') and step['kind'] != 'list' and new_ids:
            unwrapped |= new_ids
            classes.add('containers_in_nonlist_iterable')
        if do in ('extend', 'l_setslice', 'iadd') and step.get('kind') not in (None, 'list'):
            classes.add('arg:' + step['kind'])
        if do in ('update', 'ior'):
            classes.add('pairs:' + step['kind'])
        if new_ids: classes.add('inserted_container')
        if target is not None and id(target) in inserted and changed: classes.add('mutated_inserted_container')
        if do != 'handover' and changed and mutated is not None:
            if id(mutated) in handed or (target is not None and id(target) in handed):
                handed |= new_ids
                classes.add('mutated_handed_over')
                if id(mutated) in handed_flushed or (target is not None and id(target) in handed_flushed):
                    classes.add('mutated_handed_over_after_flush')

    final = [fresh(r) for r in roots()]
    sess = [s['do'] for s in steps if s['do'] in SESSION_OPS]
    if nslots > 1: classes.add('peer:' + case['peer']['variant'])
    return {'attr': specs[0][1], 'slots': specs, 'names': names, 'doc0': docs0[0], 'docs0': docs0, 'steps': steps, 'src': src,
            'snapshots': snapshots, 'final': final,
            'flags': flags, 'classes': sorted(classes), 'effective': effective, 'nested_effective': nested_effective,
            'skipped': skipped, 'reads': reads, 'order_sensitive': order_sensitive, 'session_steps': sess}


def _cycle(vals, val, n):
    base = list(vals) if vals else [val]
    return [fresh(base[k % len(base)]) for k in range(n)]


def _resolve_mutation(name, op, ref, t, is_array):
    step = {'do': name, 't': ref}
    n = len(t)
    if name == 'l_setitem':
        if n == 0: return None
        step['i'] = _index(n, op['i']); step['val'] = op['val']
    elif name == 'l_setslice':
        s = [op.get('a'), op.get('b'), op.get('step')]
        vals = list(op['vals'])
        if s[2] not in (None, 1):
            vals = _cycle(op['vals'], op.get('val'), len(range(*slice(*s).indices(n))))
        step['s'] = s; step['vals'] = vals; step['kind'] = op['kind']
    elif name == 'l_delitem':
        if n == 0: return None
        step['i'] = _index(n, op['i'])
    elif name == 'l_delslice':
        step['s'] = [op.get('a'), op.get('b'), op.get('step')]
    elif name == 'append':
        step['val'] = op['val']
    elif name == 'extend':
        step['vals'] = op['vals']; step['kind'] = op['kind']
    elif name == 'insert':
        step['i'] = op['i']; step['val'] = op['val']
    elif name == 'l_pop':
        if n == 0: return None
        step['i'] = None if op.get('i') is None else _index(n, op['i'])
    elif name == 'remove':
        if n == 0: return None
        step['val'] = fresh(t[op['i'] % n])
    elif name == 'sort':
        key = op.get('key')
        if key is None:
            try: sorted(t)
            except TypeError: key = 'repr'
        step['key'] = key; step['rev'] = bool(op.get('rev'))
    elif name in ('reverse', 'l_clear', 'd_clear', 'popitem'):
        if name == 'popitem' and n == 0: return None
    elif name == 'iadd':
        step['vals'] = op['vals']; step['kind'] = op['kind']
    elif name == 'imul':
        k = op['n']
        if any(isinstance(x, (dict, list)) for x in t): k = k % 2      # keep the document a tree (no shared children)
        step['n'] = k
    elif name == 'd_setitem':
        step['key'] = _pick_key(t, op); step['val'] = op['val']
    elif name == 'd_delitem':
        if n == 0: return None
        step['key'] = list(t.keys())[op['i'] % n]
    elif name == 'update':
        step['pairs'] = op['pairs']; step['kind'] = op['kind']
    elif name == 'setdefault':
        key = _pick_key(t, op)
        step['key'] = key; step['val'] = op['val']
        res = t[key] if key in t else op['val']
        if op.get('chain'):
            if isinstance(res, list): step['then'] = ['append', op['val2']]
            elif isinstance(res, dict): step['then'] = ['setitem', op['key2'], op['val2']]
    elif name == 'd_pop':
        key = _pick_key(t, op)
        default = bool(op.get('default'))
        if key not in t: default = True
        step['key'] = key; step['default'] = default; step['val'] = op['val']
    elif name == 'ior':
        step['pairs'] = op['pairs']; step['kind'] = op['kind']
    if name in AUG_OPS:
        if 'alias' in ref: step['via'] = 'local'
        elif op.get('via') == 'local': step['via'] = 'local'
        elif not ref['path']: step['via'] = 'attr'
        else: step['via'] = 'item'
    return step


# ------------------------------------------------------------------------------------------------------------
# hypothesis strategies
# ------------------------------------------------------------------------------------------------------------

KEYS = ['a', 'b', 'c', 'd', 'k', 'l', '', u'\xe9', 'a b', '0', '"q"']
ALPHABET = list(u'ab "\'\\\xe9中\n\U0001F600\x00')


def strategies():
    from hypothesis import strategies as st
    text = st.text(ALPHABET, max_size=4)
    key = st.sampled_from(KEYS)
    scalar = st.one_of(st.none(), st.booleans(), st.integers(-3, 3), st.integers(-2**70, 2**70),
                       st.floats(allow_nan=False, allow_infinity=False), st.sampled_from([0.5, -1.5, 1e100, 1.0]), text)

    def doc(d):
        if d == 0:
            return scalar
        sub = doc(d - 1)
        return st.one_of(scalar, st.lists(sub, max_size=3), st.dictionaries(key, sub, max_size=3),
                         st.sampled_from([[], {}]))

    def cont(d):
        return st.one_of(st.lists(doc(d - 1), max_size=3), st.dictionaries(key, doc(d - 1), max_size=3))

    def rootdoc(d):
        return st.one_of(st.lists(doc(d), max_size=4), st.dictionaries(key, doc(d), max_size=4),
                         st.lists(cont(d), min_size=1, max_size=3), st.dictionaries(key, cont(d), min_size=1, max_size=3))

    item = {'json': doc(2), 'json_lazy': doc(2),
            'int': st.one_of(st.integers(-3, 3), st.integers(-2**63, 2**63 - 1)),
            'str': text,
            'float': st.one_of(st.floats(allow_nan=False, allow_infinity=False), st.integers(-3, 3))}
    # values with containers inside, to be inserted and mutated later through the document
    rich = st.one_of(doc(2), st.lists(doc(1), min_size=1, max_size=2), st.dictionaries(key, doc(1), min_size=1, max_size=2),
                     st.sampled_from([[[]], {'k': []}, [{}], {'k': {'k': 1}}]))
    item_rich = dict(item, json=rich, json_lazy=rich)
    root = {'json': rootdoc(2), 'json_lazy': rootdoc(2),
            'int': st.lists(item['int'], max_size=5), 'str': st.lists(item['str'], max_size=5),
            'float': st.lists(item['float'], max_size=5)}
    idx = st.integers(-6, 6)
    bound = st.one_of(st.none(), st.integers(-6, 6))
    stepv = st.sampled_from([None, None, None, 1, 2, -1, -2, 3])
    sel = st.integers(0, 11)
    pref = st.sampled_from(['any', 'deep', 'deep', 'new', 'new', 'alias', 'alias'])
    via = st.sampled_from(['item', 'local'])
    iter_kind = st.sampled_from(ITER_KINDS)

    on = st.integers(0, 1)      # slot acted on; ignored (taken modulo) when the case has no peer slot

    def opdict(name, **fields):
        d = {'op': st.just(name)}
        if name in ('alias', 'read'):
            d.update(sel=sel, pref=pref, on=on)
        d.update(fields)
        return st.fixed_dictionaries(d)

    def build(kind):
        val = item_rich[kind]
        vals = st.lists(val, max_size=3)
        pairs = st.lists(st.tuples(key, val).map(list), max_size=3)
        list_ops = [
            opdict('l_setitem', i=idx, val=val),
            opdict('l_setslice', a=bound, b=bound, step=stepv, vals=vals, val=val, kind=iter_kind),
            opdict('l_delitem', i=idx),
            opdict('l_delslice', a=bound, b=bound, step=stepv),
            opdict('append', val=val),
            opdict('extend', vals=vals, kind=iter_kind),
            opdict('insert', i=idx, val=val),
            opdict('l_pop', i=st.one_of(st.none(), idx)),
            opdict('remove', i=st.integers(0, 6)),
            opdict('sort', key=st.sampled_from([None, None, 'repr']), rev=st.booleans()),
            opdict('reverse'),
            opdict('l_clear'),
            opdict('iadd', vals=vals, kind=iter_kind, via=via),
            opdict('iadd', vals=vals, kind=iter_kind, via=via),
            opdict('imul', n=st.integers(0, 3), via=via),
        ]
        dict_ops = [
            opdict('d_setitem', exist=st.booleans(), i=st.integers(0, 6), key=key, val=val),
            opdict('d_delitem', i=st.integers(0, 6)),
            opdict('update', pairs=pairs, kind=st.sampled_from(PAIR_KINDS_UPDATE)),
            opdict('setdefault', exist=st.booleans(), i=st.integers(0, 6), key=key, val=val, chain=st.booleans(),
                   val2=val, key2=key),
            opdict('d_pop', exist=st.booleans(), i=st.integers(0, 6), key=key, default=st.booleans(), val=val),
            opdict('popitem'),
            opdict('d_clear'),
            opdict('ior', pairs=pairs, kind=st.sampled_from(PAIR_KINDS_IOR), via=via),
            opdict('ior', pairs=pairs, kind=st.sampled_from(PAIR_KINDS_IOR), via=via),
        ]
        session = [st.fixed_dictionaries({'op': st.just('flush')}),
                   st.fixed_dictionaries({'op': st.just('commit')}),
                   st.fixed_dictionaries({'op': st.just('reload')}),
                   st.fixed_dictionaries({'op': st.just('touch'), 'n': st.integers(0, 9)})]
        alias = opdict('alias')
        assign = st.fixed_dictionaries({'op': st.just('assign'), 'val': root[kind], 'on': on})
        handover = st.fixed_dictionaries({
            'op': st.just('handover'), 'from': on, 'src_sel': sel, 'whole_src': st.sampled_from([False, False, True]),
            'whole': st.sampled_from([False, False, False, True]), 'sel': sel, 'pref': pref,
            'how_l': st.sampled_from(HOW_L), 'how_d': st.sampled_from(HOW_D), 'kind': st.sampled_from(HOW_KINDS),
            'i': idx, 'exist': st.booleans(), 'key': key})
        reads = READS_ANY + READS_LIST + (READS_DICT if kind not in ARRAY_KINDS else ())
        read = opdict('read', what=st.sampled_from(reads), i=st.integers(0, 6), a=bound, b=bound, step=stepv,
                      val=val, vals=vals, n=st.integers(0, 3), key=key, exist=st.booleans(), default=st.booleans(),
                      pairs=pairs)
        variants = {'op': st.just('mut'), 'sel': sel, 'pref': pref, 'on': on, 'l': st.one_of(*list_ops)}
        if kind not in ARRAY_KINDS:
            variants['d'] = st.one_of(*dict_ops)
        mut = st.fixed_dictionaries(variants)
        # one_of() removes duplicate branches, so weights are given by a drawn category
        cats = {'mut': mut, 'session': st.one_of(*session), 'alias': alias, 'assign': assign, 'read': read,
                'handover': handover}
        sess_ro = st.one_of(st.sampled_from([{'op': 'flush'}, {'op': 'commit'}, {'op': 'reload'}]),
                            st.fixed_dictionaries({'op': st.just('touch'), 'n': st.integers(0, 9)}))
        cats_ro = {'read': read, 'session': sess_ro, 'alias': alias}

        @st.composite
        def mut_op(draw):
            return draw(cats[draw(st.sampled_from(['mut'] * 12 + ['session'] * 3 + ['alias'] * 3 + ['assign', 'read']))])

        @st.composite
        def read_op(draw):
            return draw(cats_ro[draw(st.sampled_from(['read'] * 6 + ['session'] * 2 + ['alias']))])
        @st.composite
        def peer_op(draw):      # op mix for cases with a peer slot: hand-overs and more flush/commit in between
            return draw(cats[draw(st.sampled_from(['mut'] * 10 + ['handover'] * 5 + ['session'] * 5 + ['alias'] * 2
                                                  + ['assign', 'read']))])
        @st.composite
        def handover_history(draw):
            # the history class "hand over, (write the hand-over), change in place through the receiver or the source"
            h = draw(handover)
            mid = draw(st.sampled_from([[], [{'op': 'flush'}], [{'op': 'commit'}], [{'op': 'flush'}], [{'op': 'commit'}],
                                        [{'op': 'touch', 'n': 1}, {'op': 'flush'}], [{'op': 'reload'}]]))
            mid = [dict(m) for m in mid]
            follow = dict(draw(mut), pref=draw(st.sampled_from(['new', 'new', 'new', 'any'])))
            follow['on'] = draw(st.sampled_from([1 - h['from']] * 3 + [h['from']]))
            return [h] + mid + [follow]
        mut_op, read_op, peer_op = mut_op(), read_op(), peer_op()
        peer_op = (peer_op, handover_history())
        return mut_op, read_op, peer_op

    ops = {k: build(k) for k in ATTR}

    @st.composite
    def case(draw):
        kind = draw(st.sampled_from(['json'] * 6 + ['json_lazy', 'int', 'str', 'float']))
        origin = draw(st.sampled_from(['loaded', 'loaded', 'loaded', 'flushed', 'flushed', 'created']))
        readonly = draw(st.sampled_from([False, False, False, True]))
        d = draw(root[kind])
        mut_op, read_op, peer_op = ops[kind]
        case = {'kind': kind, 'origin': origin, 'readonly': readonly, 'doc': d}
        if draw(st.sampled_from([False, False, False, True, True])):
            variant = 'obj' if kind in ARRAY_KINDS else draw(st.sampled_from(['obj', 'obj', 'attr', 'both']))
            case['peer'] = {'variant': variant, 'doc': draw(root[kind])}
            peer_op, history = peer_op
            if readonly:
                case['prog'] = draw(st.lists(read_op, min_size=1, max_size=6))
            elif draw(st.booleans()):
                case['prog'] = (draw(st.lists(peer_op, max_size=2)) + draw(history) + draw(st.lists(peer_op, max_size=2)))
            else:
                case['prog'] = draw(st.lists(peer_op, min_size=2, max_size=7))
        else:
            case['prog'] = draw(st.lists(read_op if readonly else mut_op, min_size=1, max_size=6))
        return case

    return case()


# ------------------------------------------------------------------------------------------------------------
# the complete grid (part 1)
# ------------------------------------------------------------------------------------------------------------

GRID_DOC = {'d': {'x': {'y': [1]}, 'z': 2}, 'l': [1, [2, [3]], {'a': [4]}], 's': 'v'}
GRID_ARRAYS = {'int': [3, 1, 2], 'str': ['b', 'a', ''], 'float': [1.5, -2.0, 2]}
GRID_ITEM = {'int': [7, -1], 'str': ['x', u'\xe9'], 'float': [0.25, 4]}
N_LISTS, N_DICTS = 5, 4      # containers of each type in GRID_DOC


def _list_templates(c1, c2, s1, s2):
    """c1, c2: values to insert (containers for Json, scalars for arrays); s1, s2: scalars"""
    t = [dict(op='l_setitem', i=0, val=c1), dict(op='l_setitem', i=-1, val=s1)]
    for kind in ITER_KINDS:
        t.append(dict(op='l_setslice', a=0, b=1, step=None, vals=[c1, c2], kind=kind))
    t.append(dict(op='l_setslice', a=None, b=None, step=2, vals=[c1], val=c1, kind='list'))
    t.append(dict(op='l_setslice', a=None, b=None, step=-1, vals=[s1, c2], val=c1, kind='tuple'))
    t += [dict(op='l_delitem', i=0), dict(op='l_delitem', i=-1), dict(op='l_delslice', a=0, b=1, step=None),
          dict(op='l_delslice', a=None, b=None, step=2), dict(op='append', val=c1), dict(op='append', val=s1)]
    for kind in ITER_KINDS:
        t.append(dict(op='extend', vals=[c2, c1, s2], kind=kind))
    t += [dict(op='insert', i=0, val=c2), dict(op='insert', i=-1, val=s1), dict(op='l_pop', i=None), dict(op='l_pop', i=0),
          dict(op='remove', i=0), dict(op='remove', i=1), dict(op='sort', key=None, rev=False),
          dict(op='sort', key='repr', rev=True), dict(op='reverse'), dict(op='l_clear')]
    for via in ('item', 'local'):
        for kind in ITER_KINDS:
            t.append(dict(op='iadd', vals=[c1, s2], kind=kind, via=via))
        for n in (0, 2):
            t.append(dict(op='imul', n=n, via=via))
    return t


def _dict_templates(c1, c2, s1):
    t = [dict(op='d_setitem', exist=False, i=0, key='n', val=c1), dict(op='d_setitem', exist=True, i=0, key='n', val=s1),
         dict(op='d_setitem', exist=True, i=1, key='n', val=c2), dict(op='d_delitem', i=0), dict(op='d_delitem', i=1)]
    for kind in PAIR_KINDS_UPDATE:
        t.append(dict(op='update', pairs=[['n', c1], ['m', c2], ['z', s1]], kind=kind))
    t += [dict(op='setdefault', exist=False, i=0, key='n', val=[], chain=True, val2=c1, key2='q'),
          dict(op='setdefault', exist=False, i=0, key='n', val={}, chain=True, val2=c1, key2='q'),
          dict(op='setdefault', exist=False, i=0, key='n', val=c1, chain=False, val2=1, key2='q'),
          dict(op='setdefault', exist=True, i=0, key='n', val=c1, chain=True, val2=c2, key2='q'),
          dict(op='d_pop', exist=True, i=0, key='n', default=False, val=1),
          dict(op='d_pop', exist=False, i=0, key='nokey', default=True, val=c1),
          dict(op='popitem'), dict(op='d_clear')]
    for via in ('item', 'local'):
        for kind in PAIR_KINDS_IOR:
            t.append(dict(op='ior', pairs=[['n', c1], ['z', s1]], kind=kind, via=via))
    return t


def _inserting(t):
    return t['op'] in ('l_setitem', 'l_setslice', 'append', 'extend', 'insert', 'iadd', 'd_setitem', 'update',
                       'setdefault', 'ior') and not (t['op'] == 'setdefault' and t.get('exist'))


def grid_cases():
    """complete enumeration over the fixed documents; every element is a case"""
    c1, c2 = {'n': [1]}, [[2], {'k': 1}]
    origins = ('loaded', 'flushed', 'created')
    lt = _list_templates(c1, c2, 7, 'w')
    dt = _dict_templates(c1, c2, 7)

    def case(kind, origin, prog, readonly=False, doc=None):
        return {'kind': kind, 'origin': origin, 'readonly': readonly,
                'doc': fresh(doc if doc is not None else GRID_DOC), 'prog': fresh(prog)}

    # A. one mutating op on every container of the matching type
    for origin in origins:
        for t in lt:
            for sel in range(N_LISTS):
                yield case('json', origin, [dict(t, sel=sel, pref='any')])
        for t in dt:
            for sel in range(N_DICTS):
                yield case('json', origin, [dict(t, sel=sel, pref='any')])
    for t in lt[:12]:
        yield case('json_lazy', 'loaded', [dict(t, sel=1, pref='any')])
    # B. insert a container, optional session step, mutate inside what was inserted
    followers = [dict(op='append', val=5, sel=0, pref='new'), dict(op='append', val={'deep': []}, sel=1, pref='new'),
                 dict(op='d_setitem', exist=False, i=0, key='new', val=[1], sel=0, pref='new'),
                 dict(op='iadd', vals=[9], kind='list', via='local', sel=0, pref='new'),
                 dict(op='iadd', vals=[9], kind='tuple', via='item', sel=0, pref='new'),
                 dict(op='ior', pairs=[['u', 1]], kind='dict', via='item', sel=0, pref='new')]
    between = [[], [dict(op='flush')], [dict(op='commit')], [dict(op='reload')], [dict(op='touch', n=3), dict(op='flush')]]
    for origin in ('loaded', 'flushed'):
        for t in lt + dt:
            if not _inserting(t): continue
            n = N_LISTS if t['op'] in LIST_OPS else N_DICTS
            for sel in (0, n - 1):
                for mid in between:
                    for f in followers:
                        yield case('json', origin, [dict(t, sel=sel, pref='any')] + mid + [f])
    # C. alias first, something else in between, then mutate through the alias
    via_alias_l = [dict(op='append', val=[1], sel=0, pref='alias'), dict(op='iadd', vals=[8], kind='list', via='local', sel=0, pref='alias'),
                   dict(op='sort', key='repr', rev=True, sel=0, pref='alias'), dict(op='l_delslice', a=0, b=1, step=None, sel=0, pref='alias')]
    via_alias_d = [dict(op='d_setitem', exist=False, i=0, key='n', val={'k': []}, sel=0, pref='alias'),
                   dict(op='ior', pairs=[['n', 1]], kind='dict', via='local', sel=0, pref='alias'),
                   dict(op='update', pairs=[['n', [1]]], kind='kwargs', sel=0, pref='alias'), dict(op='popitem', sel=0, pref='alias')]
    for origin in ('loaded', 'flushed'):
        for want, n, users in (('list', N_LISTS, via_alias_l), ('dict', N_DICTS, via_alias_d)):
            for sel in range(n):
                others = [[dict(op='d_setitem', exist=False, i=0, key='other', val=1, sel=0, pref='any')],
                          [dict(op='append', val=0, sel=1, pref='any')],
                          [dict(op='touch', n=1)],
                          [dict(op='iadd', vals=[6], kind='list', via='item', sel=sel, pref='any')] if want == 'list'
                          else [dict(op='ior', pairs=[['o', 6]], kind='dict', via='item', sel=sel, pref='any')]]
                for other in others:
                    for mid in ([], [dict(op='flush')], [dict(op='commit')]):
                        for u in users:
                            yield case('json', origin, [dict(op='alias', want=want, sel=sel, pref='any')] + other + mid + [u])
    # D. reads
    reads = READS_ANY + READS_LIST + READS_DICT
    rd = dict(op='read', i=1, a=0, b=2, step=None, val=1, vals=[1], n=2, key='l', exist=True, default=True,
              pairs=[['n', 1]])
    for origin in origins:
        for w in reads:
            for sel in range(N_LISTS + N_DICTS):
                yield case('json', origin, [dict(rd, what=w, sel=sel, pref='any')], readonly=True)
                if sel % 4 == 0:
                    yield case('json', origin, [dict(op='alias', sel=sel, pref='any'), dict(op='touch', n=2),
                                                dict(rd, what=w, sel=0, pref='alias'), dict(op='flush'),
                                                dict(rd, what=w, sel=sel, pref='any', exist=False)], readonly=True)
    for w in reads:
        yield case('json_lazy', 'loaded', [dict(rd, what=w, sel=3, pref='any')], readonly=True)
    # E. arrays
    for kind in ARRAY_KINDS:
        a, b = GRID_ITEM[kind]
        for origin in origins:
            for t in _list_templates(a, b, b, a):
                yield case(kind, origin, [dict(t, sel=0, pref='any')], doc=GRID_ARRAYS[kind])
                if t['op'] in ('iadd', 'imul', 'extend', 'sort', 'l_delslice', 'append'):
                    yield case(kind, origin, [dict(op='alias', sel=0, pref='any'), dict(op='flush'), dict(t, sel=0, pref='alias'),
                                              dict(op='commit'), dict(op='append', val=a, sel=0, pref='alias')],
                               doc=GRID_ARRAYS[kind])
            for w in READS_ANY + READS_LIST:
                yield case(kind, origin, [dict(rd, what=w, sel=0, pref='any', val=a, vals=[b], exist=True)], readonly=True,
                           doc=GRID_ARRAYS[kind])
    # F. hand-over: a container read from one slot (object, attribute) is put into another slot, the hand-over is
    #    optionally written by flush/commit, then the receiver (or the source) is changed in place
    for c in handover_grid():
        yield c


GRID_PEER = {'m': {'k': [0]}, 'own': True, 't': [[5], {'q': 1}]}


def handover_grid():
    def case(kind, origin, variant, prog, doc=None, peer_doc=None):
        return {'kind': kind, 'origin': origin, 'readonly': False, 'doc': fresh(doc if doc is not None else GRID_DOC),
                'peer': {'variant': variant, 'doc': fresh(peer_doc if peer_doc is not None else GRID_PEER)},
                'prog': fresh(prog)}

    hows = [dict(whole=True)]
    for h in HOW_L:
        for kind in (HOW_KINDS if h in ('extend', 'l_setslice', 'iadd') else ('list',)):
            hows.append(dict(want='list', how_l=h, kind=kind, i=1))
    for h in HOW_D:
        hows.append(dict(want='dict', how_d=h, key='got', exist=False))

    def followers(src, dst, src_sel):
        return [[dict(op='mut', on=dst, sel=0, pref='new', l=dict(op='append', val='y'),
                      d=dict(op='d_setitem', exist=False, i=0, key='y', val=[1]))],
                [dict(op='mut', on=dst, sel=1, pref='new', l=dict(op='iadd', vals=['z'], kind='list', via='item'),
                      d=dict(op='d_pop', exist=True, i=0, key='none', default=False, val=0))],
                # the source is changed afterwards: the receiver must keep what it was given
                [dict(op='mut', on=src, sel=src_sel, pref='any', l=dict(op='append', val='s'),
                      d=dict(op='d_setitem', exist=False, i=0, key='s', val=1)),
                 dict(op='mut', on=dst, sel=0, pref='new', l=dict(op='reverse'), d=dict(op='d_setitem', exist=False, i=0, key='r', val=2))]]

    betweens = [[], [dict(op='flush')], [dict(op='commit')], [dict(op='touch', n=3), dict(op='flush')], [dict(op='reload')]]
    plan = [('obj', (1, 0), (0, 1, 3), betweens, ('loaded', 'flushed')),
            ('attr', (1,), (0, 3), betweens[:4], ('loaded',)),
            ('both', (1,), (0, 3), betweens[:4], ('loaded',))]
    for variant, froms, src_sels, mids, origins in plan:
        for origin in origins:
            for frm in froms:
                if origin == 'flushed' and frm == 0: continue
                for src_sel in src_sels:
                    for how in hows:
                        for sel in ((0,) if how.get('whole') else (0, 1)):
                            if sel == 1 and variant != 'obj': continue
                            for mid in mids:
                                for f in followers(frm, 1 - frm, src_sel):
                                    h = dict(how, op='handover', src_sel=src_sel, sel=sel, pref='any')
                                    h['from'] = frm
                                    yield case('json', origin, variant, [h] + mid + f)
    for kind in ARRAY_KINDS:
        a, b = GRID_ITEM[kind]
        for origin in ('loaded', 'flushed'):
            for frm in (1, 0):
                for mid in betweens:
                    for f in ([dict(op='append', on=1 - frm, val=a, sel=0, pref='any')],
                              [dict(op='iadd', on=1 - frm, vals=[b], kind='tuple', via='local', sel=0, pref='any')],
                              [dict(op='append', on=frm, val=a, sel=0, pref='any'), dict(op='l_pop', on=1 - frm, i=0, sel=0, pref='any')]):
                        h = {'op': 'handover', 'from': frm, 'whole': True}
                        yield case(kind, origin, 'obj', [h] + mid + f, doc=GRID_ARRAYS[kind], peer_doc=[a, b])
