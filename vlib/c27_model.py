"""C27 helpers: inheritance hierarchies as pure data, their materialisation on a fresh SQLite Database, a read
program interpreter, and the Pony-independent oracle (which class created which pk).

A spec (plain JSON) is

  {'pk': {'name': 'id'|'pk'|'code', 'type': 'int'|'str', 'implicit': bool},
   'discr': {'mode': 'implicit'|'str'|'int', 'attr': name|None, 'column': name|None},
   'table': None|name,                                  # _table_ of the root
   'classes': [{'name', 'bases': [idx..], 'disc': value|None, 'attrs': [{'name', 'kind'}]}],   # parents first, 0 = root
   'refs': [{'target': idx, 'kind': 'one'|'o2o'|'o2m'|'m2m', 'fk': 'holder'|'target'}],       # Holder.r<k> / T.h<k>
   'objects': [{'cls': idx, 'vals': {attr: value}}],    # pk = i+1 or 'k<i+1>'
   'nholders': n, 'links': {'<k>': [[holder idx, object idx], ...]},
   'reopen': bool,                                      # read through a second Database bound to the same file
   'pk_step': n (optional, int pk only),                # pk = (i+1)*n: sparse ids, MAX(id) well above the row count
   'keyrefs': [{'target': idx, 'composite': bool}] (optional),   # entity K<j> whose primary key IS a reference to the
   'keyrows': {'<j>': [object idx, ...]} (optional),             # hierarchy (PrimaryKey(T)) or contains one (ref, n)
   'observe': 'type'|'dict'|'subattr' (optional),       # what is looked at FIRST on every object that is reached
   'sessions': [[op, ...], ...]}                        # each inner list runs inside one later db_session
"""
import os, shutil, tempfile

NAMES = ['A', 'B', 'C', 'D', 'E', 'F', 'G']
ATTR_KINDS = ['req_int', 'opt_int', 'opt_str', 'reqdef_int', 'reqdef_str', 'lazy_int']
DEFAULTS = {'reqdef_int': 7, 'reqdef_str': 'dflt'}
INT_VALUES = [-1, 0, 1, 2, 7]
STR_VALUES = ['a', 'b', 'Zz', u'Ж']
STR_DISCR_POOL = ['x', 'Y', 'a1', 'class', '0', u'Ж']
MISSING_PK = {'int': 999, 'str': 'zz9'}


class Stop(Exception):
    """first un-excluded mismatch in replay mode"""
    def __init__(self, message):
        Exception.__init__(self, message)
        self.message = message


class Rejected(Exception):
    """Pony refused the hierarchy at definition / mapping time"""


# ------------------------------------------------------------------------------------------------
# pure-data view of a spec (the oracle)
# ------------------------------------------------------------------------------------------------
class Model(object):
    def __init__(self, spec):
        self.spec = spec
        cs = spec['classes']
        self.n = len(cs)
        self.anc = []                       # ancestors-or-self, by index
        for i, c in enumerate(cs):
            s = {i}
            for b in c['bases']:
                s |= self.anc[b]
            self.anc.append(s)
        self.sub = [set(j for j in range(self.n) if i in self.anc[j]) for i in range(self.n)]   # subclasses-or-self
        self.own = {}                       # attr name -> (class idx, kind)
        for i, c in enumerate(cs):
            for a in c['attrs']:
                self.own[a['name']] = (i, a['kind'])
        self.pkname = spec['pk']['name']
        self.pktype = spec['pk']['type']
        self.pk_step = spec.get('pk_step', 1) if self.pktype == 'int' else 1
        self.observe = spec.get('observe', 'type')
        self.table = spec['table'] or cs[0]['name']
        d = spec['discr']
        self.discr_column = d['column'] or d['attr'] or 'classtype'
        self.objs = []
        for k, o in enumerate(spec['objects']):
            exp = {}
            for name in self.attrs_of(o['cls']):
                exp[name] = self.expected_value(name, o['vals'])
            self.objs.append({'cls': o['cls'], 'pk': self.pk(k), 'exp': exp})
        self.keyrefs = spec.get('keyrefs', [])
        self.keyrows = {j: list(spec.get('keyrows', {}).get(str(j), [])) for j in range(len(self.keyrefs))}
        self.links = {}
        for k, r in enumerate(spec['refs']):
            self.links[k] = [tuple(p) for p in spec['links'].get(str(k), [])]

    def pk(self, k):
        return (k + 1) * self.pk_step if self.pktype == 'int' else 'k%d' % (k + 1)

    def cname(self, i):
        return 'Holder' if i == -1 else self.spec['classes'][i]['name']

    def discr_value(self, i):
        c = self.spec['classes'][i]
        return c['disc'] if c['disc'] is not None else c['name']

    def attrs_of(self, i):
        """attribute names an instance of class i has (own + inherited), sorted"""
        return sorted(name for name, (j, kind) in self.own.items() if j in self.anc[i])

    def related_attrs(self, i):
        """attribute names visible in a query over class i: own, inherited and declared in subclasses"""
        return sorted(name for name, (j, kind) in self.own.items() if j in self.anc[i] or j in self.sub[i])

    def expected_value(self, name, vals):
        if name in vals:
            return vals[name]
        j, kind = self.own[name]
        if kind in DEFAULTS:
            return DEFAULTS[kind]
        if kind == 'opt_str' and j == 0:
            return ''                      # documented: Optional(str) that is not nullable defaults to ''
        return None

    def expected_dict(self, o):
        """obj.to_dict() with default options: pk, discriminator, every non-lazy non-collection attribute of the CREATING
        class (own + inherited), to-one relationships as the primary key of the related object"""
        ob = self.objs[o]
        d = {self.pkname: ob['pk'], self.spec['discr']['attr'] or 'classtype': self.discr_value(ob['cls'])}
        for name, v in ob['exp'].items():
            if self.own[name][1] != 'lazy_int':
                d[name] = v
        for k, r in enumerate(self.spec['refs']):
            if r['kind'] in ('o2o', 'o2m') and r['target'] in self.anc[ob['cls']]:
                hs = [h + 1 for (h, oo) in self.links[k] if oo == o]
                d['h%d' % k] = hs[0] if hs else None
        for j, kr in enumerate(self.keyrefs):
            if not kr['composite'] and kr['target'] in self.anc[ob['cls']]:
                d['k%d' % j] = ob['pk'] if o in self.keyrows[j] else None     # the K row's key is the object's key
        return d

    def is_inst(self, o, c):
        """was object index o created as class c or one of its subclasses (-1 = Holder: never)"""
        return c != -1 and c in self.anc[self.objs[o]['cls']]

    def instances(self, c):
        return [o for o in range(len(self.objs)) if self.is_inst(o, c)]

    def value_in(self, o, name):
        """value of attribute `name` for object o as a base-class query sees it (NULL when the class lacks it)"""
        return self.objs[o]['exp'].get(name)

    def ref_of(self, k, h):
        for (hh, o) in self.links[k]:
            if hh == h:
                return o
        return None

    def items_of(self, k, h):
        return sorted(o for (hh, o) in self.links[k] if hh == h)

    def shape(self):
        cs = self.spec['classes']
        if any(len(c['bases']) > 1 for c in cs):
            return 'diamond'
        if all(c['bases'] == [i - 1] for i, c in enumerate(cs) if i):
            return 'chain'
        return 'tree'


def mro_ok(bases_list):
    """can Python linearise classes with these bases (list of lists of earlier indexes)?"""
    made = []
    try:
        for i, bases in enumerate(bases_list):
            made.append(type('K%d' % i, tuple(made[b] for b in bases) or (object,), {}))
    except TypeError:
        return False
    return True


# ------------------------------------------------------------------------------------------------
# hypothesis strategy for specs
# ------------------------------------------------------------------------------------------------
def spec_strategy(max_classes=7):
    from hypothesis import strategies as st

    @st.composite
    def specs(draw):
        shape = draw(st.sampled_from(['chain', 'tree', 'diamond', 'diamond']))
        n = draw(st.integers(4 if shape == 'diamond' else 2, max_classes))
        names = list(draw(st.permutations(NAMES)))[:n]
        bases_list = []
        anc = []
        has_diamond = False
        for i in range(n):
            if i == 0:
                bases = []
            elif shape == 'chain':
                bases = [i - 1]
            elif shape == 'diamond' and i <= 2:
                bases = [0]              # two branches under the root, so that a common subclass is possible
            else:
                p = draw(st.integers(0, i - 1))
                bases = [p]
                if shape == 'diamond':
                    cands = [q for q in range(1, i) if q != p and q not in anc[p] and p not in anc[q]]
                    if p != 0 and cands and (not has_diamond or draw(st.booleans())):
                        q = draw(st.sampled_from(cands))
                        two = [p, q] if draw(st.booleans()) else [q, p]
                        if mro_ok(bases_list + [two]):
                            bases = two
                            has_diamond = True
            s = {i}
            for b in bases:
                s |= anc[b]
            anc.append(s)
            bases_list.append(bases)

        mode = draw(st.sampled_from(['implicit', 'implicit', 'str', 'int']))
        discr = {'mode': mode, 'attr': None, 'column': None}
        if mode != 'implicit':
            discr['attr'] = draw(st.sampled_from(['kind', 'classtype', 'dtype']))
            discr['column'] = draw(st.sampled_from([None, None, 'dcol']))
        used = set()
        discs = []
        if mode == 'int':
            vals = list(draw(st.permutations(list(range(-1, 9)))))[:n]
            discs = vals
        else:
            customs = []
            for i in range(n):
                customs.append(draw(st.one_of(st.none(), st.none(), st.sampled_from(STR_DISCR_POOL + names))))
            # effective values must be distinct: defaults (class names) are reserved first
            for i in range(n):
                if customs[i] is None:
                    used.add(names[i])
            for i in range(n):
                v = customs[i]
                if v is None:
                    discs.append(None)
                elif v not in used:
                    used.add(v)
                    discs.append(v)
                elif names[i] not in used:
                    used.add(names[i])
                    discs.append(None)
                else:
                    used.add(names[i] + '_')
                    discs.append(names[i] + '_')

        classes = []
        acount = 0
        for i in range(n):
            attrs = []
            for _ in range(draw(st.integers(0, 2))):
                attrs.append({'name': 'a%d' % acount, 'kind': draw(st.sampled_from(ATTR_KINDS))})
                acount += 1
            classes.append({'name': names[i], 'bases': bases_list[i], 'disc': discs[i], 'attrs': attrs})

        pk = draw(st.sampled_from([{'name': 'id', 'type': 'int', 'implicit': True},
                                   {'name': 'id', 'type': 'int', 'implicit': True},
                                   {'name': 'pk', 'type': 'int', 'implicit': False},
                                   {'name': 'code', 'type': 'str', 'implicit': False}]))
        spec = {'pk': pk, 'discr': discr, 'table': draw(st.sampled_from([None, None, 't_root'])),
                'classes': classes, 'reopen': draw(st.integers(0, 3)) == 0,
                'pk_step': draw(st.sampled_from([1, 1, 2, 5])) if pk['type'] == 'int' else 1,
                'observe': draw(st.sampled_from(['type', 'type', 'dict', 'subattr']))}

        # objects
        own = {}
        for i, c in enumerate(classes):
            for a in c['attrs']:
                own[a['name']] = (i, a['kind'])
        objects = []
        for i in range(n):
            lo = 1 if len(bases_list[i]) > 1 else 0          # a class with two bases always has an object
            for _ in range(draw(st.integers(lo, 3 if n <= 4 else 2))):
                vals = {}
                for name in sorted(own):
                    j, kind = own[name]
                    if j not in anc[i]:
                        continue
                    if kind == 'req_int' or draw(st.booleans()):
                        vals[name] = draw(st.sampled_from(STR_VALUES if kind.endswith('str') else INT_VALUES))
                objects.append({'cls': i, 'vals': vals})
        spec['objects'] = objects

        # Holder relationships
        nrefs = draw(st.integers(1, 4))
        refs = []
        targets = list(range(n)) + [b for bs in bases_list if len(bs) > 1 for b in bs] * 2   # favour diamond branches
        for k in range(nrefs):
            if k and draw(st.integers(0, 2)) == 0:      # a second to-one reference of the same declared type
                refs.append({'target': refs[k - 1]['target'], 'kind': 'one', 'fk': 'holder'})
                continue
            refs.append({'target': draw(st.sampled_from(targets)),
                         'kind': draw(st.sampled_from(['one', 'one', 'o2o', 'o2m', 'm2m'])),
                         'fk': draw(st.sampled_from(['holder', 'target']))})
        spec['refs'] = refs
        keyrefs, keyrows = [], {}
        for j in range(draw(st.sampled_from([0, 0, 1, 1, 2]))):
            kr = {'target': draw(st.sampled_from(targets)), 'composite': draw(st.booleans())}
            elig = [o for o, ob in enumerate(objects) if kr['target'] in anc[ob['cls']]]
            keyrows[str(j)] = [o for o in elig if draw(st.integers(0, 2)) > 0]
            keyrefs.append(kr)
        spec['keyrefs'], spec['keyrows'] = keyrefs, keyrows
        nh = spec['nholders'] = draw(st.integers(1, 3))
        links = {}
        for k, r in enumerate(refs):
            elig = [o for o, ob in enumerate(objects) if r['target'] in anc[ob['cls']]]
            pairs = []
            if r['kind'] in ('one', 'o2o'):
                taken = set()
                for h in range(nh):
                    if elig and draw(st.integers(0, 3)) > 0:
                        o = draw(st.sampled_from(elig))
                        if r['kind'] == 'o2o' and o in taken:
                            continue
                        taken.add(o)
                        pairs.append([h, o])
            elif r['kind'] == 'o2m':
                for o in elig:
                    if draw(st.integers(0, 3)) > 0:
                        pairs.append([draw(st.integers(0, nh - 1)), o])
            else:
                for h in range(nh):
                    for o in elig:
                        if draw(st.booleans()):
                            pairs.append([h, o])
            links[str(k)] = pairs
        spec['links'] = links

        # read program
        model = Model(spec)
        nobj = len(objects)
        to_one = [k for k, r in enumerate(refs) if r['kind'] in ('one', 'o2o')]
        to_many = [k for k, r in enumerate(refs) if r['kind'] in ('o2m', 'm2m')]

        def cls_idx():
            return draw(st.integers(0, n - 1))

        def cls_tuple():
            m = draw(st.integers(1, 3))
            return [draw(st.integers(-1 if m > 1 else 0, n - 1)) for _ in range(m)]

        def one_op():
            kind = draw(st.sampled_from(
                ['holder', 'holders', 'get', 'get', 'getk', 'get_attr', 'get_rev', 'select', 'select', 'sql', 'nav', 'nav',
                 'nav', 'isinst', 'isinst', 'isinst_rel', 'isinst_coll', 'subattr', 'subproj', 'join_attr', 'relobjs',
                 'missing', 'random', 'random', 'relpair', 'relpair', 'keynav', 'keynav', 'pickle_load']))
            if kind == 'holder':
                return ['holder', draw(st.integers(0, nh - 1))]
            if kind == 'holders':
                return ['holders']
            if kind in ('get', 'getk') and nobj:
                return [kind, cls_idx(), draw(st.integers(0, nobj - 1))]
            if kind == 'get_attr' and nobj:
                o = draw(st.integers(0, nobj - 1))
                c = draw(st.sampled_from(sorted(model.anc[objects[o]['cls']])))
                names_ = [a for a in model.attrs_of(c) if model.objs[o]['exp'].get(a) is not None]
                if names_:
                    return ['get_attr', c, o, draw(st.sampled_from(names_))]
            if kind == 'get_rev':
                # (get() by the column-less side of a one-to-one is refused by Pony with NotImplementedError)
                ks = [k for k in to_one if refs[k]['kind'] == 'o2o' and refs[k]['fk'] == 'target']
                if ks:
                    k = draw(st.sampled_from(ks))
                    c = draw(st.sampled_from(sorted(model.sub[refs[k]['target']])))
                    return ['get_rev', c, k, draw(st.integers(0, nh - 1))]
            if kind == 'select':
                return ['select', cls_idx(), draw(st.sampled_from(['gen', 'method', 'lambda']))]
            if kind == 'sql':
                return ['sql', cls_idx(), draw(st.booleans())]
            if kind == 'nav':
                k = draw(st.integers(0, nrefs - 1))
                return ['nav', k, draw(st.integers(0, nh - 1)), draw(st.sampled_from(['iter', 'copy', 'select']))]
            if kind == 'isinst':
                return ['isinst', cls_idx(), cls_tuple(), draw(st.booleans())]
            if kind == 'isinst_rel' and to_one:
                return ['isinst_rel', draw(st.sampled_from(to_one)), cls_tuple(), draw(st.booleans())]
            if kind == 'isinst_coll' and to_many:
                return ['isinst_coll', draw(st.sampled_from(to_many)), cls_tuple(), draw(st.booleans())]
            if kind in ('subattr', 'subproj'):
                c = cls_idx()
                names_ = model.related_attrs(c)
                if names_:
                    name = draw(st.sampled_from(names_))
                    if kind == 'subproj':
                        return ['subproj', c, name]
                    kindname = model.own[name][1]
                    return ['subattr', c, name, draw(st.sampled_from(STR_VALUES + ['dflt'] if kindname.endswith('str')
                                                                     else INT_VALUES))]
            if kind == 'join_attr':
                k = draw(st.integers(0, nrefs - 1))
                names_ = model.related_attrs(refs[k]['target'])
                if names_:
                    name = draw(st.sampled_from(names_))
                    kindname = model.own[name][1]
                    return ['join_attr', k, name, draw(st.sampled_from(STR_VALUES + ['dflt'] if kindname.endswith('str')
                                                                       else INT_VALUES))]
            if kind == 'relobjs':
                return ['relobjs', draw(st.integers(0, nrefs - 1)), draw(st.sampled_from(['obj', 'tuple']))]
            if kind == 'missing':
                return ['missing', cls_idx()]
            if kind == 'relpair' and len(to_one) >= 2:
                k1 = draw(st.sampled_from(to_one))
                same = [k for k in to_one if k != k1 and refs[k]['target'] == refs[k1]['target']]
                k2 = draw(st.sampled_from(same)) if same and draw(st.integers(0, 3)) else \
                    draw(st.sampled_from([k for k in to_one if k != k1]))
                return ['relpair', k1, k2]
            if kind == 'keynav' and keyrefs:
                return ['keynav', draw(st.integers(0, len(keyrefs) - 1)), draw(st.sampled_from(['select', 'method']))]
            if kind == 'pickle_load':
                return ['pickle_load', draw(st.integers(0, 2)), draw(st.integers(0, nrefs - 1)),
                        draw(st.sampled_from(['iter', 'copy', 'select']))]
            if kind == 'random':
                return ['random', cls_idx(), draw(st.integers(1, 3)), draw(st.sampled_from(['fast', 'fast', 'query']))]
            return ['select', cls_idx(), 'gen']

        sessions = []
        for _ in range(draw(st.integers(1, 3))):
            ops = []
            if draw(st.booleans()):      # meet the referenced objects as base-class stubs first
                ops.append(['holders'] if draw(st.booleans()) else ['holder', draw(st.integers(0, nh - 1))])
            for _ in range(draw(st.integers(1, 5))):
                ops.append(one_op())
            sessions.append(ops)
        if draw(st.integers(0, 2)) == 0:
            # objects pickled while their references are still unloaded, unpickled at the start of a later session
            what = draw(st.sampled_from(['holder', 'holder', 'holders', 'objects']))
            arg = draw(st.integers(0, nh - 1)) if what == 'holder' else (cls_idx() if what == 'objects' else 0)
            si = draw(st.integers(0, len(sessions) - 1))
            sessions[si].insert(0, ['pickle_dump', what, arg])
            load = ['pickle_load', 0, draw(st.integers(0, nrefs - 1)), draw(st.sampled_from(['iter', 'copy', 'select']))]
            if si + 1 < len(sessions) and draw(st.booleans()):
                sessions[si + 1].insert(0, load)
            else:
                sessions.insert(si + 1, [load])
        spec['sessions'] = sessions
        return spec

    return specs()


# ------------------------------------------------------------------------------------------------
# materialisation
# ------------------------------------------------------------------------------------------------
def _make_attr(kind):
    from pony.orm import Required, Optional
    if kind == 'req_int': return Required(int)
    if kind == 'opt_int': return Optional(int)
    if kind == 'opt_str': return Optional(str)
    if kind == 'reqdef_int': return Required(int, default=DEFAULTS[kind])
    if kind == 'reqdef_str': return Required(str, default=DEFAULTS[kind])
    if kind == 'lazy_int': return Optional(int, lazy=True)
    raise ValueError(kind)


def define(db, spec):
    """type(name, bases, attrs) for every class of the spec plus Holder; returns (entities, Holder)"""
    from pony.orm import Required, Optional, Set, PrimaryKey, Discriminator
    ents = []
    pk = spec['pk']
    for i, c in enumerate(spec['classes']):
        attrs = {}
        if i == 0:
            if not pk['implicit']:
                attrs[pk['name']] = PrimaryKey(int if pk['type'] == 'int' else str)
            d = spec['discr']
            if d['mode'] != 'implicit':
                kw = {'column': d['column']} if d['column'] else {}
                attrs[d['attr']] = Discriminator(str if d['mode'] == 'str' else int, **kw)
            if spec['table']:
                attrs['_table_'] = spec['table']
        if c['disc'] is not None:
            attrs['_discriminator_'] = c['disc']
        for a in c['attrs']:
            attrs[a['name']] = _make_attr(a['kind'])
        for k, r in enumerate(spec['refs']):
            if r['target'] != i:
                continue
            if r['kind'] == 'one':
                attrs['h%d' % k] = Set('Holder', reverse='r%d' % k)
            elif r['kind'] == 'o2o':
                kw = {'column': 'h%d_fk' % k} if r['fk'] == 'target' else {}
                attrs['h%d' % k] = Optional('Holder', reverse='r%d' % k, **kw)
            elif r['kind'] == 'o2m':
                attrs['h%d' % k] = Optional('Holder', reverse='r%d' % k)
            else:
                attrs['h%d' % k] = Set('Holder', reverse='r%d' % k)
        for j, kr in enumerate(spec.get('keyrefs', [])):
            if kr['target'] == i:
                attrs['k%d' % j] = (Set if kr['composite'] else Optional)('K%d' % j, reverse='ref')
        bases = tuple(ents[b] for b in c['bases']) or (db.Entity,)
        ents.append(type(str(c['name']), bases, attrs))
    hattrs = {'id': PrimaryKey(int)}
    for k, r in enumerate(spec['refs']):
        target = spec['classes'][r['target']]['name']
        if r['kind'] == 'one':
            hattrs['r%d' % k] = Optional(target, reverse='h%d' % k)
        elif r['kind'] == 'o2o':
            kw = {'column': 'r%d_fk' % k} if r['fk'] == 'holder' else {}
            hattrs['r%d' % k] = Optional(target, reverse='h%d' % k, **kw)
        else:
            hattrs['r%d' % k] = Set(target, reverse='h%d' % k)
    Holder = type('Holder', (db.Entity,), hattrs)
    keyents = []
    for j, kr in enumerate(spec.get('keyrefs', [])):
        target = spec['classes'][kr['target']]['name']
        if kr['composite']:
            from pony.orm.core import Index
            ref, num = Required(target, reverse='k%d' % j), Required(int)
            kattrs = {'ref': ref, 'n': num, '_indexes_': [Index(ref, num, is_pk=True)]}
        else:
            kattrs = {'ref': PrimaryKey(target, reverse='k%d' % j)}
        keyents.append(type('K%d' % j, (db.Entity,), kattrs))
    Holder._c27_keyents_ = keyents
    return ents, Holder


def open_db(spec, filename, create):
    from pony.orm import Database
    from pony.orm.core import ERDiagramError, MappingError, DBSchemaError
    db = Database()
    try:
        ents, Holder = define(db, spec)
        if filename == ':memory:':
            db.bind('sqlite', ':memory:')
        else:
            db.bind('sqlite', filename, create_db=create)
        db.generate_mapping(create_tables=create)
    except (ERDiagramError, MappingError, DBSchemaError, TypeError) as e:
        try: db.disconnect()
        except Exception: pass
        raise Rejected('%s: %s' % (type(e).__name__, e))
    return db, ents, Holder


def populate(db, ents, Holder, model):
    from pony.orm import db_session, flush
    spec = model.spec
    with db_session:
        objs = []
        for k, o in enumerate(spec['objects']):
            kw = dict(o['vals'])
            kw[model.pkname] = model.pk(k)
            objs.append(ents[o['cls']](**kw))
        flush()        # rows first, links afterwards (mutual foreign keys cannot be inserted in one go)
        holders = [Holder(id=h + 1) for h in range(spec['nholders'])]
        flush()
        for k, r in enumerate(spec['refs']):
            for (h, o) in model.links[k]:
                if r['kind'] in ('one', 'o2o'):
                    setattr(holders[h], 'r%d' % k, objs[o])
                else:
                    getattr(holders[h], 'r%d' % k).add(objs[o])
        for j, kr in enumerate(model.keyrefs):
            for o in model.keyrows[j]:
                if kr['composite']:
                    Holder._c27_keyents_[j](ref=objs[o], n=o + 1)
                else:
                    Holder._c27_keyents_[j](ref=objs[o])


# ------------------------------------------------------------------------------------------------
# read program interpreter + oracle
# ------------------------------------------------------------------------------------------------
class Reader(object):
    def __init__(self, model, ents, Holder, report, stats):
        self.m = model
        self.ents = ents
        self.Holder = Holder
        self.report = report          # report(focus, message) -> False when excluded (else raises)
        self.stats = stats
        self.G = {c['name']: ents[i] for i, c in enumerate(model.spec['classes'])}
        self.G['Holder'] = Holder
        self.G['isinstance'] = isinstance
        self.keyents = Holder._c27_keyents_
        for j, K in enumerate(self.keyents):
            self.G['K%d' % j] = K
        self.pickles = []
        # pickle stores classes by reference (module + name): give the type()-made classes an importable home
        import sys, types
        mod = sys.modules.get('c27_dynamic_entities')
        if mod is None:
            mod = sys.modules['c27_dynamic_entities'] = types.ModuleType('c27_dynamic_entities')
        for name in [n_ for n_ in vars(mod) if not n_.startswith('__')]:
            delattr(mod, name)
        for name, cls in self.G.items():
            if name != 'isinstance':
                cls.__module__ = 'c27_dynamic_entities'
                setattr(mod, name, cls)
        self.pk2o = {ob['pk']: o for o, ob in enumerate(model.objs)}

    # -- helpers ---------------------------------------------------------------------------------
    def ent(self, c):
        return self.Holder if c == -1 else self.ents[c]

    def bump(self, key, n=1):
        self.stats[key] = self.stats.get(key, 0) + n

    def fail(self, path, message, **detail):
        """detail: structured facts about the mismatch for the known-finding predicates (they never decide the verdict)"""
        focus = dict(self.focus, path=path)
        focus.update(detail)
        return self.report(focus, '[%s/%s] %s' % (self.focus['kind'], path, message))

    def pkof(self, obj):
        return getattr(obj, self.m.pkname)

    def check_obj(self, obj, o, static, path):
        """obj was reached by `path` whose declared class is `static`; it must be THE object created as objs[o]"""
        m = self.m
        ob = m.objs[o]
        want = m.cname(ob['cls'])
        if static != ob['cls']:
            self.bump('met_subclass_via_base')
        # what the program looks at first matters: an object handed out as an unloaded base-class stub is repaired by
        # the first read of a base attribute, so the first look is taken at the class, at to_dict() or at an attribute
        # that only the subclass has
        if m.observe == 'dict':
            if not self.check_dict(obj, o, path):
                return
        elif m.observe == 'subattr':
            names = [n_ for n_ in sorted(ob['exp']) if m.own[n_][0] not in m.anc[static]] if static != -1 else []
            for name in names:
                if not self.check_attr(obj, o, name, path + ' (first look)'):
                    return
        got = type(obj).__name__
        if got != want or type(obj) is not self.ents[ob['cls']]:
            ok = self.fail(path, 'object %s=%r was created as %s but reached through %s (declared %s) it is a %s'
                           % (m.pkname, ob['pk'], want, path, m.cname(static), got),
                           mismatch='type', obj=o, got_class=got, static=static)
            if ok is False:
                # open known finding: the object is still an unrefined stub; it must at least be refined by a load
                obj.load()
                got = type(obj).__name__
                if got != want:
                    self.fail(path + '+load', 'object %s=%r was created as %s; after load() through %s it is a %s'
                              % (m.pkname, ob['pk'], want, path, got))
                    return
        pk = self.pkof(obj)
        if pk != ob['pk']:
            self.fail(path, 'expected object %r, got object %r' % (ob['pk'], pk))
            return
        for name in sorted(ob['exp']):
            if not self.check_attr(obj, o, name, path):
                return
        if m.observe != 'dict':
            self.check_dict(obj, o, path)

    def check_attr(self, obj, o, name, path):
        m = self.m
        ob = m.objs[o]
        want = m.cname(ob['cls'])
        try:
            val = getattr(obj, name)
        except AttributeError as e:
            self.fail(path, 'attribute %s of %s[%r] (declared in %s) cannot be read: %s'
                      % (name, want, ob['pk'], m.cname(m.own[name][0]), e), mismatch='attr', obj=o)
            return False
        if val != ob['exp'][name] or type(val) is not type(ob['exp'][name]):
            self.fail(path, 'attribute %s of %s[%r] (declared in %s) reads %r, stored %r'
                      % (name, want, ob['pk'], m.cname(m.own[name][0]), val, ob['exp'][name]), mismatch='attr')
        return True

    def check_dict(self, obj, o, path):
        m = self.m
        ob = m.objs[o]
        exp = m.expected_dict(o)
        got = obj.to_dict()
        self.bump('to_dict_checks')
        if got != exp:
            self.fail(path, '%s[%r].to_dict() reached through %s gives %r, the stored object is %r'
                      % (m.cname(ob['cls']), ob['pk'], path, got, exp), mismatch='dict', obj=o)
            return False
        return True

    def check_objects(self, objs, expected, static, path, as_set=False):
        """objs: entity instances returned by pony; expected: object indexes"""
        m = self.m
        got = [self.pkof(x) for x in objs]
        exp = [m.objs[o]['pk'] for o in expected]
        if as_set:
            got_c, exp_c = sorted(set(got), key=repr), sorted(set(exp), key=repr)
        else:
            got_c, exp_c = sorted(got, key=repr), sorted(exp, key=repr)
        if got_c != exp_c:
            self.fail(path, 'returned %s %r, expected %r (created classes: %s)'
                      % (m.pkname, got_c, exp_c,
                         ', '.join('%r:%s' % (ob['pk'], m.cname(ob['cls'])) for ob in m.objs)))
            return
        for x in objs:
            self.check_obj(x, self.pk2o[self.pkof(x)], static, path)

    def classinfo_src(self, cs):
        if len(cs) == 1:
            return self.m.cname(cs[0])
        return '(%s)' % ', '.join(self.m.cname(c) for c in cs)

    def py_isinstance(self, o, cs, neg):
        r = any(self.m.is_inst(o, c) for c in cs)
        return (not r) if neg else r

    def select(self, text, locs=None):
        from pony.orm import select
        self.focus['query'] = text
        return select(text, self.G, locs or {})

    # -- program ---------------------------------------------------------------------------------
    def run(self):
        from pony.orm import db_session
        for si, ops in enumerate(self.m.spec['sessions']):
            with db_session:
                for oi, op in enumerate(ops):
                    self.focus = {'session': si, 'op': oi, 'kind': op[0], 'args': op[1:]}
                    try:
                        getattr(self, 'op_' + op[0])(*op[1:])
                    except (Stop, Rejected):
                        raise
                    except Exception as e:
                        if _is_framework_exc(e):
                            raise
                        ok = self.fail('exception', 'raised %s: %s' % (type(e).__name__, str(e)[:300]),
                                       mismatch='exception', exc=type(e).__name__, exc_text=str(e)[:300])
                        if ok is False:
                            break        # excluded: the session state is unknown, start the next session

    def op_holder(self, h):
        self.Holder[h + 1]

    def op_holders(self):
        got = sorted(x.id for x in self.select('(h for h in Holder)')[:])
        if got != list(range(1, self.m.spec['nholders'] + 1)):
            self.fail('holders', 'select over Holder returned %r' % got)

    def _get(self, c, o, fn, path):
        from pony.orm.core import ObjectNotFound
        m = self.m
        pk = m.objs[o]['pk']
        try:
            obj = fn(self.ents[c], pk)
        except ObjectNotFound:
            obj = None
        if m.is_inst(o, c):
            if obj is None:
                self.fail(path, '%s with %s=%r found nothing, but that object was created as %s, a subclass of %s'
                          % (path, m.pkname, pk, m.cname(m.objs[o]['cls']), m.cname(c)), mismatch='not_found', obj=o)
            else:
                self.check_obj(obj, o, c, path)
        elif obj is not None:
            self.fail(path, '%s with %s=%r returned a %s, but the object was created as %s which is not a %s'
                      % (path, m.pkname, pk, type(obj).__name__, m.cname(m.objs[o]['cls']), m.cname(c)))
        else:
            self.bump('not_instance_lookups')

    def op_get(self, c, o):
        self._get(c, o, lambda E, pk: E[pk], '%s[pk]' % self.m.cname(c))

    def op_getk(self, c, o):
        self._get(c, o, lambda E, pk: E.get(**{self.m.pkname: pk}), '%s.get(pk)' % self.m.cname(c))

    def op_get_attr(self, c, o, name):
        from pony.orm.core import MultipleObjectsFoundError
        m = self.m
        v = m.objs[o]['exp'][name]
        match = [o2 for o2 in m.instances(c) if m.objs[o2]['exp'].get(name) == v]
        path = '%s.get(%s=%r)' % (m.cname(c), name, v)
        try:
            obj = self.ents[c].get(**{name: v})
        except MultipleObjectsFoundError:
            if len(match) < 2:
                self.fail(path, 'MultipleObjectsFoundError, but only objects %r match' % [m.objs[x]['pk'] for x in match])
            return
        if len(match) > 1:
            self.fail(path, 'returned %r although objects %r match' % (obj, [m.objs[x]['pk'] for x in match]))
        elif not match:
            if obj is not None:
                self.fail(path, 'returned %r, no instance of %s matches' % (obj, m.cname(c)))
        elif obj is None:
            self.fail(path, 'returned None, object %r (created as %s) matches'
                      % (m.objs[match[0]]['pk'], m.cname(m.objs[match[0]]['cls'])))
        else:
            self.check_objects([obj], match, c, path)

    def op_get_rev(self, c, k, h):
        m = self.m
        o = m.ref_of(k, h)
        path = '%s.get(h%d=Holder[%d])' % (m.cname(c), k, h + 1)
        obj = self.ents[c].get(**{'h%d' % k: self.Holder[h + 1]})
        if o is not None and m.is_inst(o, c):
            if obj is None:
                self.fail(path, 'returned None, but the holder references %r created as %s'
                          % (m.objs[o]['pk'], m.cname(m.objs[o]['cls'])))
            else:
                self.check_objects([obj], [o], c, path)
        elif obj is not None:
            self.fail(path, 'returned %r, expected None' % (obj,))

    def op_select(self, c, form):
        m = self.m
        name = m.cname(c)
        if form == 'gen':
            path = 'select(x for x in %s)' % name
            res = self.select('(x for x in %s)' % name)[:]
        elif form == 'method':
            path = '%s.select()' % name
            res = self.ents[c].select()[:]
        else:
            path = '%s.select(lambda x: x.%s is not None)' % (name, m.pkname)
            res = self.ents[c].select('lambda x: x.%s is not None' % m.pkname)[:]
        self.check_objects(res, m.instances(c), c, path)

    def _lit(self, v):
        return str(v) if isinstance(v, int) else "'%s'" % v.replace("'", "''")

    def op_sql(self, c, partial):
        m = self.m
        values = ', '.join(self._lit(m.discr_value(j)) for j in sorted(m.sub[c]))
        cols = '*' if (c == 0 and not partial) else '"%s", "%s"' % (m.pkname, m.discr_column)
        sql = 'SELECT %s FROM "%s" WHERE "%s" IN (%s)' % (cols, m.table, m.discr_column, values)
        self.focus['query'] = sql
        res = self.ents[c].select_by_sql(sql, {}, {})
        self.check_objects(res, m.instances(c), c, '%s.select_by_sql' % m.cname(c))

    def op_nav(self, k, h, how):
        self._nav(self.Holder[h + 1], k, h, how, '')

    def _nav(self, holder, k, h, how, prefix):
        m = self.m
        r = m.spec['refs'][k]
        t = r['target']
        if r['kind'] in ('one', 'o2o'):
            path = prefix + 'Holder.r%d(%s->%s)' % (k, r['kind'], m.cname(t))
            val = getattr(holder, 'r%d' % k)
            o = m.ref_of(k, h)
            if o is None:
                if val is not None:
                    self.fail(path, 'Holder[%d].r%d is %r, expected None' % (h + 1, k, val))
            elif val is None:
                self.fail(path, 'Holder[%d].r%d is None, expected %r' % (h + 1, k, m.objs[o]['pk']))
            else:
                self.check_objects([val], [o], t, path)
        else:
            path = prefix + 'Holder.r%d(%s->%s).%s' % (k, r['kind'], m.cname(t), how)
            coll = getattr(holder, 'r%d' % k)
            if how == 'iter':
                items = list(coll)
            elif how == 'copy':
                items = list(coll.copy())
            else:
                items = coll.select()[:]
            self.check_objects(items, m.items_of(k, h), t, path)

    def op_isinst(self, c, cs, neg):
        m = self.m
        text = '(x for x in %s if %sisinstance(x, %s))' % (m.cname(c), 'not ' if neg else '', self.classinfo_src(cs))
        res = self.select(text)[:]
        exp = [o for o in m.instances(c) if self.py_isinstance(o, cs, neg)]
        self.bump('isinstance_queries')
        self.check_objects(res, exp, c, text)

    def op_isinst_rel(self, k, cs, neg):
        m = self.m
        text = '(h.id for h in Holder if %sisinstance(h.r%d, %s))' % ('not ' if neg else '', k, self.classinfo_src(cs))
        got = sorted(self.select(text)[:])
        exp, none_refs = [], []
        for h in range(m.spec['nholders']):
            o = m.ref_of(k, h)
            if o is None:
                none_refs.append(h + 1)
                if neg:
                    exp.append(h + 1)      # Python: isinstance(None, C) is False
            elif self.py_isinstance(o, cs, neg):
                exp.append(h + 1)
        self.bump('isinstance_queries')
        if got != exp:
            self.fail(text, 'returned holders %r, Python isinstance over the created classes gives %r (references: %s)'
                      % (got, exp, self._refs_desc(k)), mismatch='result', got=got, expected=exp, none_refs=none_refs)

    def _refs_desc(self, k):
        m = self.m
        out = []
        for h in range(m.spec['nholders']):
            if m.spec['refs'][k]['kind'] in ('one', 'o2o'):
                o = m.ref_of(k, h)
                out.append('%d->%s' % (h + 1, 'None' if o is None else '%r:%s' % (m.objs[o]['pk'], m.cname(m.objs[o]['cls']))))
            else:
                out.append('%d->[%s]' % (h + 1, ', '.join('%r:%s' % (m.objs[o]['pk'], m.cname(m.objs[o]['cls']))
                                                           for o in m.items_of(k, h))))
        return '; '.join(out)

    def op_isinst_coll(self, k, cs, neg):
        m = self.m
        text = '((h.id, x.%s) for h in Holder for x in h.r%d if %sisinstance(x, %s))' % (
            m.pkname, k, 'not ' if neg else '', self.classinfo_src(cs))
        got = sorted(self.select(text)[:], key=repr)
        exp = sorted(((h + 1, m.objs[o]['pk']) for (h, o) in m.links[k] if self.py_isinstance(o, cs, neg)), key=repr)
        self.bump('isinstance_queries')
        if got != exp:
            self.fail(text, 'returned %r, Python isinstance over the created classes gives %r (collections: %s)'
                      % (got, exp, self._refs_desc(k)))

    def op_subattr(self, c, name, v):
        m = self.m
        text = '(x for x in %s if x.%s == v)' % (m.cname(c), name)
        res = self.select(text, {'v': v})[:]
        exp = [o for o in m.instances(c) if m.value_in(o, name) == v]
        if m.own[name][0] not in m.anc[c]:
            self.bump('subclass_attr_queries')
        self.check_objects(res, exp, c, text + ' v=%r' % (v,))

    def op_subproj(self, c, name):
        m = self.m
        text = '((x.%s, x.%s) for x in %s)' % (m.pkname, name, m.cname(c))
        got = sorted(self.select(text)[:], key=repr)
        exp = sorted(((m.objs[o]['pk'], m.value_in(o, name)) for o in m.instances(c)), key=repr)
        if m.own[name][0] not in m.anc[c]:
            self.bump('subclass_attr_queries')
        if got != exp:
            self.fail(text, 'returned %r, stored %r' % (got, exp))

    def op_join_attr(self, k, name, v):
        m = self.m
        r = m.spec['refs'][k]
        if r['kind'] in ('one', 'o2o'):
            text = '(h.id for h in Holder if h.r%d.%s == v)' % (k, name)
            got = sorted(self.select(text, {'v': v})[:])
            exp = sorted(h + 1 for (h, o) in m.links[k] if m.value_in(o, name) == v)
        else:
            text = '((h.id, x.%s) for h in Holder for x in h.r%d if x.%s == v)' % (m.pkname, k, name)
            got = sorted(self.select(text, {'v': v})[:], key=repr)
            exp = sorted(((h + 1, m.objs[o]['pk']) for (h, o) in m.links[k] if m.value_in(o, name) == v), key=repr)
        if got != exp:
            self.fail(text + ' v=%r' % (v,), 'returned %r, expected %r (%s)' % (got, exp, self._refs_desc(k)))

    def op_relobjs(self, k, form):
        m = self.m
        r = m.spec['refs'][k]
        t = r['target']
        if r['kind'] in ('one', 'o2o'):
            if form == 'obj':
                text = '(h.r%d for h in Holder)' % k
                res = [x for x in self.select(text)[:] if x is not None]
                self.check_objects(res, [o for (h, o) in m.links[k]], t, text, as_set=True)
            else:
                text = '((h.id, h.r%d) for h in Holder)' % k
                rows = self.select(text)[:]
                pairs = [(hid, x) for (hid, x) in rows if x is not None]
                self._check_pairs(pairs, k, t, text)
        else:
            if form == 'obj':
                text = '(x for h in Holder for x in h.r%d)' % k
                res = self.select(text)[:]
                self.check_objects(res, [o for (h, o) in m.links[k]], t, text, as_set=True)
            else:
                text = '((h.id, x) for h in Holder for x in h.r%d)' % k
                self._check_pairs(self.select(text)[:], k, t, text)

    def _check_pairs(self, pairs, k, t, text):
        m = self.m
        got = sorted(((hid, self.pkof(x)) for (hid, x) in pairs), key=repr)
        exp = sorted(((h + 1, m.objs[o]['pk']) for (h, o) in m.links[k]), key=repr)
        if got != exp:
            self.fail(text, 'returned %r, expected %r' % (got, exp))
            return
        for (hid, x) in pairs:
            self.check_obj(x, self.pk2o[self.pkof(x)], t, text)

    def op_relpair(self, k1, k2):
        """tuple query with two entity-typed columns (often of the same declared type)"""
        m = self.m
        t1, t2 = m.spec['refs'][k1]['target'], m.spec['refs'][k2]['target']
        text = '((h.id, h.r%d, h.r%d) for h in Holder)' % (k1, k2)
        rows = self.select(text)[:]
        if t1 == t2:
            self.bump('pair_same_type')
        seen = {}
        for (hid, x, y) in rows:
            if hid in seen:
                self.fail(text, 'holder %r returned twice' % hid)
                return
            seen[hid] = (x, y)
        for h in range(m.spec['nholders']):
            o1, o2 = m.ref_of(k1, h), m.ref_of(k2, h)
            if h + 1 not in seen:
                if o1 is not None and o2 is not None:
                    self.fail(text, 'no row for holder %d whose references are both set' % (h + 1))
                    return
                continue                    # a row with a missing reference may be dropped by the join: not asserted
            for (x, o, t) in ((seen[h + 1][0], o1, t1), (seen[h + 1][1], o2, t2)):
                if (x is None) != (o is None):
                    self.fail(text, 'holder %d: got %r, expected %r' % (h + 1, x, None if o is None else m.objs[o]['pk']))
                    return
                if x is not None:
                    self.check_objects([x], [o], t, text)

    def op_keynav(self, j, form):
        """rows of K<j> (primary key = reference to the hierarchy, or (reference, n)) loaded without their targets, then
        the target is reached through the key attribute"""
        m = self.m
        kr = m.keyrefs[j]
        K = self.keyents[j]
        path = 'K%d.ref(%s->%s)' % (j, 'composite pk' if kr['composite'] else 'pk', m.cname(kr['target']))
        rows = self.select('(k for k in K%d)' % j)[:] if form == 'select' else K.select()[:]
        self.bump('keyref_navigations')
        got = []
        for krow in rows:
            obj = krow.ref
            if obj is None:
                self.fail(path, 'key reference is None')
                return
            pk = self.pkof(obj)
            got.append(pk)
            if pk in self.pk2o:
                self.check_obj(obj, self.pk2o[pk], kr['target'], path)
        exp = [m.objs[o]['pk'] for o in m.keyrows[j]]
        if sorted(got, key=repr) != sorted(exp, key=repr):
            self.fail(path, 'rows reference %r, stored %r' % (sorted(got, key=repr), sorted(exp, key=repr)))

    def op_pickle_dump(self, what, arg):
        """pickle objects of this session; they are unpickled by a later pickle_load (usually in a later session)"""
        import pickle
        if what == 'holder':
            self.pickles.append(('holder', arg, pickle.dumps(self.Holder[arg + 1])))
        elif what == 'holders':
            hs = sorted(self.select('(h for h in Holder)')[:], key=lambda x: x.id)
            self.pickles.append(('holders', None, pickle.dumps(hs)))
        else:
            objs = list(self.ents[arg].select()[:])
            self.pickles.append(('objects', arg, pickle.dumps(objs)))

    def op_pickle_load(self, i, k, how):
        import pickle
        m = self.m
        if not self.pickles:
            return
        what, arg, data = self.pickles[i % len(self.pickles)]
        loaded = pickle.loads(data)
        self.bump('unpickled')
        if what == 'objects':
            self.check_objects(loaded, m.instances(arg), arg, 'unpickled %s.select()' % m.cname(arg))
            return
        holders = [loaded] if what == 'holder' else loaded
        for holder in holders:
            h = holder.id - 1
            self._nav(holder, k, h, how, 'unpickled ')

    def op_random(self, c, limit, form):
        """C.select_random(limit) / C.select().random(limit): `limit` distinct stored instances of C (all of them when fewer
        exist), whichever they are.  Pony draws from the `random` module: seeded here so that a case replays identically."""
        import random
        m = self.m
        inst = m.instances(c)
        path = '%s.select_random(%d)' % (m.cname(c), limit) if form == 'fast' else '%s.select().random(%d)' % (m.cname(c), limit)
        state = random.getstate()
        random.seed(1000 * self.focus['session'] + self.focus['op'])
        try:
            res = self.ents[c].select_random(limit) if form == 'fast' else self.ents[c].select().random(limit)[:]
        finally:
            random.setstate(state)
        res = list(res)
        got = [self.pkof(x) for x in res]
        allowed = set(m.objs[o]['pk'] for o in inst)
        self.bump('random_queries')
        if c != 0:
            self.bump('random_nonroot')
        bad = [pk for pk in got if pk not in allowed]
        if bad or len(set(got)) != len(got) or len(got) != min(limit, len(inst)):
            self.fail(path, 'returned %s %r; expected %d distinct objects out of %r (created classes: %s)'
                      % (m.pkname, got, min(limit, len(inst)), sorted(allowed, key=repr),
                         ', '.join('%r:%s' % (ob['pk'], m.cname(ob['cls'])) for ob in m.objs)), mismatch='random')
            return
        for x in res:
            self.check_obj(x, self.pk2o[self.pkof(x)], c, path)

    def op_missing(self, c):
        from pony.orm.core import ObjectNotFound
        pk = MISSING_PK[self.m.pktype]
        try:
            obj = self.ents[c][pk]
        except ObjectNotFound:
            return
        self.fail('missing', '%s[%r] returned %r, no such object was created' % (self.m.cname(c), pk, obj))


def _is_framework_exc(e):
    from vlib.runner import Violation, StopRun, Inconclusive
    return isinstance(e, (Violation, StopRun, Inconclusive))


def execute(spec, workdir, report, stats):
    """build, populate, run the read program; report(focus, message) is called for every mismatch"""
    model = Model(spec)
    filename = ':memory:'
    tmp = None
    if spec.get('reopen'):
        tmp = tempfile.mkdtemp(prefix='c27_', dir=workdir)
        filename = os.path.join(tmp, 'db.sqlite')
    dbs = []
    try:
        db, ents, Holder = open_db(spec, filename, True)
        dbs.append(db)
        populate(db, ents, Holder, model)
        if spec.get('reopen'):
            db.disconnect()
            db, ents, Holder = open_db(spec, filename, False)
            dbs.append(db)
        Reader(model, ents, Holder, report, stats).run()
    finally:
        for d in dbs:
            try: d.disconnect()
            except Exception: pass
        if tmp:
            shutil.rmtree(tmp, ignore_errors=True)
    return model
