"""C04 judges: (1) ast2src round trip, (2) external expressions inside real queries on live SQLite.

A *case* is plain JSON (see judge_l1 / judge_l2) and is all that replay needs.  Both judges return a dict
    {'status': 'ok' | 'fail' | 'rejected' | 'inconclusive', 'message': str, 'classes': [...], 'features': [...]}
and never call into hypothesis.
"""
import ast
import copy
import datetime
import math
import warnings
from decimal import Decimal

from vlib import c04_gen as G

QUERY_VAR = 'x'
SUPPORTED_VALUE_TYPES = (int, str, float, Decimal, datetime.date, bool, type(None))

# ------------------------------------------------------------------------------------------------------
# syntactic features of an expression tree = the root causes an exclusion may name

OPERATOR_PARENTS = (ast.BinOp, ast.UnaryOp, ast.BoolOp, ast.Compare)
LOW_PRECEDENCE_BASES = (ast.BinOp, ast.UnaryOp, ast.BoolOp, ast.Compare)


def _is_postfix_base(parent, field):
    return (isinstance(parent, (ast.Attribute, ast.Subscript)) and field == 'value') or \
           (isinstance(parent, ast.Call) and field == 'func')


def _leftmost(node):
    while True:
        if isinstance(node, ast.BinOp): node = node.left
        elif isinstance(node, ast.Compare): node = node.left
        elif isinstance(node, ast.BoolOp): node = node.values[0]
        elif isinstance(node, ast.IfExp): node = node.body
        elif isinstance(node, (ast.Attribute, ast.Subscript)): node = node.value
        elif isinstance(node, ast.Call): node = node.func
        else: return node


def _is_negative_number(node):
    return isinstance(node, ast.Constant) and type(node.value) in (int, float) and repr(node.value).startswith('-')


def features(tree):
    """set of root-cause tags present in the tree (the tree ast2src is actually given: parsed or decompiled)"""
    tags = set()

    def visit(node, parent, field):
        if isinstance(node, ast.IfExp):
            if isinstance(parent, OPERATOR_PARENTS) or _is_postfix_base(parent, field) \
                    or (isinstance(parent, ast.IfExp) and field in ('test', 'body')) \
                    or isinstance(parent, ast.comprehension):
                tags.add('ifexp_prio')
        elif isinstance(node, ast.Lambda):
            if isinstance(parent, OPERATOR_PARENTS) or _is_postfix_base(parent, field) \
                    or (isinstance(parent, ast.IfExp) and field in ('test', 'body')) \
                    or isinstance(parent, ast.FormattedValue):
                tags.add('lambda_prio')
            a = node.args
            if a.posonlyargs or a.kwonlyargs:
                tags.add('lambda_args')
        elif isinstance(node, LOW_PRECEDENCE_BASES):
            if _is_postfix_base(parent, field):
                tags.add('postfix_base')
        elif _is_negative_number(node):
            if _is_postfix_base(parent, field) or (isinstance(parent, ast.BinOp) and isinstance(parent.op, ast.Pow)
                                                   and field == 'left'):
                tags.add('neg_const')
        if isinstance(node, ast.FormattedValue):
            if node.format_spec is not None:
                tags.add('fstr_spec')
            if not isinstance(parent, ast.JoinedStr):
                tags.add('lone_fvalue')
            if isinstance(_leftmost(node.value), (ast.Dict, ast.Set, ast.DictComp, ast.SetComp)):
                tags.add('fstr_lbrace')
        if isinstance(node, ast.JoinedStr) and not node.values:
            tags.add('empty_joinedstr')
        if isinstance(node, ast.JoinedStr):
            body = []
            exprs = []
            for v in node.values:
                if isinstance(v, ast.Constant) and isinstance(v.value, str):
                    body.append(v.value)
                    if '{' in v.value or '}' in v.value:
                        tags.add('fstr_brace')
                elif isinstance(v, ast.FormattedValue):
                    try:
                        txt = ast.unparse(v.value)
                    except Exception:
                        txt = ''
                    exprs.append(txt)
                    body.append(txt)
            whole = ''.join(body)
            if any('\\' in t for t in exprs) or ("'" in whole and '"' in whole and any("'" in t for t in exprs)):
                tags.add('fstr_escape')
        for fld, value in ast.iter_fields(node):
            if isinstance(value, ast.AST):
                visit(value, node, fld)
            elif isinstance(value, list):
                for item in value:
                    if isinstance(item, ast.AST):
                        visit(item, node, fld)

    visit(tree, None, None)
    return tags


PRECEDENCE_LEVEL = {ast.Or: 'or', ast.And: 'and', ast.Not: 'not', ast.BitOr: '|', ast.BitXor: '^', ast.BitAnd: '&',
                    ast.LShift: 'shift', ast.RShift: 'shift', ast.Add: 'arith', ast.Sub: 'arith', ast.Mult: 'term',
                    ast.Div: 'term', ast.FloorDiv: 'term', ast.Mod: 'term', ast.MatMult: 'term', ast.USub: 'unary',
                    ast.UAdd: 'unary', ast.Invert: 'unary', ast.Pow: 'pow'}


def shape(tree):
    """(set of precedence levels of the operators used, has f-string, has negative constant)"""
    levels = set()
    fstr = neg = False
    for node in ast.walk(tree):
        if isinstance(node, (ast.BinOp, ast.UnaryOp, ast.BoolOp)):
            levels.add(PRECEDENCE_LEVEL.get(type(node.op), 'op'))
            if isinstance(node, ast.UnaryOp) and isinstance(node.op, ast.USub) and isinstance(node.operand, ast.Constant):
                neg = True
        elif isinstance(node, ast.Compare): levels.add('compare')
        elif isinstance(node, ast.IfExp): levels.add('ifexp')
        elif isinstance(node, ast.Lambda): levels.add('lambda')
        elif isinstance(node, (ast.Attribute, ast.Subscript, ast.Call)): levels.add('postfix')
        elif isinstance(node, (ast.JoinedStr, ast.FormattedValue)): fstr = True
        elif _is_negative_number(node): neg = True
    return levels, fstr, neg


def has_boolean_shape(tree):
    return any(isinstance(n, (ast.BoolOp, ast.IfExp)) or (isinstance(n, ast.UnaryOp) and isinstance(n.op, ast.Not))
               for n in ast.walk(tree))


def nontrivial_shape(tree):
    levels, fstr, neg = shape(tree)
    return len(levels) >= 2 or fstr or neg


# ------------------------------------------------------------------------------------------------------
# outcomes of evaluating an expression

def canon(v):
    t = type(v)
    if t is float:
        if math.isnan(v): return ('float', 'nan')
        return ('float', repr(v))
    if t in (int, bool, str, bytes, complex, type(None), Decimal, datetime.date, datetime.timedelta, datetime.datetime):
        return (t.__name__, repr(v))
    if t in (tuple, list):
        return (t.__name__, [canon(x) for x in v])
    if t in (set, frozenset):
        return (t.__name__, sorted(repr(canon(x)) for x in v))
    if t is dict:
        return ('dict', sorted((repr(canon(k)), canon(x)) for k, x in v.items()))
    if callable(v) and not isinstance(v, type):
        return ('callable', getattr(v, '__name__', '?'))
    return (t.__name__, repr(v))


def outcome(code, namespace):
    try:
        v = eval(code, namespace)
    except RecursionError:
        raise
    except Exception as e:
        return ('raise', type(e).__name__)
    return ('value', canon(v))


def l1_namespace(env):
    ns = dict(G.BASE_GLOBALS)
    ns.update(G.decode_env(env))
    return ns


def free_env_names(text, env):
    names = set()
    for node in ast.walk(ast.parse(text, mode='eval')):
        if isinstance(node, ast.Name) and node.id in env:
            names.add(node.id)
    return sorted(names)


class Rejected(Exception):
    def __init__(self, cls, detail=''):
        Exception.__init__(self, cls)
        self.cls = cls
        self.detail = detail


def tree_of(case):
    """the expression tree handed to ast2src: parsed from text, or rebuilt by pony's decompiler from a compiled lambda"""
    text = case['expr']
    if case['tree'] == 'parse':
        return ast.parse(text, mode='eval').body
    from pony.orm.decompiling import Decompiler
    env = case['env']
    names = free_env_names(text, env)
    mode = case.get('mode', 'global')
    ns = dict(G.BASE_GLOBALS)
    if mode == 'global' or not names:
        fn = eval(compile('lambda: (%s)' % text, '<c04 lambda>', 'eval'), ns)
    elif mode == 'fast':
        fn = eval(compile('lambda %s: (%s)' % (', '.join(names), text), '<c04 lambda>', 'eval'), ns)
    else:
        src = 'def _mk(%s):\n    return lambda: (%s)\n' % (', '.join(names), text)
        exec(compile(src, '<c04 lambda>', 'exec'), ns)
        fn = ns['_mk'](*[None] * len(names))
    try:
        return Decompiler(fn.__code__).ast
    except RecursionError:
        raise
    except Exception as e:     # the decompiler may refuse (C03's subject, not C04's)
        raise Rejected('decompiler_refused', '%s: %s' % (type(e).__name__, e))


def compile_tree(tree):
    node = ast.Expression(copy.deepcopy(tree))
    ast.fix_missing_locations(node)
    return compile(node, '<c04 direct>', 'eval')


def regenerate(tree):
    """ast2src + compile of its output; raises Rejected for the loud outcomes"""
    from pony.orm.asttranslation import ast2src
    try:
        src = ast2src(tree)
    except RecursionError:
        raise
    except Exception as e:
        raise Rejected('ast2src_raised', '%s: %s' % (type(e).__name__, e))
    if not isinstance(src, str):
        raise Rejected('ast2src_raised', 'returned %r' % (src,))
    try:
        with warnings.catch_warnings():
            warnings.simplefilter('ignore')
            code = compile(src, '<pony %s>' % src, 'eval')
    except (SyntaxError, ValueError) as e:
        raise Rejected('regenerated_text_does_not_compile', '%r: %s' % (src, e))
    return src, code


def judge_l1(case):
    """case: {'level': 1, 'expr': text, 'tree': 'parse'|'decomp', 'mode': 'global'|'deref'|'fast', 'env': env}"""
    res = {'status': 'ok', 'message': '', 'classes': ['L1', 'L1:' + case['tree']], 'features': [], 'nontrivial': False}
    try:
        tree = tree_of(case)
    except Rejected as r:
        res.update(status='rejected', message=r.detail)
        res['classes'].append('rej:' + r.cls)
        return res
    feats = sorted(features(tree))
    res['features'] = feats
    nt = nontrivial_shape(tree)
    try:
        ref = compile_tree(tree)
    except (TypeError, ValueError, SyntaxError) as e:
        res.update(status='inconclusive', message='tree cannot be compiled directly: %s' % e)
        return res
    try:
        src, got = regenerate(tree)
    except Rejected as r:
        res.update(status='rejected', message=r.detail)
        res['classes'].append('rej:' + r.cls)
        return res
    res['nontrivial'] = nt
    res['src'] = src
    ns = l1_namespace(case['env'])
    o_ref = outcome(ref, dict(ns))
    o_got = outcome(got, dict(ns))
    res['classes'].append('L1:' + o_ref[0])
    if o_ref != o_got:
        res['status'] = 'fail'
        res['message'] = ('ast2src changed the meaning of %s tree of %r: regenerated as %r; original evaluates to %r, '
                          'regenerated text to %r' % ('the parsed' if case['tree'] == 'parse' else "the decompiler's",
                                                      case['expr'], src, o_ref, o_got))
    return res


# ------------------------------------------------------------------------------------------------------
# level 2: real queries

class Row(object):
    def __init__(self, **kw):
        self.__dict__.update(kw)

    def __repr__(self):
        return 'Row(%s)' % ', '.join('%s=%r' % kv for kv in sorted(self.__dict__.items()))


def make_db():
    from pony.orm import Database, PrimaryKey, Required, Optional
    db = Database()

    class E(db.Entity):
        id = PrimaryKey(int)
        i = Required(int, size=64)
        j = Required(int, size=64)
        s = Optional(str, autostrip=False)
        f = Required(float)
        d = Required(Decimal, 24, 8)
        dt = Required(datetime.date)
        b = Required(bool)
        n = Optional(int, size=64)
    db.bind('sqlite', ':memory:')
    db.generate_mapping(create_tables=True)
    return db, E


DEFAULT_ROW = {'i': 0, 'j': 0, 's': 'a', 'f': 0.5, 'd': Decimal('1.5'), 'dt': datetime.date(2020, 1, 1), 'b': True, 'n': None}


def maximal_external_subtrees(tree, bound=(QUERY_VAR,)):
    """maximal subtrees that do not mention the query variable (Load names only; constants alone are skipped)"""
    out = []

    def mentions(node):
        return any(isinstance(n, ast.Name) and n.id in bound for n in ast.walk(node))

    def visit(node):
        if isinstance(node, ast.expr) and not mentions(node):
            if not isinstance(node, ast.Constant):
                out.append(node)
            return
        for child in ast.iter_child_nodes(node):
            if isinstance(child, (ast.expr, ast.comprehension, ast.keyword, ast.Slice)):
                visit(child)
    visit(tree)
    return out


def value_column(v):
    t = type(v)
    if t is bool: return 'b'
    if t is int: return 'i'
    if t is str: return 's'
    if t is float: return 'f'
    if t is Decimal: return 'd'
    if t is datetime.date: return 'dt'
    if v is None: return 'n'
    return None


def in_domain(v):
    t = type(v)
    if t is int: return abs(v) < 2 ** 62
    if t is float: return math.isfinite(v) and abs(v) < 1e15
    if t is Decimal: return v.is_finite() and abs(v) < 10 ** 12 and v == v.quantize(Decimal('0.00000001')) \
        and len(v.as_tuple().digits) <= 15
    if t is str: return len(v) <= 200 and '\x00' not in v
    if t is datetime.date: return True
    return True


def decoys_for(v):
    t = type(v)
    if t is bool: return [not v]
    if t is int: return [v + 1, v - 1, -v, 0, v * 2 + 3]
    if t is str: return [v + 'x', v[:-1], 'zz', v.upper() + '_', ' ' + v]
    if t is float: return [v + 1.0, -v - 0.5, v * 2 + 0.25]
    if t is Decimal: return [v + 1, -v - 1, v + Decimal('0.01')]
    if t is datetime.date:
        out = []
        for k in (1, -1, 30):
            try: out.append(v + datetime.timedelta(days=k))
            except OverflowError: pass
        return out
    return [5, 0]


class Scope(object):
    """materialises the caller's scope of a case: module globals, closure cells, locals (with shadowed decoys)"""

    def __init__(self, case, E):
        from pony import orm
        env = G.decode_env(case['env'])
        scopes = case['scopes']
        self.globals = dict(G.BASE_GLOBALS)
        self.globals.update({'E': E, 'select': orm.select})
        self.globals.update(G.decode_env(case.get('decoys', {})))
        self.case_decoys = case.get('decoys', {})
        self.cnames = sorted(n for n in env if scopes.get(n, 'g') == 'c')
        self.lnames = sorted(n for n in env if scopes.get(n, 'g') == 'l')
        for n in env:
            if scopes.get(n, 'g') == 'g':
                self.globals[n] = env[n]
        self.env = env

    def build(self, body_lines):
        """exec a two-level function; body_lines are the statements of the inner (calling) function"""
        touch = '(%s)' % ''.join(n + ', ' for n in self.cnames)
        lines = ['def _outer(%s):' % ', '.join(self.cnames),
                 '    def _inner(_form%s):' % ''.join(', ' + n for n in self.lnames),
                 '        _touch = %s' % touch]
        lines += ['        ' + ln for ln in body_lines]
        lines += ['    return _inner', '']
        g = dict(self.globals)
        exec(compile('\n'.join(lines), '<c04 caller>', 'exec'), g)
        inner = g['_outer'](*[self.env[n] for n in self.cnames])
        largs = [self.env[n] for n in self.lnames]
        return lambda form: inner(form, *largs)

    def build_far(self, lam_text):
        """the lambda is made by a factory (its non-global names are closure cells holding the real values) and handed to
        Pony from ANOTHER function whose locals bind the same names to decoy values: Python's answer is the cell's"""
        names = self.cnames + self.lnames
        decoys = G.decode_env(self.case_decoys)
        dnames = [n for n in names if n in decoys]
        lines = ['def _mk(%s):' % ', '.join(names),
                 '    return %s' % lam_text,
                 'def _caller(_form, _f%s):' % ''.join(', ' + n for n in dnames),
                 "    if _form == 'lam_far': return E.select(_f)",
                 "    if _form == 'filt_far': return E.select().filter(_f)",
                 "    return select(x for x in E).where(_f)",
                 '']
        g = dict(self.globals)
        exec(compile('\n'.join(lines), '<c04 far caller>', 'exec'), g)
        f = g['_mk'](*[self.env[n] for n in names])
        dvals = [decoys[n] for n in dnames]

        def run(form):
            if form in ('py', 'lam_obj'):
                return f
            return g['_caller'](form, f, *dvals)
        return run

    def build_far_gen(self, lam_text, gen_text, id_gen_text):
        """the GENERATOR is made by a helper (its non-global names are that helper's locals, i.e. cells of the generator)
        and handed to select() / count() / exists() / max() from ANOTHER function whose locals bind the same names to decoy
        values; pony's aggregate wrappers add their own locals (arg, args, kwargs, iterator) on the way.  Python's answer
        is the generator's own binding."""
        names = self.cnames + self.lnames
        decoys = G.decode_env(self.case_decoys)
        dnames = []
        dvals = []
        for n in names:
            v = self.env[n]
            if n in decoys:
                d = decoys[n]
            elif type(v) is int:
                d = v + 17
            elif type(v) is str:
                d = v + 'DECOY'
            else:
                continue
            dnames.append(n)
            dvals.append(d)
        lines = ['def _mk(%s):' % ', '.join(names),
                 '    return %s' % lam_text,
                 'def _mkg(_which%s):' % ''.join(', ' + n for n in names),
                 "    if _which == 'ids': return (%s)" % id_gen_text,
                 '    return (%s)' % gen_text,
                 'def _caller(_form, _g%s):' % ''.join(', ' + n for n in dnames),
                 "    if _form == 'gen_far': return select(_g)",
                 "    if _form == 'gen_far_count': return _count(_g)",
                 "    if _form == 'gen_far_exists': return _exists(_g)",
                 "    if _form == 'gen_far_max': return _max(_g)",
                 "    raise ValueError(_form)",
                 '']
        from pony import orm
        g = dict(self.globals)
        g.update({'_count': orm.count, '_exists': orm.exists, '_max': orm.max})
        exec(compile('\n'.join(lines), '<c04 far generator>', 'exec'), g)
        vals = [self.env[n] for n in names]
        f = g['_mk'](*vals)

        def run(form):
            if form == 'py':
                return f
            which = 'ids' if form in ('gen_far_max', 'ids_obj') else 'rows'
            gen = g['_mkg'](which, *vals)
            if form in ('gen_obj', 'ids_obj'):
                return gen
            return g['_caller'](form, gen, *dvals)
        return run

    def merged(self):
        """flat namespace by Python's scoping rule (used only to pre-screen the decompiler, never as the oracle)"""
        ns = dict(self.globals)
        for n in self.cnames + self.lnames:
            ns[n] = self.env[n]
        return ns


FAR_FORMS = ('lam_far', 'filt_far', 'where_far')
GEN_FAR_FORMS = ('gen_far', 'gen_far_count', 'gen_far_exists', 'gen_far_max')
COMPILED_FORMS = ('gen', 'lam', 'filt', 'where') + FAR_FORMS + GEN_FAR_FORMS
COND_FORMS = ('str', 'str_ns', 'str_lam', 'gen', 'lam', 'filt', 'where') + FAR_FORMS + GEN_FAR_FORMS
ELT_FORMS = ('str', 'str_ns', 'gen', 'gen_far')
# in the far generator forms the int names are spelled like the locals of pony's aggregate wrappers (make_aggrfunc)
WRAPPER_LOCALS = {'a': 'arg', 'b': 'args', 'c': 'kwargs', 'n': 'iterator'}


AGGREGATES = {'gen_far_count': len, 'gen_far_exists': bool, 'gen_far_max': lambda ids: max(ids) if ids else None}


def rename_case(case, mapping):
    """the same case with some caller-scope names spelled differently (values, scopes and decoys follow the names);
    the renamed names are never module globals"""
    class R(ast.NodeTransformer):
        def visit_Name(self, node):
            return ast.copy_location(ast.Name(mapping.get(node.id, node.id), node.ctx), node)
    tree = R().visit(ast.parse(case['expr'], mode='eval'))
    ren = lambda d: dict((mapping.get(k, k), v) for k, v in d.items())
    out = dict(case, expr=ast.unparse(tree), env=ren(case['env']), scopes=ren(case['scopes']), decoys=ren(case.get('decoys', {})))
    for new in mapping.values():
        if out['scopes'].get(new, 'g') == 'g':
            out['scopes'][new] = 'c'
    return out


def typed_equal(a, b):
    if type(a) is tuple and type(b) is tuple:
        return len(a) == len(b) and all(typed_equal(p, q) for p, q in zip(a, b))
    if type(a) is not type(b):
        return False
    if type(a) is float and math.isnan(a):
        return math.isnan(b)
    return a == b


def _allowed_rejection(e):
    from pony.orm.core import TranslationError
    return isinstance(e, (TranslationError, NotImplementedError, TypeError, OverflowError))


def judge_l2(case, dbE=None):
    """case: {'level': 2, 'kind': 'eq'|'mixed', 'part': 'cond'|'elt', 'expr': text, 'flip': bool, 'form': ..,
              'env': env, 'scopes': {name: 'g'|'l'|'c'}, 'decoys': {name: value}}
    kind 'eq':    expr is an external expression; the query is `x.<col> == expr` (cond) or `(x.id, expr)` (elt)
    kind 'mixed': expr is a condition / result-tuple tail mentioning the query variable x"""
    from pony.orm import db_session, rollback, commit
    from pony.orm.core import ExprEvalError
    if dbE is None:
        dbE = make_db()
    db, E = dbE
    form = case['form']
    if form in GEN_FAR_FORMS:
        case = rename_case(case, WRAPPER_LOCALS)
    res = {'status': 'ok', 'message': '', 'classes': ['L2', 'L2:' + case['kind'], 'L2:' + case['part'], 'form:' + form],
           'features': [], 'nontrivial': False}
    scope = Scope(case, E)
    expr = case['expr']
    tree = ast.parse(expr, mode='eval').body

    # ---- stage 1: Python evaluates every external part in the caller's scope (the oracle's values) -------------
    if case['kind'] == 'eq':
        ext_nodes = [tree]
    else:
        ext_nodes = maximal_external_subtrees(tree)
    ext_texts = [ast.unparse(n) for n in ext_nodes]
    run1 = scope.build(['return [%s]' % ''.join('lambda: (%s), ' % t for t in ext_texts)])
    values = []
    py_raised = None
    for thunk in run1('ext'):
        try:
            values.append(thunk())
        except RecursionError:
            raise
        except Exception as e:
            py_raised = e
            values.append(e)
    feats = set()
    nt = False
    for n in ext_nodes:
        feats |= features(n)
        nt = nt or nontrivial_shape(n)
    res['features'] = sorted(feats)

    if form in FAR_FORMS:
        # root cause of its own: PreTranslator.postCall looks the called name up with eval(name, globals, locals) and is
        # not given the lambda's closure cells
        for n in ext_nodes:
            for c in ast.walk(n):
                if isinstance(c, ast.Call):
                    f = c.func
                    while isinstance(f, ast.Attribute):
                        f = f.value
                    if isinstance(f, ast.Name) and case['scopes'].get(f.id, 'g') != 'g':
                        feats.add('far_call_cell')
        res['features'] = sorted(feats)

    # ---- the query text ----------------------------------------------------------------------------------------
    if case['kind'] == 'eq':
        v = values[0]
        col = (value_column(v) if py_raised is None else None) or 'i'
        if py_raised is None and not in_domain(v):
            res.update(status='inconclusive', message='value outside the storable domain: %r' % (v,))
            res['classes'].append('out_of_domain')
            return res
        if case['part'] == 'cond':
            q_expr = ('(%s) == x.%s' if case.get('flip') else 'x.%s == (%s)')
            q_expr = q_expr % ((expr, col) if case.get('flip') else (col, expr))
        else:
            q_expr = '(x.id, (%s))' % expr
        res['classes'].append('type:' + (type(v).__name__ if py_raised is None else 'raises'))
    else:
        if py_raised is None:
            for v in values:
                if type(v) in (int, float) and not abs(v) <= 1000:
                    res.update(status='inconclusive', message='external value too large for SQL integer arithmetic: %r' % (v,))
                    res['classes'].append('out_of_domain')
                    return res
                if not in_domain(v):
                    res.update(status='inconclusive', message='value outside the storable domain: %r' % (v,))
                    res['classes'].append('out_of_domain')
                    return res
        if case['part'] == 'cond':
            q_expr = expr
        else:
            elts = tree.elts if isinstance(tree, ast.Tuple) else [tree]
            q_expr = '(x.id, %s)' % ', '.join('(%s)' % ast.unparse(e) for e in elts)
    q_expr = ast.unparse(ast.parse(q_expr, mode='eval'))
    if case['part'] == 'cond':
        gen_text = 'x for x in E if ' + q_expr
        lam_text = 'lambda x: ' + q_expr
    else:
        gen_text = '%s for x in E' % q_expr
        lam_text = 'lambda x: ' + q_expr
    res['query'] = gen_text

    body = ['_f = %s' % lam_text,
            "if _form == 'py': return _f",
            "if _form == 'lam_obj': return _f"]
    if form == 'str':
        body.append('return select(%r)' % gen_text)
    elif form == 'str_ns':
        body.append('return select(%r, globals(), locals())' % gen_text)
    elif form == 'str_lam':
        body.append('return E.select(%r)' % lam_text)
    elif form == 'gen':
        body += ['_g = (%s)' % gen_text, "if _form == 'gen_obj': return _g", 'return select(_g)']
    elif form == 'lam':
        body.append('return E.select(_f)')
    elif form == 'filt':
        body.append('return E.select().filter(_f)')
    elif form == 'where':
        body.append('return select(x for x in E).where(_f)')
    elif form not in FAR_FORMS + GEN_FAR_FORMS:
        raise ValueError(form)
    if form in GEN_FAR_FORMS:
        run2 = scope.build_far_gen(lam_text, gen_text, 'x.id for x in E if ' + q_expr if case['part'] == 'cond' else gen_text)
    elif form in FAR_FORMS:
        run2 = scope.build_far(lam_text)
    else:
        run2 = scope.build(body)
    pyfunc = run2('py')

    # ---- rows: chosen by Python evaluation so that the expected answer discriminates ------------------------------
    rows = []
    if py_raised is None:
        if case['kind'] == 'eq':
            if case['part'] == 'cond':
                vals = ([v] + [d for d in decoys_for(v) if in_domain(d)]) if value_column(v) else [0, 5]
                seen = []
                for d in vals:
                    if not any(typed_equal(d, s) for s in seen):
                        seen.append(d)
                for d in seen:
                    r = dict(DEFAULT_ROW)
                    r[col] = d
                    rows.append(r)
            else:
                rows = [dict(DEFAULT_ROW), dict(DEFAULT_ROW, i=5)]
        elif case['part'] == 'elt':
            rows = [dict(DEFAULT_ROW, i=-2, j=3, s='a'), dict(DEFAULT_ROW, i=0, j=-1, s=''),
                    dict(DEFAULT_ROW, i=7, j=2, s='bc ')]
        else:
            cands = [dict(DEFAULT_ROW, i=i, j=j) for i in sorted(range(-12, 13), key=lambda k: (abs(k), k)) for j in (-1, 2)]
            strs = ['', 'a', 'ab']
            for w in values:
                if type(w) is str and len(w) <= 14:
                    strs += [w[p:q] for p in range(len(w) + 1) for q in range(p, len(w) + 1)]
            seen = set()
            for w in strs:
                if w not in seen:
                    seen.add(w)
                    cands.append(dict(DEFAULT_ROW, i=1, j=2, s=w))
            t_rows, f_rows = [], []
            for r in cands[:400]:
                try:
                    ok = bool(pyfunc(Row(id=0, **r)))
                except RecursionError:
                    raise
                except Exception as e:
                    res.update(status='inconclusive', message='Python raises for a row: %s' % type(e).__name__)
                    res['classes'].append('py_row_raises')
                    return res
                (t_rows if ok else f_rows).append(r)
            rows = t_rows[:3] + f_rows[:3]
            if t_rows and f_rows:
                res['classes'].append('discriminating_rows')
    for k, r in enumerate(rows):
        r['id'] = k + 1

    with db_session:
        E.select().delete(bulk=True)
        stored = []
        for r in rows:
            obj = E(**r)
            stored.append(Row(**dict((a, getattr(obj, a)) for a in r)))
        commit()

    expected = None
    if py_raised is None:
        try:
            if case['part'] == 'cond':
                expected = sorted(r.id for r in stored if pyfunc(r))
            else:
                expected = sorted((tuple(pyfunc(r)) for r in stored), key=lambda t: t[0])
        except RecursionError:
            raise
        except Exception as e:
            res.update(status='inconclusive', message='Python raises for a row: %s' % type(e).__name__)
            res['classes'].append('py_row_raises')
            return res
    else:
        res['classes'].append('python_raises')

    # ---- compiled forms: what did the decompiler make of it?  (its faults belong to C03) ---------------------------
    loud = False
    decompiler_note = ''
    if form in COMPILED_FORMS:
        from pony.orm.decompiling import decompile
        is_gen = form == 'gen' or form in GEN_FAR_FORMS
        obj = run2(('ids_obj' if form == 'gen_far_max' else 'gen_obj') if is_gen else 'lam_obj')
        try:
            dtree = copy.deepcopy(decompile(obj)[0])
        except RecursionError:
            raise
        except Exception as e:
            res.update(status='rejected', message='decompiler refused: %s: %s' % (type(e).__name__, e))
            res['classes'].append('rej:decompiler_refused')
            return res
        if is_gen:
            if not isinstance(dtree, ast.GeneratorExp) or len(dtree.generators) != 1:
                res.update(status='inconclusive', message='unexpected decompiled shape')
                return res
            if case['part'] == 'cond':
                ifs = dtree.generators[0].ifs
                dbody = ifs[0] if len(ifs) == 1 else ast.BoolOp(ast.And(), list(ifs))
            else:
                dbody = dtree.elt
        else:
            dbody = dtree
        d_ext = maximal_external_subtrees(dbody)
        keep = feats & {'far_call_cell'}
        feats = set(keep)
        for n in d_ext:
            feats |= features(n)
        res['features'] = sorted(feats)
        # the decompiled body, compiled directly, must behave like the source on the stored rows (or on a probe row when
        # Python raises for an external part): otherwise the decompiler changed the expression, which is C03's matter
        lam = ast.Expression(ast.Lambda(ast.arguments(posonlyargs=[], args=[ast.arg(QUERY_VAR)], kwonlyargs=[],
                                                       kw_defaults=[], defaults=[]), copy.deepcopy(dbody)))
        ast.fix_missing_locations(lam)
        probe = stored or [Row(id=1, **DEFAULT_ROW), Row(id=2, **dict(DEFAULT_ROW, i=5, j=-1, s=''))]

        def row_outcomes(func):
            out = []
            for r in probe:
                try:
                    v = func(r)
                    out.append(('value', bool(v) if case['part'] == 'cond' else tuple(v)))
                except RecursionError:
                    raise
                except Exception as e:
                    out.append(('raise', type(e).__name__))
            return out
        try:
            dfunc = eval(compile(lam, '<c04 decompiled>', 'eval'), scope.merged())
            o_src, o_dec = row_outcomes(pyfunc), row_outcomes(dfunc)
            same = len(o_src) == len(o_dec) and all(a[0] == b[0] and typed_equal(a[1], b[1]) for a, b in zip(o_src, o_dec))
        except RecursionError:
            raise
        except Exception as e:
            same = False
        if not same:
            # excused only for the shapes of C03's OPEN findings (conditional expressions / and / or / not, which the
            # decompiler is known to re-bracket); any other difference is judged end to end like everything else: the
            # user wrote an external expression and the database must get the value Python computes for it
            res['classes'].append('decompiler_mismatch')
            if has_boolean_shape(ast.parse(q_expr, mode='eval')):
                res.update(status='inconclusive', message='decompiled tree is not equivalent to the source (open C03 shapes)')
                return res
            res['classes'].append('decompiler_mismatch_judged')
            decompiler_note = ' [the tree rebuilt by the decompiler already differs from the source]'
        regen_trees = [copy.deepcopy(n) for n in d_ext]
    else:
        regen_trees = [copy.deepcopy(n) for n in ext_nodes]
    for t in regen_trees:
        try:
            regenerate(t)
        except Rejected:
            loud = True

    # ---- run the query ---------------------------------------------------------------------------------------------
    got = None
    err = None
    with db_session:
        try:
            q = run2(form)
            if form in AGGREGATES:
                got = q                      # count / exists / max already executed the query
            elif case['part'] == 'cond':
                got = sorted(o.id for o in q[:])
            else:
                got = sorted((tuple(t) for t in q[:]), key=lambda t: t[0])
        except RecursionError:
            raise
        except Exception as e:
            err = e
        rollback()

    res['nontrivial'] = nt and err is None
    shown = ', '.join('%s = %s' % (t, ('raises ' + type(v).__name__) if isinstance(v, Exception) else repr(v))
                      for t, v in zip(ext_texts, values))
    where = 'query %r (form %s)%s; Python evaluates the external parts in the caller\'s scope as: %s' % (
        gen_text, form, decompiler_note, shown)
    if py_raised is not None:
        if err is None:
            res.update(status='fail', message='%s; the query nevertheless executed and returned %r' % (where, got))
        else:
            res['classes'].append('both_raise')
        return res
    if err is not None:
        name = type(err).__name__
        if isinstance(err, ExprEvalError):
            res.update(status='fail', message='%s; Pony failed to evaluate its regenerated text: %s: %s' % (where, name, err))
        elif loud:
            res.update(status='rejected', message='%s: %s' % (name, err))
            res['classes'].append('rej:loud_regeneration')
        elif isinstance(err, TypeError) and 'unsupported type' in str(err) and case['kind'] == 'eq' \
                and isinstance(values[0], SUPPORTED_VALUE_TYPES):
            res.update(status='fail', message='%s; Pony refused the value: %s' % (where, err))
        elif _allowed_rejection(err):
            res.update(status='rejected', message='%s: %s' % (name, err))
            res['classes'].append('rej:' + name)
        else:
            res.update(status='fail', message='%s; unexpected %s: %s' % (where, name, err))
        return res
    if form in AGGREGATES:
        expected = AGGREGATES[form](expected)
        same = typed_equal(got, expected)
    elif case['part'] == 'cond':
        same = got == expected
    else:
        same = len(got) == len(expected) and all(typed_equal(a, b) for a, b in zip(got, expected))
    if not same:
        res.update(status='fail', message='%s; rows %r; expected result %r, Pony returned %r'
                                          % (where, [(r.id, r.i, r.j, r.s) if case['kind'] == 'mixed' else r for r in stored],
                                             expected, got))
    res['classes'].append('accepted')
    return res


CHAIN_FORMS = ('chain_gen', 'chain_str', 'chain_filter', 'chain_where')


def judge_chain(case, dbE=None):
    """case: {'level': 2, 'kind': 'chain', 'expr': condition text with x, 'form': one of CHAIN_FORMS,
              'envs': [env, env, ...] (one per layer), 'env': envs[0], 'scopes': .., 'decoys': ..}
    ONE piece of query code (a helper function) is stacked on its own result len(envs) times, each layer called with
    its own values of the caller-scope names:  layer(layer(layer(E, v1), v2), v3).  Python's answer: the rows that
    satisfy the condition under every layer's values."""
    from pony.orm import db_session, rollback, commit
    from pony.orm.core import ExprEvalError
    if dbE is None:
        dbE = make_db()
    db, E = dbE
    form = case['form']
    envs = case['envs']
    depth = len(envs)
    res = {'status': 'ok', 'message': '', 'classes': ['L2', 'L2:chain', 'form:' + form, 'depth:%d' % min(depth, 4)],
           'features': [], 'nontrivial': False}
    scope = Scope(dict(case, env=envs[0]), E)
    names = scope.cnames + scope.lnames            # these vary from layer to layer; module globals do not
    layer_vals = [[G.decode_value(env.get(n, envs[0][n])) for n in names] for env in envs]
    expr = ast.unparse(ast.parse(case['expr'], mode='eval'))
    tree = ast.parse(expr, mode='eval').body
    ext_nodes = maximal_external_subtrees(tree)
    ext_texts = [ast.unparse(n) for n in ext_nodes]
    feats = set()
    for n in ext_nodes:
        feats |= features(n)
    res['features'] = sorted(feats)
    gen_text = 'x for x in _src if ' + expr
    res['query'] = '%d x [%s]' % (depth, gen_text)
    params = ''.join(', ' + n for n in names)
    lines = ['def _ext(_form%s):' % params,
             '    return [%s]' % ''.join('lambda: (%s), ' % t for t in ext_texts),
             'def _pyl(_form%s):' % params,
             '    return lambda x: %s' % expr,
             'def _layer(_form, _src%s):' % params,
             "    if _form == 'chain_gen': return select(%s)" % gen_text,
             "    if _form == 'gen_obj': return (%s)" % gen_text,
             "    if _form == 'chain_str': return select(%r)" % gen_text,
             "    _f = lambda x: %s" % expr,
             "    if _form == 'lam_obj': return _f",
             "    if _form == 'chain_filter': return _src.filter(_f)",
             "    if _form == 'chain_where': return _src.where(_f)",
             '    raise ValueError(_form)',
             'def _start():',
             '    return select(x for x in E)',
             '']
    g = dict(scope.globals)
    exec(compile('\n'.join(lines), '<c04 chain>', 'exec'), g)

    # Python's values of the external parts, layer by layer
    values = []
    py_raised = None
    for vals in layer_vals:
        row = []
        for thunk in g['_ext']('ext', *vals):
            try:
                row.append(thunk())
            except RecursionError:
                raise
            except Exception as e:
                py_raised = e
                row.append(e)
        values.append(row)
    if py_raised is None:
        for row in values:
            for v in row:
                if (type(v) in (int, float) and not abs(v) <= 1000) or not in_domain(v):
                    res.update(status='inconclusive', message='external value outside the domain: %r' % (v,))
                    res['classes'].append('out_of_domain')
                    return res
    pyfuncs = [g['_pyl']('py', *vals) for vals in layer_vals]

    # rows: some that pass every layer, and for each layer some that fail ONLY that layer (they tell the layers apart)
    rows = []
    if py_raised is None:
        cands = [dict(DEFAULT_ROW, i=i, j=j) for i in sorted(range(-12, 13), key=lambda k: (abs(k), k)) for j in (-1, 2)]
        strs = ['', 'a', 'ab']
        for row in values:
            for w in row:
                if type(w) is str and len(w) <= 10:
                    strs += [w[p:q] for p in range(len(w) + 1) for q in range(p, len(w) + 1)]
        seen = set()
        for w in strs:
            if w not in seen:
                seen.add(w)
                cands.append(dict(DEFAULT_ROW, i=1, j=2, s=w))
        buckets = {}
        for r in cands[:300]:
            try:
                truth = tuple(bool(f(Row(id=0, **r))) for f in pyfuncs)
            except RecursionError:
                raise
            except Exception as e:
                res.update(status='inconclusive', message='Python raises for a row: %s' % type(e).__name__)
                res['classes'].append('py_row_raises')
                return res
            buckets.setdefault(truth, []).append(r)
        all_true = (True,) * depth
        rows = list(buckets.get(all_true, [])[:3])
        single = 0
        for k in range(depth):
            only_k = tuple(j != k for j in range(depth))
            got_k = buckets.get(only_k, [])[:2]
            single += bool(got_k)
            rows += got_k
        for truth in sorted(buckets):
            if len(rows) >= 12:
                break
            if truth != all_true and sum(truth) != depth - 1:
                rows += buckets[truth][:1]
        if single >= 2:
            res['classes'].append('layers_distinguished')
    for k, r in enumerate(rows):
        r['id'] = k + 1
    with db_session:
        E.select().delete(bulk=True)
        stored = []
        for r in rows:
            obj = E(**r)
            stored.append(Row(**dict((a, getattr(obj, a)) for a in r)))
        commit()
    expected = None
    if py_raised is None:
        expected = sorted(r.id for r in stored if all(f(r) for f in pyfuncs))
    else:
        res['classes'].append('python_raises')

    decompiler_note = ''
    if form != 'chain_str':
        from pony.orm.decompiling import decompile
        try:
            with db_session:
                obj = g['_layer']('gen_obj' if form == 'chain_gen' else 'lam_obj', E, *layer_vals[0])
                dtree = copy.deepcopy(decompile(obj)[0])
        except RecursionError:
            raise
        except Exception as e:
            res.update(status='rejected', message='decompiler refused: %s: %s' % (type(e).__name__, e))
            res['classes'].append('rej:decompiler_refused')
            return res
        if form == 'chain_gen':
            ifs = dtree.generators[0].ifs
            dbody = ifs[0] if len(ifs) == 1 else ast.BoolOp(ast.And(), list(ifs))
        else:
            dbody = dtree
        if py_raised is None:
            lam = ast.Expression(ast.Lambda(ast.arguments(posonlyargs=[], args=[ast.arg(QUERY_VAR)], kwonlyargs=[],
                                                           kw_defaults=[], defaults=[]), copy.deepcopy(dbody)))
            ast.fix_missing_locations(lam)
            try:
                code = compile(lam, '<c04 decompiled>', 'eval')
                same = True
                for vals, f in zip(layer_vals, pyfuncs):
                    ns = dict(scope.globals)
                    ns.update(zip(names, vals))
                    dfunc = eval(code, ns)
                    same = same and [bool(dfunc(r)) for r in stored] == [bool(f(r)) for r in stored]
            except RecursionError:
                raise
            except Exception:
                same = False
            if not same:
                res['classes'].append('decompiler_mismatch')
                if has_boolean_shape(tree):
                    res.update(status='inconclusive', message='decompiled tree is not equivalent to the source (open C03 shapes)')
                    return res
                decompiler_note = ' [the tree rebuilt by the decompiler already differs from the source]'

    loud = False        # ast2src raises / its text does not compile for some external part: a loud refusal, not a wrong value
    regen_nodes = ext_nodes if form == 'chain_str' else maximal_external_subtrees(dbody)
    for n in regen_nodes:
        try:
            regenerate(copy.deepcopy(n))
        except Rejected:
            loud = True

    got = err = None
    with db_session:
        try:
            q = E if form in ('chain_gen', 'chain_str') else (E.select() if form == 'chain_filter' else g['_start']())
            for vals in layer_vals:
                q = g['_layer'](form, q, *vals)
            got = sorted(o.id for o in q[:])
        except RecursionError:
            raise
        except Exception as e:
            err = e
        rollback()
    res['nontrivial'] = depth >= 2 and err is None and any(nontrivial_shape(n) for n in ext_nodes)
    shown = '; '.join('layer %d: %s' % (k + 1, ', '.join(
        '%s = %s' % (t, ('raises ' + type(v).__name__) if isinstance(v, Exception) else repr(v)) for t, v in zip(ext_texts, row)))
        for k, row in enumerate(values))
    where = '%d layers of the same code [%s] stacked on each other (form %s)%s; Python evaluates the external parts as: %s' % (
        depth, gen_text, form, decompiler_note, shown)
    if py_raised is not None:
        if err is None:
            res.update(status='fail', message='%s; the query nevertheless executed and returned %r' % (where, got))
        else:
            res['classes'].append('both_raise')
        return res
    if err is not None:
        name = type(err).__name__
        if isinstance(err, ExprEvalError):
            res.update(status='fail', message='%s; Pony failed to evaluate its regenerated text: %s: %s' % (where, name, err))
        elif loud:
            res.update(status='rejected', message='%s: %s' % (name, err))
            res['classes'].append('rej:loud_regeneration')
        elif _allowed_rejection(err):
            res.update(status='rejected', message='%s: %s' % (name, err))
            res['classes'].append('rej:' + name)
        else:
            res.update(status='fail', message='%s; unexpected %s: %s' % (where, name, err))
        return res
    if got != expected:
        res.update(status='fail', message='%s; rows %r; expected result %r, Pony returned %r'
                                          % (where, [(r.id, r.i, r.j, r.s) for r in stored], expected, got))
    res['classes'].append('accepted')
    return res


def judge(case, dbE=None):
    if case.get('kind') == 'chain':
        return judge_chain(case, dbE)

    return judge_l1(case) if case.get('level') == 1 else judge_l2(case, dbE)


# ------------------------------------------------------------------------------------------------------
# bounded, deterministic minimisation of a failing case (hypothesis shrinking is switched off: its cost is unbounded on
# recursive text grammars and each level-2 execution is a handful of real queries)

def _subexpression_texts(text, env):
    """source texts of the proper sub-expressions that can stand alone (no lambda-bound names), shortest first"""
    tree = ast.parse(text, mode='eval').body
    known = set(env) | set(G.BASE_GLOBALS) | {'x'}
    import builtins
    out = set()
    specs = set(id(n.format_spec) for n in ast.walk(tree) if isinstance(n, ast.FormattedValue) and n.format_spec is not None)
    for node in ast.walk(tree):
        if id(node) in specs or (isinstance(node, ast.JoinedStr) and not node.values):
            continue          # a format spec is not an expression of its own; f'' has no external part
        if not isinstance(node, ast.expr) or isinstance(node, (ast.Constant, ast.Name, ast.Slice, ast.Starred)):
            continue
        if node is tree and not isinstance(node, ast.JoinedStr):
            continue
        if isinstance(node, ast.FormattedValue):
            continue
        if isinstance(node, ast.JoinedStr) and len(node.values) > 1:       # each replacement field on its own
            for v in node.values:
                if isinstance(v, ast.FormattedValue):
                    try:
                        out.add(ast.unparse(ast.JoinedStr([v])))
                    except Exception:
                        pass
        names = set(n.id for n in ast.walk(node) if isinstance(n, ast.Name))
        if any(n not in known and not hasattr(builtins, n) for n in names):
            continue
        if node is not tree:
            try:
                out.add(ast.unparse(node))
            except Exception:
                pass
    out.discard(text)
    return sorted(out, key=lambda t: (len(t), t))


def minimise(case, still_reportable, dbE=None, budget=60):
    """smallest sub-expression (then simplest scope layout) that still fails and is still reportable
    (= not covered by an exclusion); returns (case, message).  At most `budget` further judge calls."""
    def fails(c):
        r = judge(c, dbE)
        if r['status'] != 'fail':
            return None
        c = dict(c, features=r['features'])
        return (c, r['message']) if still_reportable(c, r['message']) else None

    best = fails(case)
    if best is None:                       # cannot happen for a deterministic judge; keep the original
        return case, 'failure did not reproduce during minimisation'
    calls = 0
    improved = True
    while improved and calls < budget:
        improved = False
        cur = best[0]
        cands = []
        if cur['level'] == 1 or cur['kind'] == 'eq':
            cands = [dict(cur, expr=t) for t in _subexpression_texts(cur['expr'], cur['env'])]
        elif cur['kind'] == 'chain':       # fewer layers
            envs = cur['envs']
            if len(envs) > 1:
                cands = [dict(cur, envs=envs[:k] + envs[k + 1:], env=(envs[:k] + envs[k + 1:])[0]) for k in range(len(envs))]
        else:
            tree = ast.parse(cur['expr'], mode='eval').body
            for n in maximal_external_subtrees(tree):
                t = ast.unparse(n)
                if isinstance(n, (ast.Tuple, ast.List)):
                    continue
                cands.append(dict(cur, kind='eq', part='cond' if cur['form'] not in ELT_FORMS else cur['part'], expr=t, flip=False))
        for c in cands:
            if calls >= budget:
                break
            calls += 1
            c = dict((k, v) for k, v in c.items() if k != 'features')
            got = fails(c)
            if got is not None:
                best = got
                improved = True
                break
    cur = best[0]
    if cur['level'] == 2 and cur.get('kind') != 'chain' and (cur.get('decoys') or any(v != 'g' for v in cur['scopes'].values())):
        c = dict((k, v) for k, v in cur.items() if k != 'features')
        c['decoys'] = {}
        c['scopes'] = dict((k, 'g') for k in cur['scopes'])
        got = fails(c)
        if got is not None:
            best = got
    return best


def unmask(case, still_reportable, budget=40):
    """a level-1 failure that falls under a known root cause may hide an independent one in the same expression:
    look for a sub-expression that fails on its own and is NOT covered by an exclusion; returns (case, message) or None"""
    n = 0
    for t in _subexpression_texts(case['expr'], case['env']):
        if n >= budget:
            break
        n += 1
        c = dict((k, v) for k, v in case.items() if k != 'features')
        c['expr'] = t
        r = judge_l1(c)
        if r['status'] == 'fail':
            c['features'] = r['features']
            if still_reportable(c, r['message']):
                return c, r['message']
    return None
