"""Helpers to create fresh Pony databases / entities for the checks (no repo hooks needed)."""
import os, sys, itertools

_counter = itertools.count(1)


def fresh_sqlite(filename=':memory:', **kw):
    from pony.orm import Database
    db = Database()
    if filename == ':memory:':
        db.bind('sqlite', ':memory:', **kw)
    else:
        db.bind('sqlite', filename, create_db=True, **kw)
    return db


def define_entity(db, name, attrs, bases=None):
    """type(name, (db.Entity,), attrs) -- attrs is an ordered dict/list of (name, Attribute)"""
    if bases is None:
        bases = (db.Entity,)
    return type(name, bases, dict(attrs))


def run_query_text(text, globs, locs=None):
    """Run a string query with explicit namespaces (string queries otherwise resolve names from the
    caller frame)."""
    from pony.orm import select
    return select(text, globs, locs if locs is not None else {})


def pony_version():
    import pony
    return pony.__version__


def repo_path():
    return os.environ.get('VERIF_REPO', '/repo')
