"""C29 reference model: Python semantics of JSON / array query operations, query-text building,
live evaluation on SQLite (with and without JSON1), PostgreSQL array-literal lexer.

A *case* is plain JSON:

  {'kind': 'json', 'mode': 'json1'|'fallback', 'form': 'str'|'gen', 'attr': 'j'|'r',
   'docs': [doc, ...],                       # one row per document (id = position + 1)
   'op': {'t': 'proj'|'cmp'|'isnone'|'in'|'len'|'lencmp'|'truth',
          'path': [{'k': key-or-index, 'm': 'c'|'p'}, ...],     # c = literal in the query, p = parameter
          'cmp': '==', 'val': scalar, 'vm': 'c'|'p', 'swap': bool,   (cmp, lencmp)
          'key': scalar, 'km': 'c'|'p',                               (in)
          'neg': bool}}                                               (in -> not in, truth -> not, isnone -> is not)
   or 'op': {'t': 'multi', 'shape': 'and'|'or'|'tuple', 'parts': [op, op(, op)]}   # several paths in ONE query:
          # conjunction / disjunction of conditions, or a tuple projection; a path element may carry 'v': n --
          # elements with the same 'v' (and mode 'p') are the SAME query variable (one Python name, one value)

  {'kind': 'array', 'mode': ..., 'form': ..., 'rows': [{'ia': [...], 'sa': [...], 'fa': [...], 'ra': [...], 'n': i, 'm': i}],
   'op': {'t': 'index'|'indexcmp'|'slice'|'contains'|'subset'|'len'|'lencmp'|'truth', 'attr': 'ia'|'sa'|'fa'|'ra',
          'i': {'m': 'c'|'p'|'col'|'omit', 'v': int}, 'j': {...}, 'item': v, 'im': 'c'|'p', 'items': [...],
          'cmp': '==', 'val': v, 'neg': bool}}

  {'kind': 'pgpath', 'keys': [...]}        # PostgreSQL path-string encoding only

An optional 'focus' (row index) restricts reporting to one row (used so that exclusions are decided per row).
"""
import json, operator, re

MISSING = ('<missing>',)      # sentinel (never equal to a JSON value)
SKIP = ('<unspecified>',)

PYOPS = {'==': operator.eq, '!=': operator.ne, '<': operator.lt, '>': operator.gt, '<=': operator.le, '>=': operator.ge}
SWAPPED = {'==': '==', '!=': '!=', '<': '>', '>': '<', '<=': '>=', '>=': '<='}


# ------------------------------------------------------------------------------------------------
# Python semantics
# ------------------------------------------------------------------------------------------------
def traverse(doc, keys):
    """doc[k1][k2]... with Python semantics; KeyError / IndexError / TypeError (wrong container for the key)
    => MISSING.  Negative indexes count from the end as in Python."""
    v = doc
    for k in keys:
        if isinstance(k, str):
            if isinstance(v, dict) and k in v:
                v = v[k]
            else:
                return MISSING
        else:
            if isinstance(v, list) and -len(v) <= k < len(v):
                v = v[k]
            else:
                return MISSING
    return v


def tclass(v):
    if v is MISSING: return 'missing'
    if v is None: return 'null'
    if isinstance(v, bool): return 'bool'
    if isinstance(v, int): return 'int'
    if isinstance(v, float): return 'float'
    if isinstance(v, str): return 'str'
    if isinstance(v, list): return 'list'
    if isinstance(v, dict): return 'dict'
    raise TypeError(v)


def strict_eq(a, b):
    """equality that distinguishes bool / int / float and the sign of zero, recursively"""
    if type(a) is not type(b):
        return False
    if isinstance(a, float):
        return repr(a) == repr(b)
    if isinstance(a, list):
        return len(a) == len(b) and all(strict_eq(x, y) for x, y in zip(a, b))
    if isinstance(a, dict):
        return set(a) == set(b) and all(strict_eq(a[k], b[k]) for k in a)
    return a == b


def path_keys(op):
    return [el['k'] for el in op.get('path', ())]


def op_parts(op):
    return op['parts'] if op['t'] == 'multi' else [op]


def matches(got, exp):
    if exp is SKIP:
        return True
    if isinstance(exp, tuple):        # tuple projection: element-wise, unspecified elements ignored
        return isinstance(got, tuple) and len(got) == len(exp) and all(e is SKIP or strict_eq(g, e) for g, e in zip(got, exp))
    return strict_eq(got, exp)


def json_expected(op, doc):
    """Expected outcome for one row.
    projections ('proj', 'len'): the value, or SKIP;   conditions: True (row selected) / False / SKIP."""
    t = op['t']
    if t == 'multi':
        exps = [json_expected(p, doc) for p in op['parts']]
        if op['shape'] == 'tuple':
            return tuple(exps)
        decisive = op['shape'] == 'or'         # a true operand decides `or`, a false one decides `and` (also in SQL's
        if any(e is decisive for e in exps):   # three-valued logic), whatever an unspecified operand turns out to be
            return decisive
        if any(e is SKIP for e in exps):
            return SKIP                        # otherwise an unspecified operand leaves the combination unasserted
        return not decisive
    v = traverse(doc, path_keys(op))
    if t == 'proj':
        return None if v is MISSING else v
    if t == 'len':
        return len(v) if isinstance(v, list) else SKIP          # only array length is a documented operation
    if t == 'lencmp':
        if not isinstance(v, list):
            return SKIP
        a, b = (op['val'], len(v)) if op.get('swap') else (len(v), op['val'])
        return bool(PYOPS[op['cmp']](a, b))
    if t == 'truth':
        b = False if v is MISSING else bool(v)
        return (not b) if op.get('neg') else b
    if t == 'isnone':
        b = v is MISSING or v is None
        return (not b) if op.get('neg') else b
    if t == 'cmp':
        if v is MISSING or v is None:
            return False                       # SQL semantics of a comparison with NULL: row filtered out
        c = op['val']
        a, b = (c, v) if op.get('swap') else (v, c)
        try:
            return bool(PYOPS[op['cmp']](a, b))
        except TypeError:
            return SKIP                        # Python itself raises: unspecified
    if t == 'in':
        key = op['key']
        if isinstance(v, (list, dict)):
            b = key in v
            return (not b) if op.get('neg') else b
        if isinstance(v, str):
            return SKIP                        # Python would do a substring test; Pony never claims that
        return SKIP if op.get('neg') else False    # Python raises for `k in None/number`: missing => not selected
    raise ValueError(t)


def array_bound(spec, row):
    m = spec['m']
    if m == 'omit':
        return None
    if m == 'col':
        return row[spec['col']]
    return spec['v']


def array_expected(op, row):
    t = op['t']
    a = row[op['attr']]
    if t in ('index', 'indexcmp'):
        i = array_bound(op['i'], row)
        if not (-len(a) <= i < len(a)):
            return SKIP                        # IndexError in Python: unspecified
        if t == 'index':
            return a[i]
        try:
            return bool(PYOPS[op['cmp']](a[i], op['val']))
        except TypeError:
            return SKIP
    if t == 'slice':
        return a[array_bound(op['i'], row):array_bound(op['j'], row)]
    if t == 'contains':
        b = op['item'] in a
        return (not b) if op.get('neg') else b
    if t == 'subset':
        b = set(op['items']) <= set(a)         # TrackedArray.__contains__ semantics for a list operand
        return (not b) if op.get('neg') else b
    if t == 'len':
        return len(a)
    if t == 'lencmp':
        return bool(PYOPS[op['cmp']](len(a), op['val']))
    if t == 'truth':
        b = bool(a)
        return (not b) if op.get('neg') else b
    raise ValueError(t)


# ------------------------------------------------------------------------------------------------
# query text
# ------------------------------------------------------------------------------------------------
class Params(object):
    def __init__(self):
        self.values = {}

    def add(self, value, var=None):
        if var is not None:                    # a shared query variable: same name wherever it is used
            name = 'v%d' % var
            if name in self.values and not strict_eq(self.values[name], value):
                raise ValueError('variable %s used with two values' % name)
        else:
            name = 'p%d' % len(self.values)
        self.values[name] = value
        return name


def _lit(v):
    return repr(v)


def _operand(v, mode, params, var=None):
    return _lit(v) if mode == 'c' else params.add(v, var)


def json_part_src(attr, op, params):
    """-> (expression text, 'proj'|'cond') for one path operation"""
    e = 'x.' + attr
    for el in op.get('path', ()):
        e += '[%s]' % _operand(el['k'], el['m'], params, el.get('v'))
    t = op['t']
    if t == 'proj':
        return e, 'proj'
    if t == 'len':
        return 'len(%s)' % e, 'proj'
    if t in ('cmp', 'lencmp'):
        left = e if t == 'cmp' else 'len(%s)' % e
        c = _operand(op['val'], op.get('vm', 'c'), params)
        if op.get('swap'):
            return '%s %s %s' % (c, op['cmp'], left), 'cond'
        return '%s %s %s' % (left, op['cmp'], c), 'cond'
    if t == 'truth':
        return '%s%s' % ('not ' if op.get('neg') else '', e), 'cond'
    if t == 'isnone':
        return '%s is %sNone' % (e, 'not ' if op.get('neg') else ''), 'cond'
    if t == 'in':
        k = _operand(op['key'], op.get('km', 'c'), params)
        return '%s %sin %s' % (k, 'not ' if op.get('neg') else '', e), 'cond'
    raise ValueError(t)


def json_query_src(case, params):
    op = case['op']
    if op['t'] == 'multi':
        parts = [json_part_src(case['attr'], p, params) for p in op['parts']]
        want = 'proj' if op['shape'] == 'tuple' else 'cond'
        if any(kind != want for e, kind in parts):
            raise ValueError('multi/%s needs %s parts' % (op['shape'], want))
        if want == 'proj':
            return '((x.id, %s) for x in E)' % ', '.join(e for e, kind in parts), 'proj'
        joiner = ' and ' if op['shape'] == 'and' else ' or '
        return '(x.id for x in E if %s)' % joiner.join('(%s)' % e for e, kind in parts), 'cond'
    e, kind = json_part_src(case['attr'], op, params)
    if kind == 'proj':
        return '((x.id, %s) for x in E)' % e, 'proj'
    return '(x.id for x in E if %s)' % e, 'cond'


def _bound_src(spec, params):
    m = spec['m']
    if m == 'omit':
        return ''
    if m == 'col':
        return 'x.' + spec['col']
    return _operand(spec['v'], m, params)


def array_query_src(case, params):
    op = case['op']
    e = 'x.' + op['attr']
    t = op['t']
    if t == 'index':
        return '((x.id, %s[%s]) for x in E)' % (e, _bound_src(op['i'], params)), 'proj'
    if t == 'indexcmp':
        return '(x.id for x in E if %s[%s] %s %s)' % (e, _bound_src(op['i'], params), op['cmp'],
                                                     _operand(op['val'], op.get('vm', 'c'), params)), 'cond'
    if t == 'slice':
        return '((x.id, %s[%s:%s]) for x in E)' % (e, _bound_src(op['i'], params), _bound_src(op['j'], params)), 'proj'
    if t == 'contains':
        return '(x.id for x in E if %s %sin %s)' % (_operand(op['item'], op.get('im', 'c'), params),
                                                   'not ' if op.get('neg') else '', e), 'cond'
    if t == 'subset':
        return '(x.id for x in E if %s %sin %s)' % (_operand(list(op['items']), op.get('im', 'c'), params),
                                                   'not ' if op.get('neg') else '', e), 'cond'
    if t == 'len':
        return '((x.id, len(%s)) for x in E)' % e, 'proj'
    if t == 'lencmp':
        return '(x.id for x in E if len(%s) %s %s)' % (e, op['cmp'], _operand(op['val'], op.get('vm', 'c'), params)), 'cond'
    if t == 'truth':
        return '(x.id for x in E if %s%s)' % ('not ' if op.get('neg') else '', e), 'cond'
    raise ValueError(t)


# ------------------------------------------------------------------------------------------------
# live evaluation on SQLite
# ------------------------------------------------------------------------------------------------
class Rejected(Exception):
    """Pony refused to translate the query (allowed by the property)"""


_code_cache = {}


def make_db(mode):
    from pony.orm import Database, Required, Optional, PrimaryKey, Json, IntArray, StrArray, FloatArray
    db = Database()

    class E(db.Entity):
        id = PrimaryKey(int)
        j = Optional(Json)
        r = Required(Json)
        ia = Optional(IntArray)
        sa = Optional(StrArray)
        fa = Optional(FloatArray)
        ra = Required(IntArray)
        n = Optional(int)
        m = Optional(int)
    db.bind('sqlite', ':memory:')
    if mode == 'fallback':
        db.provider.json1_available = False          # before generate_mapping / any query is built
    elif not db.provider.json1_available:
        raise RuntimeError('this SQLite build has no JSON1: the json1 mode cannot be exercised')
    db.generate_mapping(create_tables=True)
    # case isolation: a UDF error that surfaced during fetch leaves its exc_info in this thread-local and Pony would
    # re-raise it in place of the next, unrelated OperationalError (observed; outside this property)
    db.provider.local_exceptions.exc_info = None
    return db, E


def run_query(db, E, src, form, params):
    """translate (errors here may be legitimate rejections) and then execute (errors here never are)"""
    from pony.orm import select, db_session
    from pony.orm.core import TranslationError
    with db_session:
        try:
            if form == 'str':
                q = select(src, {'E': E}, dict(params))
            else:
                code = _code_cache.get(src)
                if code is None:
                    code = _code_cache[src] = compile(src, '<c29>', 'eval')
                g = dict(params)
                g['E'] = E
                g['len'] = len
                q = select(eval(code, g))
            q.get_sql()
        except (TranslationError, TypeError, NotImplementedError) as e:
            raise Rejected('%s: %s' % (type(e).__name__, e))
        return list(q[:])


def evaluate(case):
    """-> (src, params, outcome) where outcome is
         ('rejected', text) | ('error', text) | ('rows', [(row_index, got, expected, ok)])"""
    from pony.orm import db_session
    kind = case['kind']
    db, E = make_db(case.get('mode', 'json1'))
    try:
        params = Params()
        if kind == 'json':
            docs = case['docs']
            with db_session:
                for i, d in enumerate(docs):
                    E(id=i + 1, j=d, r=d, ra=[0])
            src, shape = json_query_src(case, params)
            expected = [json_expected(case['op'], d) for d in docs]
        else:
            rows = case['rows']
            with db_session:
                for i, r in enumerate(rows):
                    E(id=i + 1, r=[0], ia=r['ia'], sa=r['sa'], fa=r['fa'], ra=r['ra'], n=r['n'], m=r['m'])
            src, shape = array_query_src(case, params)
            expected = [array_expected(case['op'], r) for r in rows]
        try:
            res = run_query(db, E, src, case.get('form', 'str'), params.values)
        except Rejected as e:
            return src, params.values, ('rejected', str(e))
        except Exception as e:
            return src, params.values, ('error', '%s: %s' % (type(e).__name__, e))
        out = []
        if shape == 'proj':
            got = {}
            dup = False
            tup = kind == 'json' and case['op']['t'] == 'multi'
            for row in res:
                rid = row[0]
                dup = dup or rid in got
                got[rid] = tuple(row[1:]) if tup else row[1]
            if dup or len(got) != len(expected):
                return src, params.values, ('error', 'projection returned ids %r for %d stored rows'
                                            % (sorted(r[0] for r in res), len(expected)))
            for i, exp in enumerate(expected):
                g = got[i + 1]
                out.append((i, g, exp, matches(g, exp)))
        else:
            ids = list(res)
            if len(set(ids)) != len(ids) or not set(ids) <= set(range(1, len(expected) + 1)):
                return src, params.values, ('error', 'condition query returned ids %r for %d stored rows' % (ids, len(expected)))
            for i, exp in enumerate(expected):
                g = (i + 1) in ids
                ok = exp is SKIP or g == exp
                out.append((i, g, exp, ok))
        return src, params.values, ('rows', out)
    finally:
        db.disconnect()


# ------------------------------------------------------------------------------------------------
# PostgreSQL: array-literal lexer for the text[] operand of #> / #>>
# ------------------------------------------------------------------------------------------------
class PGLexError(Exception):
    pass


_PG_WS = ' \t\n\r\v\f'


def pg_parse_text_array(s):
    """Parse a one-dimensional PostgreSQL array literal as array_in() does for text[] (default delimiter ','):
    elements are double-quoted (backslash escapes the next character) or unquoted (leading / trailing whitespace
    ignored, backslash escapes the next character, may not be empty, may not contain { } " unescaped);
    an unquoted NULL in any case is a NULL element (returned as None)."""
    n = len(s)
    i = 0
    while i < n and s[i] in _PG_WS: i += 1
    if i >= n or s[i] != '{':
        raise PGLexError('array value must start with "{": %r' % s)
    i += 1
    out = []
    while i < n and s[i] in _PG_WS: i += 1
    if i < n and s[i] == '}':
        i += 1
    else:
        while True:
            while i < n and s[i] in _PG_WS: i += 1
            if i >= n:
                raise PGLexError('unexpected end of input: %r' % s)
            if s[i] == '"':
                i += 1
                buf = []
                while True:
                    if i >= n:
                        raise PGLexError('unterminated quoted element: %r' % s)
                    ch = s[i]
                    if ch == '\\':
                        if i + 1 >= n:
                            raise PGLexError('dangling backslash: %r' % s)
                        buf.append(s[i + 1]); i += 2
                    elif ch == '"':
                        i += 1
                        break
                    else:
                        buf.append(ch); i += 1
                out.append(''.join(buf))
                while i < n and s[i] in _PG_WS: i += 1
            else:
                buf = []
                escaped = False
                last_sig = 0
                while True:
                    if i >= n:
                        raise PGLexError('unexpected end of input: %r' % s)
                    ch = s[i]
                    if ch == '\\':
                        if i + 1 >= n:
                            raise PGLexError('dangling backslash: %r' % s)
                        buf.append(s[i + 1]); i += 2
                        escaped = True
                        last_sig = len(buf)
                    elif ch in ',}':
                        break
                    elif ch in '{"':
                        raise PGLexError('unexpected %r in unquoted element: %r' % (ch, s))
                    else:
                        buf.append(ch); i += 1
                        if ch not in _PG_WS:
                            last_sig = len(buf)
                text = ''.join(buf[:last_sig])
                if not text:
                    raise PGLexError('empty unquoted element: %r' % s)
                if not escaped and text.upper() == 'NULL':
                    out.append(None)
                else:
                    out.append(text)
            if i >= n:
                raise PGLexError('unexpected end of input: %r' % s)
            if s[i] == ',':
                i += 1
                continue
            if s[i] == '}':
                i += 1
                break
            raise PGLexError('unexpected %r after element: %r' % (s[i], s))
    while i < n and s[i] in _PG_WS: i += 1
    if i != n:
        raise PGLexError('junk after closing brace: %r' % s)
    return out


def pg_unquote_sql_literal(lit, pyformat=True):
    """'...' SQL string literal (standard_conforming_strings = on) as sent through a pyformat DB-API driver"""
    if len(lit) < 2 or lit[0] != "'" or lit[-1] != "'":
        raise PGLexError('not a string literal: %r' % lit)
    body = lit[1:-1]
    out = []
    i = 0
    while i < len(body):
        ch = body[i]
        if ch == "'":
            if body[i + 1:i + 2] != "'":
                raise PGLexError('unescaped quote inside literal: %r' % lit)
            out.append("'"); i += 2
        elif ch == '%' and pyformat:
            if body[i + 1:i + 2] != '%':
                raise PGLexError('single %% inside a pyformat query: %r' % lit)
            out.append('%'); i += 2
        else:
            out.append(ch); i += 1
    return ''.join(out)


def pg_expected_path(keys):
    """what the #> operator must receive: array indexes as their decimal text, keys as they are"""
    return [str(k) if isinstance(k, int) else k for k in keys]


_pg = {}


def pg_env(stub_dir):
    """import the real pony.orm.dbproviders.postgres on top of the stub psycopg2 and bind a database to it"""
    if _pg:
        return _pg
    import sys
    try:
        import psycopg2  # noqa: F401
    except ImportError:
        sys.path.insert(0, stub_dir)
        import psycopg2  # noqa: F401
    from pony.orm.dbproviders import postgres
    from pony.orm import Database, Required, PrimaryKey, Json

    class Con(object):
        server_version = 120000
        autocommit = True

        def rollback(self): pass
        def commit(self): pass
        def close(self): pass
        def cursor(self): raise AssertionError('no PostgreSQL server: SQL text only')

    class Pool(object):
        def __init__(self): self.con = Con()
        def connect(self): return self.con, True
        def release(self, con): pass
        def drop(self, con): pass
        def disconnect(self): pass

    db = Database()

    class E(db.Entity):
        id = PrimaryKey(int)
        j = Required(Json)
    db.bind(postgres.PGProvider, pony_pool_mockup=Pool())
    db.generate_mapping(check_tables=False)
    _pg.update(module=postgres, db=db, E=E)
    return _pg


_PG_PATH_RE = re.compile(r"#> ('(?:[^']|'')*')")
_PG_PARAM_RE = re.compile(r"#> %\(p\d+\)s")


def pg_evaluate(case, stub_dir):
    """-> list of violation messages for one key list"""
    env = pg_env(stub_dir)
    keys = case['keys']
    want = pg_expected_path(keys)
    msgs = []
    # 1. the path string itself (this is also what a parameterised path evaluates to at run time)
    try:
        text = env['module'].PGSQLBuilder.eval_json_path(None, list(keys))
    except Exception as e:
        return ['PGSQLBuilder.eval_json_path(%r) raised %s: %s' % (keys, type(e).__name__, e)]
    try:
        got = pg_parse_text_array(text)
    except PGLexError as e:
        got = 'malformed array literal (%s)' % e
    if got != want:
        msgs.append('PGSQLBuilder.eval_json_path(%r) = %r which PostgreSQL reads as %r, expected path %r' % (keys, text, got, want))
    # 2. the literal as it appears in the SQL text of a translated query with constant keys
    from pony.orm import select, db_session
    src = '(x.j%s for x in E)' % ''.join('[%r]' % (k,) for k in keys)
    try:
        with db_session:
            sql = select(src, {'E': env['E']}, {}).get_sql()
    except Exception as e:
        msgs.append('translation of %s for PostgreSQL raised %s: %s' % (src, type(e).__name__, e))
        return msgs
    m = _PG_PATH_RE.search(sql)
    if m is None and _PG_PARAM_RE.search(sql):
        return msgs          # e.g. x.j[-1]: "-1" is an expression, so the whole path became a run-time parameter (layer 1)
    if m is None:
        msgs.append('no #> path literal found in %r' % sql)
        return msgs
    try:
        got2 = pg_parse_text_array(pg_unquote_sql_literal(m.group(1)))
    except PGLexError as e:
        got2 = 'malformed literal (%s)' % e
    if got2 != want and got2 != got:
        msgs.append('%s translates to %r whose path PostgreSQL reads as %r, expected %r' % (src, sql, got2, want))
    return msgs
