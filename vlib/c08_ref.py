"""C08 reference model: which values an attribute declaration admits, and their normalised form.

Written from the documented option semantics (docs.ponyorm.org, "Attribute options" / "Optional string
attributes" / the `size`/`unsigned` section), never from pony's converters:

  Required      None is not a value; for str the empty string (after normalisation) is not a value either.
  Optional      non-string types: None is allowed.  str: "Pony uses an empty string instead of None ... If you try to
                assign None to such an optional string attribute, you'll get the ValueError exception.  You can change
                this behavior using the nullable=True option" (then both '' and None can be stored).
  min / max     "If you will try to assign the value that is less (greater) than the specified min (max) value,
                you'll get the ValueError exception."  (int, float, Decimal; inclusive bounds)
  size/unsigned "a signed attribute with size 8 will receive min value -128 and max value 127, while unsigned attribute
                with the same size will receive min value 0 and max value 255.  You can override min and max with your
                own values ... but these values should not exceed the range implied by the size";  "If the unsigned is
                set to True, but size is not provided, size assumed to be 32 bits";  without size and unsigned the
                "default integer type for the specific database" is used: only the signed 32-bit range is treated as
                specified (everything outside is reported 'unspecified' and never generated).
  max_len       "Sets the maximum length for string attributes" (characters, after autostrip).
  autostrip     "Automatically removes leading and trailing whitespace characters ... Similar to Python string.strip()
                function.  By default is True."
  py_check      "function which will be used for checking the value before it is assigned ... should return True or
                False.  Also it can raise the ValueError exception if the check failed."
  default       the value an omitted attribute receives; it is a value like any other, so it has to pass the same rules.

  numeric inputs of another numeric type (the converters take them; the pinned suite itself declares
                `Required(Decimal, default=0)`): the value is the NUMBER the input denotes, expressed in the declared type:
                an int given to a float / Decimal attribute is float(v) / Decimal(v) (exact for |v| <= 2**53); a float given
                to a Decimal attribute is the decimal number the float prints as, Decimal(repr(v)) -- repr() is Python's
                shortest string that round-trips, i.e. the literal the program wrote (0.3 is 0.3, not its binary expansion
                0.299999999999999988897...).  This is the only reading under which the value the column ends up holding
                (0.30 at any declarable scale) is the value that was validated.  A str given to an int attribute that is
                the canonical decimal literal of an integer (str(n): digits with an optional '-') denotes n; a str that
                int() cannot parse at all is not a value of the type; anything in between (' 5', '+5', '1_0') and the
                other coercions (str -> float/Decimal, bool -> int, float -> int, Decimal -> float) stay 'unspecified' and
                are never generated.
  sql_default / volatile  "sql_default=True can be convenient when you have a Required attribute and the value for it is going
                to be calculated in the database during the INSERT"; volatile: "the value of the attribute can be changed in
                the database".  They only concern a MISSING value (the database supplies it): None / omission is left
                'unspecified' for such attributes, every other rule -- a Required string cannot be empty, bounds, max_len,
                py_check -- is unchanged.

Values travel as JSON: ['int', 5] ['float', 1.5] ['Decimal', '1.50'] ['str', ' a '] ['bool', true] ['None'].
"""
import math
from decimal import Decimal

TYPES = ('int', 'float', 'Decimal', 'str', 'bool')
PYTYPE = {'int': int, 'float': float, 'Decimal': Decimal, 'str': str, 'bool': bool}
SIZES = (8, 16, 24, 32, 64)


# ---------------------------------------------------------------- value encoding
def enc(v):
    if v is None: return ['None']
    if type(v) is bool: return ['bool', v]
    if type(v) is int: return ['int', v]
    if type(v) is float: return ['float', v]
    if type(v) is Decimal: return ['Decimal', str(v)]
    if type(v) is str: return ['str', v]
    raise TypeError(type(v))


def dec(e):
    tag = e[0]
    if tag == 'None': return None
    if tag == 'bool': return bool(e[1])
    if tag == 'int': return int(e[1])
    if tag == 'float': return float(e[1])
    if tag == 'Decimal': return Decimal(e[1])
    if tag == 'str': return e[1]
    raise ValueError(e)


# ---------------------------------------------------------------- custom checks (shared with the harness)
def _raise_neg(v):
    if v is not None and v < 0: raise ValueError('negative')
    return True


def _raise_q(v):
    if v is not None and 'q' in v: raise ValueError('q')
    return True


PY_CHECKS = {
    'always': lambda v: True,
    'never': lambda v: v is None,
    'even': lambda v: v is None or v % 2 == 0,
    'nonzero': lambda v: v is None or v != 0,
    'abs_le_100': lambda v: v is None or abs(v) <= 100,
    'raise_neg': _raise_neg,
    'has_x': lambda v: v is None or 'x' in v,
    'raise_q': _raise_q,
    'is_true': lambda v: v is None or v is True,
}
PY_CHECKS_FOR = {
    'int': ['always', 'never', 'even', 'nonzero', 'abs_le_100', 'raise_neg'],
    'float': ['never', 'nonzero', 'abs_le_100', 'raise_neg'],
    'Decimal': ['never', 'nonzero', 'abs_le_100', 'raise_neg'],
    'str': ['never', 'has_x', 'raise_q'],      # insensitive to surrounding whitespace (raw vs stripped agree)
    'bool': ['never', 'is_true'],
}


# ---------------------------------------------------------------- declarations
def int_range(opts):
    """(lowest, highest) implied by size/unsigned; None = unspecified by the documentation"""
    size = opts.get('size')
    unsigned = bool(opts.get('unsigned'))
    if size is None and unsigned: size = 32
    if size is None: return None
    if unsigned: return 0, 2 ** size - 1
    return -(2 ** (size - 1)), 2 ** (size - 1) - 1


INT32 = (-(2 ** 31), 2 ** 31 - 1)


def opt_value(opts, name):
    e = opts.get(name)
    return None if e is None else dec(e)


def decl_problem(spec):
    """None if the declaration is inside the asserted domain, else the reason it is not"""
    t, o, kind = spec['type'], spec['opts'], spec['kind']
    if t not in TYPES: return 'type'
    mn, mx = opt_value(o, 'min'), opt_value(o, 'max')
    if t == 'int':
        if o.get('size') is not None and o['size'] not in SIZES: return 'size'
        if o.get('size') == 64 and o.get('unsigned'): return 'unsigned 64 bit is not available on SQLite'
        lo, hi = int_range(o) or INT32
        for b in (mn, mx):
            if b is not None and (type(b) is not int or b < lo or b > hi): return 'bound outside the implied range'
    elif t == 'float':
        for b in (mn, mx):
            if b is not None and (type(b) not in (int, float) or b != b or abs(b) == float('inf')): return 'bound'
    elif t == 'Decimal':
        p, s = o.get('precision', 12), o.get('scale', 2)
        if not (0 < s <= p <= 15): return 'precision/scale'
        for b in (mn, mx):
            if b is not None and (type(b) not in (int, Decimal) or not Decimal(b).is_finite()): return 'bound'
    else:
        if mn is not None or mx is not None: return 'min/max on %s' % t
    if t == 'str':
        ml = o.get('max_len')
        if ml is not None and (type(ml) is not int or ml < 1): return 'max_len < 1 is not a documented limit'
    if kind == 'Optional' and t != 'str' and o.get('nullable') is False: return 'optional non-string must be nullable'
    if kind != 'Optional' and o.get('nullable'): return 'nullable on a required attribute'
    if kind == 'PrimaryKey' and (t in ('float', 'bool') or o.get('unique')): return 'pk type'
    if o.get('unique') and t in ('float', 'bool'): return 'unique float/bool'
    if o.get('unique') and kind == 'Optional' and o.get('nullable') is False: return 'optional unique must be nullable'
    pc = spec.get('py_check')
    if pc is not None and pc not in PY_CHECKS_FOR[t]: return 'py_check'
    if db_filled(spec) and ('default' in spec or kind == 'PrimaryKey'): return 'sql_default/volatile with default or pk'
    if 'default' in spec:
        d = dec(spec['default'])
        if kind == 'PrimaryKey': return 'default on pk'
        if d is None: return 'default None is outside the asserted domain'
        if d == '' and kind != 'Optional': return "default ''"
        if d is not None and coerce(t, d) in (NotImplemented, NotAValue): return 'default type'
        if verdict(dict(spec, py_check=None), d)[0] == 'unspecified': return 'default value outside the asserted domain'
    return None


def nullable(spec):
    o = spec['opts']
    if spec['kind'] != 'Optional': return False
    if spec['type'] != 'str': return True
    return bool(o.get('nullable')) or bool(o.get('unique'))


def required(spec):
    return spec['kind'] in ('Required', 'PrimaryKey')


# ---------------------------------------------------------------- the predicate
NotAValue = type('NotAValue', (), {'__repr__': lambda self: 'NotAValue'})()


def db_filled(spec):
    o = spec['opts']
    return bool(o.get('sql_default')) or bool(o.get('volatile'))


def coerce(t, val):
    """the number a numeric input of another numeric type denotes, in the declared type; NotImplemented if the
    conversion is outside the asserted domain"""
    if type(val) is PYTYPE[t]: return val
    if t == 'int' and type(val) is str:
        try: n = int(val)
        except ValueError: return NotAValue
        return n if str(n) == val else NotImplemented
    if t == 'float' and type(val) is int and abs(val) <= 2 ** 53: return float(val)
    if t == 'Decimal' and type(val) is int: return Decimal(val)
    if t == 'Decimal' and type(val) is float and val == val and abs(val) != float('inf'): return Decimal(repr(val))
    return NotImplemented


def coercion(t, val):
    """class name of a cross-type candidate, None for exact-type values"""
    if val is None or type(val) is PYTYPE[t]: return None
    return '%s->%s' % (type(val).__name__, t)


def verdict(spec, val):
    """-> ('accept', normalised) | ('reject', reason) | ('unspecified', reason)"""
    t, o = spec['type'], spec['opts']
    if val is None:
        if db_filled(spec): return 'unspecified', 'missing value of an attribute the database fills in'
        if required(spec): return 'reject', 'required'
        if not nullable(spec): return 'reject', 'None for a non-nullable optional string'
        return 'accept', None
    if type(val) is not PYTYPE[t]:
        given = val
        val = coerce(t, val)
        if val is NotAValue: return 'reject', 'not a value of the declared type'
        if val is NotImplemented: return 'unspecified', 'coercion from %s' % type(given).__name__
        if t == 'Decimal' and not decimal_fits(o, val) and not _outside_bounds(o, val):
            return 'unspecified', 'more digits than the declared precision/scale'
    norm = val
    if t == 'str':
        if o.get('autostrip', True): norm = val.strip()
        ml = o.get('max_len')
        if ml is not None and len(norm) > ml: return 'reject', 'longer than max_len'
        if norm == '' and required(spec): return 'reject', 'required (empty string)'
    elif t == 'int':
        r = int_range(o)
        if r is None:
            if not (INT32[0] <= val <= INT32[1]): return 'unspecified', 'outside 32 bit without a declared size'
        elif val < r[0]: return 'reject', 'below the range implied by size/unsigned'
        elif val > r[1]: return 'reject', 'above the range implied by size/unsigned'
    elif t == 'float':
        if val != val or abs(val) == float('inf'): return 'unspecified', 'nan/inf'
    elif t == 'Decimal':
        if not val.is_finite(): return 'unspecified', 'nan/inf'
    if t in ('int', 'float', 'Decimal'):
        mn, mx = opt_value(o, 'min'), opt_value(o, 'max')
        if mn is not None and val < mn: return 'reject', 'less than min'
        if mx is not None and val > mx: return 'reject', 'greater than max'
    pc = spec.get('py_check')
    if pc is not None:
        try: ok = PY_CHECKS[pc](norm)
        except ValueError: return 'reject', 'py_check raised ValueError'
        if not ok: return 'reject', 'py_check returned False'
    return 'accept', norm


def _outside_bounds(o, val):
    mn, mx = opt_value(o, 'min'), opt_value(o, 'max')
    return (mn is not None and val < mn) or (mx is not None and val > mx)


def omitted_verdict(spec):
    """what an omitted attribute must become on creation: ('accept', value) | ('reject', reason)"""
    if db_filled(spec): return 'unspecified', 'the database supplies the value'
    if 'default' in spec:
        return verdict(spec, dec(spec['default']))
    if required(spec): return 'reject', 'required'
    if spec['type'] == 'str' and not nullable(spec): return verdict(spec, '')   # "Pony uses an empty string instead of None"
    return 'accept', None


def same(a, b):
    """stored/returned value equals the expected normalised value (exact type, == value)"""
    if a is None or b is None: return a is b
    return type(a) is type(b) and a == b


def normkey(v):
    """identity of a normalised value inside one table (0.0 / -0.0 and 1.0 / 1.00 coincide)"""
    if v is None: return 'None'
    if type(v) is float: return 'f' + repr(v + 0.0 if v != 0 else 0.0)
    if type(v) is Decimal: return 'd' + str(v.normalize() if v != 0 else Decimal(0))
    return type(v).__name__[0] + repr(v)


# ---------------------------------------------------------------- candidates around every bound
def _quantum(opts):
    return Decimal(10) ** -opts.get('scale', 2)


def decimal_fits(opts, v):
    p, s = opts.get('precision', 12), opts.get('scale', 2)
    if not v.is_finite(): return False
    q = _quantum(opts)
    return v == v.quantize(q) and abs(v) < Decimal(10) ** (p - s)


def candidates(spec, extra=()):
    """candidate values on, next to and across every declared or implied bound, plus None and '': exact-type values
    and, for float / Decimal attributes, the same numbers given as int / float (see `coerce`).
    Values whose verdict is 'unspecified' are dropped.  Order is deterministic."""
    t, o = spec['type'], spec['opts']
    out = [None]
    mn, mx = opt_value(o, 'min'), opt_value(o, 'max')
    if t == 'int':
        pts = [0, 1, -1, 2, 7, -100, 100, 101, -101]
        bounds = [b for b in (mn, mx) if b is not None]
        bounds += list(int_range(o) or INT32)
        for b in bounds: pts += [b - 1, b, b + 1, b - 2, b + 2]
        pts += [2 ** 63 - 1, 2 ** 63, -(2 ** 63), -(2 ** 63) - 1, 2 ** 64, 2 ** 31, -(2 ** 31) - 1]
        out += pts
        out += ['0', 'x']                               # the same numbers given as their decimal literal
        for b in bounds: out += [str(b - 1), str(b + 1)]
        for b in (mn, mx):
            if b is not None: out.append(str(b))
    elif t == 'float':
        pts = [0.0, -0.0, 1.5, -1.5, 100.0, 100.5, -0.25, 1e300, -1e300, 1e-300]
        for b in (mn, mx):
            if b is None: continue
            b = float(b)
            pts += [b, math.nextafter(b, -math.inf), math.nextafter(b, math.inf), b - 0.5, b + 0.5, b - 1.0, b + 1.0]
        out += pts
        ints = [0, 1, -1, 100, 2 ** 53, -(2 ** 53)]
        for v in pts:                                   # the same numbers given as int
            if abs(v) < 2 ** 53:
                n = math.floor(v)
                ints += [n, n + 1] if n != v else [n - 1, n, n + 1]
        out += ints
    elif t == 'Decimal':
        q = _quantum(o)
        p, s = o.get('precision', 12), o.get('scale', 2)
        top = Decimal(10) ** (p - s) - q
        pts = [Decimal(0), q, -q, Decimal(1), Decimal(-1), Decimal('100'), Decimal(100) + q, top, -top]
        for b, side in ((mn, -1), (mx, 1)):
            if b is None: continue
            b = Decimal(b)
            g = b.quantize(q, rounding='ROUND_FLOOR')
            pts += [g - q, g, g + q, g + 2 * q]
            pts.append(b + side * q / 10)      # across the bound by less than one quantum (must be rejected)
        pts = [v for v in pts if decimal_fits(o, v) or verdict(spec, v)[0] == 'reject']
        out += pts
        for v in pts:                                   # the same numbers given as float and as int
            f = float(v)
            if Decimal(repr(f)) == v: out.append(f)
            if v == v.to_integral_value(): out.append(int(v))
    elif t == 'str':
        ml = o.get('max_len')
        lens = [0, 1, 2, 3, 300] if ml is None else [0, 1, ml - 1, ml, ml + 1, ml + 2]
        pts = ['', ' ', '  \t\n', 'a b', ' x', 'q', 'xq', u'\xa0x ']
        for n in lens:
            if n < 0: continue
            pts += ['x' * n, ' ' + 'x' * n + ' ', 'a' * n, u'\xe9' * n, ' ' * n, 'x' + ' ' * max(0, n - 2) + 'x' if n >= 2 else 'x']
        out += pts
    elif t == 'bool':
        out += [True, False]
    out += list(extra)
    seen, res = set(), []
    for v in out:
        k = repr(enc(v))     # distinguishes -0.0 / 0.0 and ' x' / 'x'
        if k in seen: continue
        seen.add(k)
        if verdict(spec, v)[0] == 'unspecified': continue
        res.append(v)
    return res


def near_bound(spec, val):
    """the non-triviality rule: the candidate is None, or sits within one step of a declared or implied bound
    (int: +-1; float: <= 1 ulp or 1.0; Decimal: one quantum; str: length within 1 of max_len, or empty after strip)"""
    t, o = spec['type'], spec['opts']
    if val is None: return True
    val = coerce(t, val)
    if val is NotImplemented or val is NotAValue: return False
    mn, mx = opt_value(o, 'min'), opt_value(o, 'max')
    if t == 'int':
        bounds = [b for b in (mn, mx) if b is not None] + list(int_range(o) or INT32)
        return any(abs(val - b) <= 1 for b in bounds)
    if t == 'float':
        return any(b is not None and abs(val - float(b)) <= 1.0 for b in (mn, mx))
    if t == 'Decimal':
        q = _quantum(o)
        return any(b is not None and abs(val - Decimal(b)) <= q for b in (mn, mx))
    if t == 'str':
        n = len(val.strip() if o.get('autostrip', True) else val)
        ml = o.get('max_len')
        return n == 0 or val != val.strip() or (ml is not None and abs(n - ml) <= 1)
    if t == 'bool':
        return spec.get('py_check') is not None
    return False
