"""./check <ID> [--tier quick|thorough] [--replay FILE] [--shards N] [--shard i/n --out FILE]

exit 0: property held on everything explored (KNOWN-FINDING lines possible)
exit 1: VIOLATION property=<ID> replay=<path>
exit 2: harness error / inconclusive (never printed as a violation)
"""
import os, sys, json, time, argparse, importlib, subprocess, shutil, traceback, tempfile

HOME = os.environ.get('VERIF_HOME') or os.path.dirname(os.path.dirname(os.path.abspath(__file__)))
if HOME not in sys.path:
    sys.path.insert(0, HOME)

from vlib import runner

BUDGET = {'quick': 150.0, 'thorough': 1500.0}   # wall-clock guard per shard (stop generating, never a violation)


def load_check(pid):
    return importlib.import_module('checks.' + pid.lower())


def write_replay(pid, case, message):
    d = os.path.join(HOME, 'replays')
    os.makedirs(d, exist_ok=True)
    path = os.path.join(d, '%s-%s.json' % (pid, runner.chash(case)))
    with open(path, 'w') as f:
        json.dump({'property': pid, 'case': case, 'message': message}, f, indent=1, sort_keys=True, default=repr)
    return os.path.relpath(path, HOME)


def do_replay(check, path):
    with open(path if os.path.isabs(path) else os.path.join(HOME, path)) as f:
        data = json.load(f)
    return check.replay(data['case'])


def shard_main(args):
    check = load_check(args.id)
    i, n = [int(x) for x in args.shard.split('/')]
    budget = float(os.environ.get('VERIF_BUDGET_S', BUDGET[args.tier]))
    ctx = runner.Ctx(check, args.tier, args.seed, i, n, budget)
    status = 0
    try:
        check.run(ctx)
        res = ctx.result()
    except runner.Violation as v:
        ctx.violation = {'case': v.case, 'message': v.message}
        res = ctx.result()
    except runner.StopRun:
        res = ctx.result()
        res['extra']['stopped_by_wall_clock'] = True
    except BaseException:
        res = ctx.result()
        res['harness_error'] = traceback.format_exc()
        status = 2
    finally:
        shutil.rmtree(ctx.workdir, ignore_errors=True)
    with open(args.out, 'w') as f:
        json.dump(res, f, default=repr)
    return status


def main():
    ap = argparse.ArgumentParser()
    ap.add_argument('id')
    ap.add_argument('--tier', default=os.environ.get('VERIF_TIER') or 'quick', choices=['quick', 'thorough'])
    ap.add_argument('--seed', type=int, default=int(os.environ.get('VERIF_SEED') or 1))
    ap.add_argument('--replay')
    ap.add_argument('--shards', type=int)
    ap.add_argument('--shard')
    ap.add_argument('--out')
    ap.add_argument('--no-evidence', action='store_true')
    args = ap.parse_args()
    args.id = args.id.upper()

    if args.shard:
        sys.exit(shard_main(args))

    t0 = time.time()
    try:
        check = load_check(args.id)
    except Exception:
        traceback.print_exc()
        print('HARNESS-ERROR property=%s cannot import check' % args.id)
        sys.exit(2)

    if args.replay:
        try:
            msg = do_replay(check, args.replay)
        except Exception:
            traceback.print_exc()
            sys.exit(2)
        if msg:
            print('replay violates: %s' % msg)
            print('VIOLATION property=%s replay=%s' % (args.id, args.replay))
            sys.exit(1)
        print('replay ok (no violation)')
        sys.exit(0)

    violations = []   # (replay path, message)
    known_lines = []
    # 1. known findings: open witnesses print KNOWN-FINDING while they still fail;
    #    fixed witnesses are plain regression checks (a failure is a VIOLATION).
    for e in runner.load_known(args.id):
        w = e.get('witness')
        if not w:
            continue
        try:
            msg = do_replay(check, w)
        except Exception:
            traceback.print_exc()
            print('HARNESS-ERROR property=%s witness %s cannot be replayed' % (args.id, w))
            sys.exit(2)
        if e.get('status') == 'open':
            if msg:
                known_lines.append('KNOWN-FINDING: property=%s %s [%s]' % (args.id, e.get('title', ''), e['id']))
        else:
            if msg:
                violations.append((w, 'regression of fixed finding %s: %s' % (e['id'], msg)))

    # 2. generated search in shards
    nshards = args.shards or check.SHARDS.get(args.tier, 1)
    nshards = max(1, min(nshards, 16))
    tmpdir = tempfile.mkdtemp(prefix='run%d_' % os.getpid(), dir=_workroot())
    procs = []
    for i in range(nshards):
        out = os.path.join(tmpdir, 'shard%d.json' % i)
        cmd = [sys.executable, os.path.abspath(__file__), args.id, '--tier', args.tier, '--seed', str(args.seed),
               '--shard', '%d/%d' % (i, nshards), '--out', out]
        log = open(os.path.join(tmpdir, 'shard%d.log' % i), 'w')
        procs.append((i, out, log, subprocess.Popen(cmd, stdout=log, stderr=subprocess.STDOUT, cwd=HOME)))
    results = []
    harness_errors = []
    for i, out, log, p in procs:
        rc = p.wait()
        log.close()
        if os.path.exists(out):
            with open(out) as f:
                r = json.load(f)
            results.append(r)
            if r.get('harness_error'):
                harness_errors.append('shard %d:\n%s' % (i, r['harness_error']))
        else:
            with open(log.name) as f:
                tail = f.read()[-3000:]
            harness_errors.append('shard %d exited %s without a result:\n%s' % (i, rc, tail))

    merged = merge(check, args, results, time.time() - t0)
    for r in results:
        v = r.get('violation')
        if v:
            # confirm with the hypothesis-free replay before reporting
            path = write_replay(args.id, v['case'], v['message'])
            try:
                msg = check.replay(v['case'])
            except Exception:
                msg = 'replay raised: ' + traceback.format_exc()[-800:]
            if msg:
                violations.append((path, v['message']))
            else:
                harness_errors.append('shard %d: generated failure did not reproduce in replay (%s): %s'
                                      % (r['shard'], path, v['message'][:300]))
    merged['violations'] = len(violations)
    if not args.no_evidence:
        write_evidence(args.id, merged)
    shutil.rmtree(tmpdir, ignore_errors=True)
    try:
        os.rmdir(_workroot())
    except OSError:
        pass

    cov = merged['coverage']
    print('%s tier=%s seed=%d shards=%d evaluations=%d distinct_nontrivial=%d excluded=%s inconclusive=%d wall=%.1fs'
          % (args.id, args.tier, args.seed, nshards, cov['evaluations'], cov['distinct_nontrivial'],
             cov.get('excluded_by_known_finding', {}), cov.get('inconclusive', 0), merged['wall_s']))
    for line in known_lines:
        print(line)
    if violations:
        for path, msg in violations:
            print('violation: %s' % msg[:2000])
            print('VIOLATION property=%s replay=%s' % (args.id, path))
        sys.exit(1)
    if harness_errors:
        for h in harness_errors:
            print('HARNESS-ERROR property=%s %s' % (args.id, h))
        sys.exit(2)
    min_evals = getattr(check, 'MIN_EVALS', {}).get(args.tier, 1)
    if cov['evaluations'] < min_evals or cov['distinct_nontrivial'] < 2:
        print('INCONCLUSIVE property=%s only %d evaluations (%d non-trivial), minimum %d'
              % (args.id, cov['evaluations'], cov['distinct_nontrivial'], min_evals))
        sys.exit(2)
    floors = getattr(check, 'CLASS_FLOORS', {})
    for cls, frac in floors.items():
        got = cov['classes'].get(cls, 0) / float(max(1, cov['evaluations']))
        if got < frac:
            print('INCONCLUSIVE property=%s generator health: class %r is %.3f of cases, floor %.3f'
                  % (args.id, cls, got, frac))
            sys.exit(2)
    sys.exit(0)


def _workroot():
    d = os.path.join(HOME, '.work')
    os.makedirs(d, exist_ok=True)
    return d


def merge(check, args, results, wall):
    import collections
    evaluations = sum(r['evaluations'] for r in results)
    nontrivial = set()
    classes = collections.Counter()
    excluded = collections.Counter()
    samples = []
    extra = {}
    for r in results:
        nontrivial.update(r['nontrivial'])
        classes.update(r['classes'])
        excluded.update(r['excluded'])
        for s in r['samples']:
            if len(samples) < 10:
                samples.append(s)
        for k, v in r.get('extra', {}).items():
            if isinstance(v, bool):
                extra[k] = extra.get(k, False) or v
            elif isinstance(v, (int, float)):
                extra[k] = extra.get(k, 0) + v
            else:
                extra.setdefault(k, v)
    cov = {
        'evaluations': evaluations,
        'distinct_nontrivial': len(nontrivial),
        'rule': check.RULE,
        'samples': samples,
        'classes': dict(classes),
        'excluded_by_known_finding': dict(excluded),
        'inconclusive': sum(r.get('inconclusive', 0) for r in results),
        'rejected_by_pony': sum(r.get('rejected', 0) for r in results),
        'shards': len(results),
    }
    cov.update(extra)
    if getattr(check, 'EXHAUSTIVE', None):
        ex = check.EXHAUSTIVE.get(args.tier) if isinstance(check.EXHAUSTIVE, dict) else check.EXHAUSTIVE
        if ex and not extra.get('stopped_by_wall_clock'):
            cov['exhaustive'] = True
    return {
        'property_id': args.id,
        'tier': args.tier,
        'seed': args.seed,
        'level': check.LEVEL,
        'coverage': cov,
        'assumptions': list(getattr(check, 'ASSUMPTIONS', [])),
        'wall_s': round(wall, 2),
        'violations': 0,
    }


def write_evidence(pid, merged):
    d = os.path.join(HOME, 'evidence')
    os.makedirs(d, exist_ok=True)
    merged['wall_s'] = round(merged['wall_s'], 2)
    with open(os.path.join(d, pid + '.json'), 'w') as f:
        json.dump(merged, f, indent=1, sort_keys=True, default=repr)


if __name__ == '__main__':
    main()
