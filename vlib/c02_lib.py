"""C02 harness: the qgen schema bound (a) to live SQLite through a recording sqlite3 connection and (b) to the real PostgreSQL /
MySQL / Oracle / CockroachDB provider classes over the stub driver packages, with a fake DB-API driver on top of vlib/sqlemu.py.

Nothing here decides anything: the oracle lives in checks/c02.py.
"""
import os, sys, sqlite3, importlib, collections
from vlib import qgen, sqlemu

STUBS = os.path.join(os.path.dirname(os.path.abspath(__file__)), 'stubs')


def provider_class(dialect):
    if STUBS not in sys.path:
        sys.path.append(STUBS)          # real drivers, if they ever get installed, win
    return importlib.import_module('pony.orm.dbproviders.' + dialect).provider_cls


# ---------------------------------------------------------------------------------------------------------------------
# schema: the qgen template plus two boolean attributes on A and B (used only by the C02-specific query families)
# ---------------------------------------------------------------------------------------------------------------------
def build_schema(db, opts):
    from pony.orm import Required, Optional, Set, PrimaryKey
    b_a = Required if opts.get('b_a_required', True) else Optional

    class A(db.Entity):
        id = PrimaryKey(int)
        n = Required(int)
        on = Optional(int)
        s = Required(str, autostrip=False)
        os = Optional(str, autostrip=False)
        f = Required(bool)
        of = Optional(bool)
        bs = Set('B')

    class B(db.Entity):
        id = PrimaryKey(int)
        n = Required(int)
        on = Optional(int)
        s = Required(str, autostrip=False)
        os = Optional(str, autostrip=False)
        f = Required(bool)
        of = Optional(bool)
        a = b_a(A)
        cs = Set('C')

    class C(db.Entity):
        id = PrimaryKey(int)
        n = Required(int)
        s = Required(str, autostrip=False)
        bs = Set(B)
    return {'A': A, 'B': B, 'C': C}


def bool_of(row, name):
    """boolean attribute values are derived from the row (no extra generator state): f from n, of from on"""
    if name == 'f':
        return row['n'] % 2 != 0
    v = row['on']
    return None if v is None else v > 0


def extend_mirror(mirror):
    for ent in ('A', 'B'):
        for o in mirror.objs[ent].values():
            o['f'] = bool_of(o, 'f')
            o['of'] = bool_of(o, 'of')
    return mirror


def load_data(classes, data):
    from pony.orm import db_session
    with db_session:
        objs = {'A': {}, 'B': {}, 'C': {}}
        for r in data['A']:
            objs['A'][r['id']] = classes['A'](id=r['id'], n=r['n'], on=r['on'], s=r['s'], os=r['os'],
                                              f=bool_of(r, 'f'), of=bool_of(r, 'of'))
        for r in data['B']:
            kw = dict(id=r['id'], n=r['n'], on=r['on'], s=r['s'], os=r['os'], f=bool_of(r, 'f'), of=bool_of(r, 'of'))
            if r['a'] is not None:
                kw['a'] = objs['A'][r['a']]
            objs['B'][r['id']] = classes['B'](**kw)
        for r in data['C']:
            objs['C'][r['id']] = classes['C'](id=r['id'], n=r['n'], s=r['s'], bs=[objs['B'][i] for i in r['bs']])


def tables_for(classes, data, bool_repr):
    """the data set as plain tables {name: (columns, rows)} named after pony's mapping metadata of `classes`
    (entity._table_, attr.columns, Set.table / columns); bool_repr maps a Python bool to the stored value"""
    A, B, C = classes['A'], classes['B'], classes['C']

    def col(ent, name):
        cols = getattr(ent, name).columns
        assert len(cols) == 1, cols
        return cols[0]

    def tname(t):
        return t if isinstance(t, str) else t[-1]

    def b(v):
        return None if v is None else bool_repr(v)
    out = {}
    names = ['id', 'n', 'on', 's', 'os', 'f', 'of']
    out[tname(A._table_)] = ([col(A, n) for n in names],
                             [(r['id'], r['n'], r['on'], r['s'], r['os'], b(bool_of(r, 'f')), b(bool_of(r, 'of'))) for r in data['A']])
    out[tname(B._table_)] = ([col(B, n) for n in names] + [col(B, 'a')],
                             [(r['id'], r['n'], r['on'], r['s'], r['os'], b(bool_of(r, 'f')), b(bool_of(r, 'of')), r['a']) for r in data['B']])
    out[tname(C._table_)] = ([col(C, n) for n in ('id', 'n', 's')], [(r['id'], r['n'], r['s']) for r in data['C']])
    # link table: B.cs.columns reference C (the items of cs); C.bs.columns reference B
    link = tname(B.cs.table)
    assert tname(C.bs.table) == link
    c_col, b_col = B.cs.columns[0], C.bs.columns[0]
    out[link] = ([b_col, c_col], [(bid, r['id']) for r in data['C'] for bid in r['bs']])
    return out


# ---------------------------------------------------------------------------------------------------------------------
# live SQLite with a recording connection
# ---------------------------------------------------------------------------------------------------------------------
class RecCursor(sqlite3.Cursor):
    def execute(self, sql, args=()):
        log = getattr(self.connection, 'log', None)
        if log is not None and sql.lstrip()[:6].upper() == 'SELECT':
            log.append((sql, tuple(args) if not isinstance(args, dict) else dict(args)))
        return sqlite3.Cursor.execute(self, sql, args)


class RecConnection(sqlite3.Connection):
    log = None

    def cursor(self, factory=None):
        return sqlite3.Connection.cursor(self, RecCursor)


class LiveWorld(object):
    """one in-memory SQLite database + classes per schema option, reused across cases (data are replaced per case)"""
    _cache = {}

    @classmethod
    def get(cls, opts):
        key = bool(opts.get('b_a_required', True))
        w = cls._cache.get(key)
        if w is None:
            from pony.orm import Database
            db = Database()
            classes = build_schema(db, {'b_a_required': key})
            db.bind('sqlite', ':memory:', factory=RecConnection)
            db.generate_mapping(create_tables=True)
            w = cls._cache[key] = cls(db, classes)
        return w

    def __init__(self, db, classes):
        self.db = db
        self.classes = classes
        self.log = []

    def reset(self, data):
        from pony.orm import db_session
        with db_session:
            con = self.db.get_connection()
            con.log = None
            A, B, C = self.classes['A'], self.classes['B'], self.classes['C']
            for t in (B.cs.table, C._table_, B._table_, A._table_):
                con.execute('delete from "%s"' % t)
        load_data(self.classes, data)
        with db_session:
            self.db.get_connection().log = self.log
        del self.log[:]

    def raw(self, sql, args):
        from pony.orm import db_session
        with db_session:
            con = self.db.get_connection()
            saved, con.log = con.log, None
            try:
                return [tuple(r) for r in con.execute(sql, args).fetchall()]
            finally:
                con.log = saved


# ---------------------------------------------------------------------------------------------------------------------
# fake DB-API driver over sqlemu for the server dialects
# ---------------------------------------------------------------------------------------------------------------------
class EmuFailure(Exception):
    """raised through pony back to the check: carries the emulator's verdict for the statement"""
    def __init__(self, kind, detail):
        Exception.__init__(self, '%s: %s' % (kind, detail))
        self.kind = kind
        self.detail = detail


class FakeCursor(object):
    arraysize = 1
    rowcount = -1

    def __init__(self, con):
        self.con = con
        self.rows = []
        self.description = None

    def execute(self, sql, args=None):
        pool = self.con.pool
        s = sql.strip().lower()
        self.rows = []
        self.description = None
        if not s.startswith('select') or s in ('select version()', 'select database()'):
            # connection housekeeping of the providers
            if s == 'select version()':
                self.rows = [('10.11.6-MariaDB',)]
            elif s == 'select database()':
                self.rows = [('testdb',)]
            elif 'product_component_version' in s:
                self.rows = [('19.0.0.0.0',)]
            pool.other.append(sql)
            return
        if 'product_component_version' in s or 'sys_context' in s:
            self.rows = [('19.0.0.0.0',)] if 'product_component_version' in s else [('SCOTT',)]
            pool.other.append(sql)
            return
        rec = {'sql': sql, 'args': args, 'sent': None, 'rows': None, 'error': None}
        pool.statements.append(rec)
        try:
            try:
                sqlemu.tokenize(sql, sqlemu.PERSONALITIES[pool.personality], raw=True)      # pony's own text must lex
            except sqlemu.SqlSyntaxError as e:
                raise sqlemu.SqlSyntaxError('LEX: %s' % e)
            if pool.dialect in ('postgres', 'mysql', 'cockroach'):
                sent = sqlemu.client_format(sql, args, pool.dialect)
                rec['sent'] = sent
                cols, rows = sqlemu.Engine(pool.personality, pool.tables).run(sent, None, raw=False)
            else:
                rec['sent'] = sql
                cols, rows = sqlemu.Engine(pool.personality, pool.tables).run(sql, args, raw=True)
        except sqlemu.Unmodelled as e:
            rec['error'] = ('collation' if isinstance(e, sqlemu.CollationSensitive) else 'unmodelled', str(e))
            raise EmuFailure(*rec['error'])
        except sqlemu.SqlSyntaxError as e:
            rec['error'] = ('syntax', str(e))
            raise EmuFailure(*rec['error'])
        except sqlemu.ServerError as e:
            rec['error'] = ('server', str(e))
            raise EmuFailure(*rec['error'])
        rows = [tuple(pool.to_driver(v) for v in r) for r in rows]
        rec['rows'] = rows
        self.rows = rows
        self.description = [(c or '?', None, None, None, None, None, None) for c in cols]
        self.rowcount = len(rows)

    def executemany(self, sql, args):
        raise EmuFailure('unmodelled', 'executemany: %s' % sql[:60])

    def fetchone(self):
        return self.rows.pop(0) if self.rows else None

    def fetchall(self):
        rows, self.rows = self.rows, []
        return rows

    def fetchmany(self, size=None):
        size = size or self.arraysize
        rows, self.rows = self.rows[:size], self.rows[size:]
        return rows

    def setinputsizes(self, *args, **kw):
        pass

    def var(self, *args, **kw):
        raise EmuFailure('unmodelled', 'cx_Oracle cursor.var')

    def close(self):
        pass


class FakeConnection(object):
    server_version = 160002        # PostgreSQL 16.2
    outputtypehandler = None

    def __init__(self, pool):
        self.pool = pool
        self.autocommit = True

    def cursor(self):
        return FakeCursor(self)

    def commit(self):
        pass

    def rollback(self):
        pass

    def close(self):
        pass

    def set_client_encoding(self, enc):
        pass


class FakePool(object):
    def __init__(self, dialect):
        self.dialect = dialect
        self.personality = dialect
        self.tables = {}
        self.statements = []
        self.other = []
        self.con = None

    def to_driver(self, v):
        """what the driver hands to pony for a server value: MySQLdb returns DECIMAL as decimal.Decimal, psycopg2 returns
        boolean as bool and numeric as Decimal; integers and text come back as int / str"""
        if isinstance(v, sqlemu.JsonVal):
            return v.text()          # psycopg2 (pony registers loads=lambda x: x) and MySQLdb hand JSON over as text
        return v

    def connect(self):
        if self.con is None:
            self.con = FakeConnection(self)
            return self.con, True
        return self.con, False

    def release(self, con):
        pass

    def drop(self, con):
        self.con = None

    def disconnect(self):
        self.con = None


class DialectWorld(object):
    """the qgen schema bound to the real provider class of `dialect` over the fake driver"""
    _cache = {}

    @classmethod
    def get(cls, dialect, opts):
        key = (dialect, bool(opts.get('b_a_required', True)))
        w = cls._cache.get(key)
        if w is None:
            from pony.orm import Database
            pool = FakePool(dialect)
            db = Database()
            classes = build_schema(db, {'b_a_required': key[1]})
            db.bind(provider_class(dialect), pony_pool_mockup=pool)
            db.generate_mapping(check_tables=False)
            w = cls._cache[key] = cls(dialect, db, classes, pool)
        return w

    def __init__(self, dialect, db, classes, pool):
        self.dialect = dialect
        self.db = db
        self.classes = classes
        self.pool = pool

    def reset(self, data):
        if self.dialect in ('postgres', 'cockroach'):
            rep = bool
        else:
            rep = int                # MY 11.1.1: BOOLEAN is a synonym for TINYINT(1); Oracle: NUMBER(1)
        self.pool.tables = tables_for(self.classes, data, rep)
        del self.pool.statements[:]
        del self.pool.other[:]
