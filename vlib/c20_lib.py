"""C20: interpreter and oracle for optimistic sessions racing on shared objects (uses vlib.sched, design block B9).

A case is plain JSON:
  {'layout': 'multi'|'shared', 'rows': [[value choices of object 1], [.. object 2]],
   'actors': [{'session': {..db_session kwargs..}, 'ops': [op, ...], 'end': 'commit'|'rollback'|'raise'}, ...],
   'schedule': [int, ...]}
Every int in an op is reduced modulo the number of candidates, so any list of ints is a valid program.
"""
import re, os, shutil
from decimal import Decimal
from vlib import sched

# name, kind, exempt from optimistic checks (by the property statement)
ATTRS = [('n', 'int', False), ('k', 'int', False), ('m', 'optint', False), ('s', 'str', False), ('d', 'dec', False),
         ('b', 'bool', False), ('g', 'ref', False),
         ('f', 'float', True), ('v', 'vol', True), ('u', 'noopt', True),
         ('h', 'cref', False)]        # reference to an entity with a composite key: two columns; declared FIRST in the entity
NAMES = [a[0] for a in ATTRS]
KIND = {a[0]: a[1] for a in ATTRS}
EXEMPT = {a[0] for a in ATTRS if a[2]}
INTLIKE = ['n', 'k', 'v', 'u']
DOMAIN = {
    'int': [0, 1, 2, 3], 'vol': [0, 1, 2, 3], 'noopt': [0, 1, 2, 3],
    'optint': [None, 0, 1, 2],
    'str': ['a', 'b', 'c', 'd'],
    'dec': ['0.50', '1.25', '2.00', '3.75'],
    'bool': [False, True],
    'ref': [None, 1, 2],
    'cref': [None, [1, 1], [1, 2], [2, 1]],
    'float': [0.5, 1.5, 2.25, 3.0],
}
MAX_OBJS = 2


def define(db):
    from pony.orm import PrimaryKey, Required, Optional, Set

    class G(db.Entity):
        id = PrimaryKey(int)
        es = Set('E')

    class H(db.Entity):
        x = Required(int)
        y = Required(int)
        PrimaryKey(x, y)
        es = Set('E')

    class E(db.Entity):
        id = PrimaryKey(int)
        h = Optional(H)          # two columns (h_x, h_y), in front of every other attribute
        n = Required(int)
        k = Required(int)
        m = Optional(int)
        s = Required(str)
        d = Required(Decimal, 10, 2)
        b = Required(bool)
        g = Optional(G)
        f = Required(float)
        v = Required(int, volatile=True)
        u = Required(int, optimistic=False)
    return {'E': E, 'G': G, 'H': H}


COLS = {a[0]: ([a[0]] if a[1] != 'cref' else [a[0] + '_x', a[0] + '_y']) for a in ATTRS}
ALL_COLS = [col for name in NAMES for col in COLS[name]]


def raw_values(name, v):
    """JSON value -> values of the attribute's columns"""
    if KIND[name] == 'cref':
        return [None, None] if v is None else list(v)
    return [v]


def domain_value(name, c):
    dom = DOMAIN[KIND[name]]
    return dom[c % len(dom)]


def to_py(name, jv):
    """JSON value -> python value given to Pony"""
    if KIND[name] == 'dec' and jv is not None:
        return Decimal(jv)
    return jv


def to_json(name, v):
    """value returned by Pony -> JSON-able, comparable value"""
    kind = KIND[name]
    if v is None:
        return None
    if kind == 'ref':
        return v if isinstance(v, int) else v.id
    if kind == 'cref':
        return list(v) if isinstance(v, (list, tuple)) else [v.x, v.y]
    if kind == 'dec':
        return str(Decimal(v).quantize(Decimal('0.01')))
    if kind == 'bool':
        return bool(v)
    return v


def from_raw(name, raw):
    """value of a raw sqlite3 column -> the same normal form"""
    kind = KIND[name]
    if kind == 'cref':
        return None if raw[0] is None and raw[1] is None else list(raw)
    if raw is None:
        return None
    if kind == 'dec':
        return str(Decimal(str(raw)).quantize(Decimal('0.01')))
    if kind == 'bool':
        return bool(raw)
    if kind == 'float':
        return float(raw)
    return raw


# ---------------------------------------------------------------------------------------------------------------------
# world handling
# ---------------------------------------------------------------------------------------------------------------------

class Env(object):
    """worlds are expensive (mapping generation): one per layout per process, data reset per case"""

    def __init__(self, workdir):
        self.workdir = workdir
        self.worlds = {}

    def world(self, layout):
        w = self.worlds.get(layout)
        if w is None:
            fn = os.path.join(self.workdir, 'c20_%s.sqlite' % layout)
            w = self.worlds[layout] = sched.World(fn, 3, layout, define)
        return w

    def close(self):
        for w in self.worlds.values():
            w.close()
        self.worlds = {}


def reset_rows(world, rows):
    mon = world.monitor()
    mon.execute('BEGIN IMMEDIATE')
    mon.execute('DELETE FROM "E"')
    mon.execute('DELETE FROM "G"')
    mon.execute('DELETE FROM "H"')
    mon.execute('INSERT INTO "G"("id") VALUES (1)')
    mon.execute('INSERT INTO "G"("id") VALUES (2)')
    for xy in DOMAIN['cref'][1:]:
        mon.execute('INSERT INTO "H"("x", "y") VALUES (?, ?)', xy)
    for i, choices in enumerate(rows[:MAX_OBJS]):
        vals = []
        for j, name in enumerate(NAMES):
            c = choices[j] if j < len(choices) else 0
            v = domain_value(name, c)
            if v is None and name not in ('m', 'g', 'h'):
                v = 0
            vals.extend(raw_values(name, v))
        mon.execute('INSERT INTO "E"("id", %s) VALUES (?, %s)' % (', '.join('"%s"' % n for n in ALL_COLS), ', '.join('?' * len(ALL_COLS))),
                    [i + 1] + vals)
    mon.execute('COMMIT')


def snapshot_fn(world):
    mon = world.monitor()
    sql = 'SELECT "id", %s FROM "E" ORDER BY "id"' % ', '.join('"%s"' % n for n in ALL_COLS)

    def snapshot():
        out = {}
        for row in mon.execute(sql).fetchall():
            d, j = {}, 1
            for name in NAMES:
                k = len(COLS[name])
                d[name] = from_raw(name, row[j] if k == 1 else row[j:j + k])
                j += k
            out[row[0]] = d
        return out
    return snapshot


# ---------------------------------------------------------------------------------------------------------------------
# operations (executed inside the actor's thread / session)
# ---------------------------------------------------------------------------------------------------------------------

GET_HOWS = ['index', 'get', 'select', 'select_all', 'get_for_update', 'select_for_update', 'get_for_update_nowait', 'index']


def case_rows(case):
    return case['rows'][:MAX_OBJS] or [[]]


def _obj(st, pk):
    o = st.objs.get(pk)
    if o is None:
        o = st.objs[pk] = st.classes['E'][pk]
    return o


def _ref(st, name, v):
    if KIND[name] == 'ref' and v is not None:
        return st.classes['G'][v]
    if KIND[name] == 'cref' and v is not None:
        return st.classes['H'][v[0], v[1]]
    return v


def make_exec(case):
    nrows = len(case_rows(case))

    def pk_of(c):
        return 1 + c % nrows

    def exec_op(st, op):
        from pony.orm import select, flush
        E = st.classes['E']
        name = op[0]
        rec = {'op': name, 'reads': [], 'writes': [], 'locked': [], 'deleted': []}
        if name == 'get':
            pk = pk_of(op[1])
            how = GET_HOWS[op[2] % len(GET_HOWS)]
            rec['how'] = how
            if how == 'index':
                st.objs[pk] = E[pk]
            elif how == 'get':
                o = E.get(id=pk)
                if o is not None:
                    st.objs[pk] = o
            elif how == 'select':
                for o in select('x for x in E if x.id == pk', {'E': E}, {'pk': pk})[:]:
                    st.objs[o.id] = o
            elif how == 'select_all':
                for o in E.select()[:]:
                    st.objs[o.id] = o
            elif how in ('get_for_update', 'get_for_update_nowait'):
                o = E.get_for_update(id=pk, nowait=(how == 'get_for_update_nowait'))
                if o is not None:
                    st.objs[pk] = o
                    rec['locked'].append(pk)
            elif how == 'select_for_update':
                for o in select('x for x in E if x.id == pk', {'E': E}, {'pk': pk}).for_update()[:]:
                    st.objs[o.id] = o
                    rec['locked'].append(o.id)
            return rec
        if name == 'flush':
            flush()
            return rec
        if name == 'commit':                    # commit in the middle of the db_session; the session (and its cache) goes on
            from pony.orm import commit
            commit()
            return rec
        if name == 'restart':                   # leave the db_session (commit) and enter a new one on the same Database
            from pony.orm import db_session
            opts = st.spec.get('session', {})
            try:
                st.session.__exit__()
            except Exception:
                st.session = db_session(**opts)     # the failed session is over; give the generic failure path one to close
                st.session.__enter__()
                raise
            st.objs.clear()
            st.session = db_session(**opts)
            st.session.__enter__()
            return rec
        if name == 'selmany':
            # a read made only through filter criteria, possibly returning several objects: ['selmany', attr, value, variant]
            a = NAMES[op[1] % len(NAMES)]
            jv = domain_value(a, op[2])
            if KIND[a] in ('float', 'ref', 'cref', 'bool') or jv is None:
                return rec
            rec['attr'] = a
            variant = op[3] % 3
            if variant == 0:
                res = select('x for x in E if x.%s == val' % a, {'E': E}, {'val': to_py(a, jv)})[:]
            elif variant == 1:
                res = E.select(**{a: to_py(a, jv)})[:]
            else:
                res = select('x for x in E if x.%s == val' % a, {'E': E}, {'val': to_py(a, jv)}).order_by('-x.id')[:]
            for o in res:
                st.objs[o.id] = o
                rec['reads'].append([o.id, a, jv])
            return rec
        pk = pk_of(op[1])
        if name == 'getkw':
            a = NAMES[op[2] % len(NAMES)]
            jv = domain_value(a, op[3])
            if KIND[a] == 'float':
                return rec
            o = E.get(id=pk, **{a: _ref(st, a, to_py(a, jv))})
            rec['attr'] = a
            if o is not None:
                st.objs[pk] = o
                rec['reads'].append([pk, a, jv])
            return rec
        if name == 'selkw':
            a = NAMES[op[2] % len(NAMES)]
            jv = domain_value(a, op[3])
            if KIND[a] in ('float', 'ref', 'cref', 'bool') or jv is None:
                return rec
            rec['attr'] = a
            for o in select('x for x in E if x.id == pk and x.%s == val' % a, {'E': E}, {'pk': pk, 'val': to_py(a, jv)})[:]:
                st.objs[o.id] = o
                rec['reads'].append([o.id, a, jv])
            return rec
        o = _obj(st, pk)
        if name == 'read':
            a = NAMES[op[2] % len(NAMES)]
            rec['reads'].append([pk, a, to_json(a, getattr(o, a))])
        elif name == 'dict':
            d = o.to_dict()
            for a in NAMES:
                rec['reads'].append([pk, a, to_json(a, d[a])])
        elif name == 'write':
            a = NAMES[op[2] % len(NAMES)]
            jv = domain_value(a, op[3])
            if jv is None and a not in ('m', 'g', 'h'):
                jv = domain_value(a, op[3] + 1)
            setattr(o, a, _ref(st, a, to_py(a, jv)))
            rec['writes'].append([pk, a, jv])
        elif name == 'set':
            kw = {}
            for pair in op[2][:3]:
                a = NAMES[pair[0] % len(NAMES)]
                jv = domain_value(a, pair[1])
                kw[a] = jv
            o.set(**{a: _ref(st, a, to_py(a, jv)) for a, jv in kw.items()})
            for a, jv in sorted(kw.items()):
                rec['writes'].append([pk, a, jv])
        elif name == 'bump':                    # read then overwrite the same attribute
            a = INTLIKE[op[2] % len(INTLIKE)]
            old = getattr(o, a)
            setattr(o, a, (old + 1) % 50)
            rec['reads'].append([pk, a, old])
            rec['writes'].append([pk, a, (old + 1) % 50])
        elif name == 'copy':                    # dependent write: dst = f(src)
            src = INTLIKE[op[2] % len(INTLIKE)]
            dst = INTLIKE[op[3] % len(INTLIKE)]
            if src == dst:
                dst = INTLIKE[(op[3] + 1) % len(INTLIKE)]
            val = getattr(o, src)
            setattr(o, dst, (val + 10) % 50)
            rec['reads'].append([pk, src, val])
            rec['writes'].append([pk, dst, (val + 10) % 50])
        elif name == 'del':
            o.delete()
            rec['deleted'].append(pk)
        else:
            raise ValueError('unknown op %r' % (op,))
        return rec
    return exec_op


# ---------------------------------------------------------------------------------------------------------------------
# the oracle
# ---------------------------------------------------------------------------------------------------------------------

_update_re = re.compile(r'^\s*UPDATE "E"\s+SET (.*?)\s+WHERE "id" = \?', re.S)
_delete_re = re.compile(r'^\s*DELETE FROM "E"\s+WHERE "id" = \?', re.S)

ALLOWED_CONFLICT_ERRORS = ('OptimisticCheckError', 'UnrepeatableReadError')


def dml_targets(sql_list):
    """pks of E rows that UPDATE / DELETE statements of one step address (from the statement log)"""
    upd, dele = [], []
    for sql, params in sql_list:
        m = _update_re.match(sql)
        if m and params is not None:
            nset = m.group(1).count('?')
            upd.append(params[nset])
            continue
        if _delete_re.match(sql) and params is not None:
            dele.append(params[0])
    return upd, dele


def fmt_trace(case, events):
    out = []
    for ev in events:
        i = ev['actor']
        ops = case['actors'][i]['ops']
        op = ops[ev['op']] if ev['op'] < len(ops) else ['end:' + case['actors'][i].get('end', 'commit')]
        if ev['outcome'] == 'ok':
            v = ev['value']
            r = ''
            if isinstance(v, dict):
                r = ' '.join(filter(None, [v.get('how', ''), 'reads=%s' % v['reads'] if v['reads'] else '',
                                           'writes=%s' % v['writes'] if v['writes'] else '',
                                           'locked=%s' % v['locked'] if v['locked'] else '']))
        elif ev['outcome'] == 'raised':
            r = 'RAISED %s: %s' % (type(ev['error']).__name__, str(ev['error'])[:120])
        else:
            r = 'BLOCKED on ' + ev['lock']
        out.append('#%d a%d %s -> %s' % (ev['step'], i, op, r))
    return '\n    '.join(out)


class Verdict(object):
    def __init__(self):
        self.message = None
        self.classes = set()
        self.nontrivial = False
        self.stats = {}


def judge(case, events, states):
    """-> Verdict (message is None when the property held on this history)"""
    v = Verdict()
    n = len(case['actors'])
    reads = [dict() for _ in range(n)]        # (pk, attr) -> (step, value): first read of the database value
    writes = [dict() for _ in range(n)]       # pk -> set(attr)
    wsteps = [dict() for _ in range(n)]       # pk -> first step of a write op
    locked = [set() for _ in range(n)]
    last_update = [dict() for _ in range(n)]  # pk -> step of the last UPDATE statement sent
    first_step = [None] * n
    last_step = [None] * n
    commits = []                              # (step, actor, {pk: set(attrs)} written, deleted pks)
    deleted = [set() for _ in range(n)]
    segments = []                             # finished sessions of restarted actors: (actor, reads, writes, first, last step)

    def fail(msg):
        if v.message is None:
            v.message = msg + '\n  history:\n    ' + fmt_trace(case, events)

    for ev in events:
        i = ev['actor']
        if first_step[i] is None:
            first_step[i] = ev['step']
        last_step[i] = ev['step']
        spec = case['actors'][i]
        is_end = ev['op'] >= len(spec['ops'])
        opname = 'end' if is_end else spec['ops'][ev['op']][0]
        upd, dele = dml_targets(ev.get('sql', ()))
        for pk in upd:
            last_update[i][pk] = ev['step']
        if ev['outcome'] == 'blocked':
            v.classes.add('blocked')
        # --- the committed database may change only in the step of a successful commit
        commit_step = (is_end and spec.get('end', 'commit') == 'commit') or opname in ('commit', 'restart')
        ok_commit = commit_step and ev['outcome'] == 'ok'
        if ev['before'] != ev['after']:
            if not ok_commit:
                fail('step #%d of actor %d (%s, outcome %s%s) changed the committed database from %r to %r although the '
                     'session did not commit' % (ev['step'], i, opname, ev['outcome'],
                                                 ': ' + type(ev['error']).__name__ if ev['outcome'] == 'raised' else '',
                                                 ev['before'], ev['after']))
        if ev['outcome'] == 'ok' and not is_end and opname not in ('commit', 'restart'):
            rec = ev['value']
            for pk, a, val in rec['reads']:
                if a in writes[i].get(pk, ()):       # reads its own pending value, not the database's
                    continue
                reads[i].setdefault((pk, a), (ev['step'], val))
            for pk, a, val in rec['writes']:
                writes[i].setdefault(pk, set()).add(a)
                wsteps[i].setdefault(pk, ev['step'])
            for pk in rec['locked']:
                locked[i].add(pk)
                v.classes.add('for_update')
            for pk in rec['deleted']:
                deleted[i].add(pk)
        # --- stale reads at this moment (session has written the object, did not lock it)
        stale = []
        for (pk, a), (rstep, val) in sorted(reads[i].items()):
            if a in EXEMPT or pk in locked[i] or pk not in writes[i] or a in writes[i][pk] or pk in deleted[i]:
                continue
            cur = ev['before'].get(pk)
            if cur is None or cur[a] != val:
                stale.append((pk, a, val, None if cur is None else cur[a], rstep))
        if ev['outcome'] == 'raised':
            e = ev['error']
            en = type(e).__name__
            if sched.is_lock_error(e):
                v.classes.add('lock_error')
            else:
                v.classes.add('fail:' + en)
            if stale and en in ALLOWED_CONFLICT_ERRORS:
                v.classes.add('stale_detected')
            if stale and (opname == 'flush' or commit_step):
                if en not in ALLOWED_CONFLICT_ERRORS and not sched.is_lock_error(e):
                    fail('actor %d: %s failed with %s (%s) while attributes it had read were changed by another session %r; '
                         'the property requires an optimistic-check or repeatable-read error'
                         % (i, opname, en, str(e)[:200], stale))
            if en in ('AssertionError', 'KeyError', 'AttributeError', 'IndexError', 'TypeError') and sched.raised_inside_pony(e):
                v.classes.add('internal_error')
        # --- a successful commit: every UPDATE it carried must have been justified
        if ok_commit:
            v.classes.add('commit')
            if not is_end:
                v.classes.add('mid_commit' if opname == 'commit' else 'restart')
            if last_update[i]:
                v.classes.add('commit_update')
            for pk, ustep in sorted(last_update[i].items()):
                if pk in locked[i]:
                    continue
                pre = ev['before'].get(pk)
                if pre is None:
                    if pk in deleted[i]:
                        continue
                    fail('actor %d committed an UPDATE of E[%d] (sent in step #%d) although the row had been deleted by another '
                         'session before (committed state before the commit: %r)' % (i, pk, ustep, ev['before']))
                    continue
                for (rpk, a), (rstep, val) in sorted(reads[i].items()):
                    if rpk != pk or a in EXEMPT or a in writes[i].get(pk, ()) or rstep >= ustep:
                        continue
                    if pre[a] != val:
                        fail('lost update: actor %d read E[%d].%s = %r in step #%d, did not overwrite it, and committed an UPDATE of '
                             'E[%d] (sent in step #%d, committed in step #%d) although another session had changed %s to %r meanwhile'
                             % (i, pk, a, val, rstep, pk, ustep, ev['step'], a, pre[a]))
            commits.append((ev['step'], i, {pk: set(s) for pk, s in writes[i].items()}, set(deleted[i])))
            # the transaction is over: its row locks are gone, later UPDATEs belong to the next transaction
            last_update[i] = {}
            locked[i] = set()
            if opname == 'restart':             # a new session: nothing read or written yet
                segments.append((i, dict(reads[i]), {pk: set(x) for pk, x in writes[i].items()}, first_step[i], ev['step']))
                reads[i], writes[i], wsteps[i], deleted[i] = {}, {}, {}, set()
                first_step[i] = None
    # --- non-triviality: overlapping read/write sets and an interleaved commit
    for i in range(n):
        if first_step[i] is not None:
            segments.append((i, reads[i], writes[i], first_step[i], last_step[i]))
    for (cstep, t, wr, dl) in commits:
        for (i, rd, wrs, s0, s1) in segments:
            if i == t:
                continue
            for (pk, a), (rstep, val) in rd.items():
                if (a in wr.get(pk, ()) or pk in dl) and rstep < cstep < s1 and pk in wrs:
                    v.nontrivial = True
                    v.classes.add('conflict')
    return v


def run_case(env, case):
    """-> (Verdict | None, info); None verdict = the case could not be judged (deadlock)"""
    world = env.world(case['layout'])
    reset_rows(world, case_rows(case))
    n = len(case['actors'])
    world.open_case(n)
    try:
        try:
            events, states = sched.run_sessions(world, case['actors'], make_exec(case), case['schedule'], snapshot_fn(world))
        except sched.Deadlock as d:
            return None, 'deadlock: %s' % d
    finally:
        world.close_case()
    return judge(case, events, states), events


def replay_case(case):
    d = sched.new_workdir('c20replay')
    env = Env(d)
    try:
        verdict, info = run_case(env, case)
        if verdict is None:
            return None
        return verdict.message
    finally:
        env.close()
        shutil.rmtree(d, ignore_errors=True)
