"""C31 sub-process side: rebuild the model of a case on the same SQLite file in a FRESH python process, unpickle
the given payloads inside a db_session and describe what came out as JSON on stdout.

input (JSON file named in argv[1]): {'spec':..., 'file': path, 'jobs': [{'kind': 'obj'|'list'|'coll'|'query'|'tuple',
                                     'data': base64 pickle, 'read': {entity index (str): [attr names safe to read]}}]}
output: {'jobs': [ description ]}, description = {'items': [item...]} with
        item = {'cls': name, 'pk': raw pk, 'identity': bool, 'vals': {attr: value}} or, for tuple query results,
        {'tuple': [item or plain value, ...]}
"""
import sys, json, base64, pickle


def main():
    with open(sys.argv[1]) as f:
        inp = json.load(f)
    try:
        from vlib import c31_model as cm
        from pony.orm import db_session
        from pony.orm.core import Entity
        env = cm.Env(inp['spec'], inp['file'], create_tables=False)
    except Exception:
        # the model could not even be rebuilt (e.g. pony not importable): a harness problem, not an unpickling result
        import traceback
        traceback.print_exc()
        sys.exit(3)
    names = dict((cls.__name__, i) for i, cls in enumerate(env.E))

    def describe(u, read):
        if not isinstance(u, Entity):
            return {'plain': cm.jsonable(u)}
        cls = u.__class__
        ei = names.get(cls.__name__)
        pk_names = [n for n, t in cm.PK_PARTS[inp['spec']['ents'][ei]['pk']]]
        parts = tuple(getattr(u, n) for n in pk_names)
        same = cls[parts if len(parts) > 1 else parts[0]] is u
        vals = {}
        for n in read.get(str(ei), []):
            v = getattr(u, n)
            if isinstance(v, Entity): v = {'cls': v.__class__.__name__, 'pk': cm.jsonable(v.get_pk())}
            else: v = cm.jsonable(v)
            vals[n] = v
        return {'cls': cls.__name__, 'registered': cls is env.E[ei], 'pk': cm.jsonable(u.get_pk()), 'identity': same,
                'vals': vals}

    out = []
    for job in inp['jobs']:
        with db_session:
            x = pickle.loads(base64.b64decode(job['data']))
            read = job['read']
            if job['kind'] == 'obj':
                desc = {'items': [describe(x, read)]}
            elif job['kind'] == 'tuple':
                desc = {'items': [{'tuple': [describe(y, read) for y in row]} for row in x], 'type': type(x).__name__}
            else:
                desc = {'items': [describe(y, read) for y in x], 'type': type(x).__name__}
            out.append(desc)
    env.close()
    sys.stdout.write(json.dumps({'jobs': out}))


if __name__ == '__main__':
    main()
